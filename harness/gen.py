"""Case generators.  Everything random derives from one random.Random(seed).

Three streams per family:
  (a) exhaustive small scope (all patterns of valid/invalid elements, variants, keys),
  (b) type-directed mostly-valid inputs with single-position corruption,
  (c) hostile values (look-alikes, subclasses, NaN/inf, huge ints, surrogates, unhashables).
"""
from __future__ import annotations

import itertools
import random
from typing import Any, Callable, List, Optional, Tuple

from .lang import N, P, Some

# ---------------------------------------------------------------------------
# the standard class table (ids are positions)
STD_CLASSES: List[dict] = [
    {"kind": "data", "fields": [("a", None, None, True), ("b", None, ("VInt", 5), False)]},          # 0
    {"kind": "data_slots", "fields": [("a", None, None, True)]},                                     # 1
    {"kind": "named", "fields": [("x", None, None, True), ("y", None, ("VStr", [100]), False)]},     # 2
    {"kind": "typed", "total": True, "fields": [("k", None, None, True), ("o", None, None, False)]},  # 3
    {"kind": "plain", "hashable": True},                                                              # 4
    {"kind": "sub", "base": "str"},                                                                   # 5
    {"kind": "sub", "base": "int"},                                                                   # 6
    {"kind": "sub", "base": "dict"},                                                                  # 7
    {"kind": "sub", "base": "list"},                                                                  # 8
    {"kind": "data", "hashable": True, "fields": [("v", None, None, True)]},                          # 9
    {"kind": "typed", "total": False, "fields": [("r", None, None, True), ("n", None, None, False)]},  # 10
    {"kind": "plain", "hashable": False},                                                             # 11
    # a dataclass whose __post_init__ sets a non-field attribute
    {"kind": "data", "post_init": True, "fields": [("a", None, None, True)]},                         # 12
    # Base2 (a, b required) and Derived2(Base2) which gives b a default
    {"kind": "data", "fields": [("a", None, None, True), ("b", None, None, True)]},                   # 13
    {"kind": "data", "base_cls": 13, "own": 1,
     "fields": [("a", None, None, True), ("b", None, ("VInt", 5), False)]},                           # 14
    # a slots dataclass deriving from the plain dataclass 0 (instances have an empty __dict__)
    {"kind": "data_slots", "base_cls": 0, "own": 0,
     "fields": [("a", None, None, True), ("b", None, ("VInt", 5), False)]},                           # 15
    # same field names as class 3, every key required (for requiredness-only differences)
    {"kind": "typed", "total": True, "fields": [("k", None, None, True), ("o", None, None, True)]},   # 16
    # a dataclass whose optional field gets its default from default_factory (a mutable default)
    {"kind": "data", "fields": [("a", None, None, True), ("b", None, ("VList", []), False)]},         # 17
    # a NamedTuple with two defaulted fields (an earlier one may be absent while a later one is given)
    {"kind": "named", "fields": [("x", None, None, True), ("y", None, ("VStr", [100]), False), ("z", None, ("VInt", 7), False)]},  # 18
]
from . import build as _B
_B.STD_DESCS[0] = STD_CLASSES
(C_DATA, C_SLOTS, C_NAMED, C_TYPED, C_PLAIN, C_STR, C_INT, C_DICT, C_LIST, C_FROZEN, C_TYPED2, C_UNHASH,
 C_POSTINIT, C_BASE2, C_DERIVED2, C_SLOTSUB, C_TYPED_ALLREQ, C_FACTORY, C_NAMED2) = range(19)


def S(s: str):
    return ("VStr", [ord(c) for c in s])


def B(b: bytes):
    return ("VBytes", list(b))


def I(z: int):
    return ("VInt", z)


def F(neg, m, e):
    return ("VFloat", ("FFin", neg, m, e))


def D(neg, coeff, exp):
    return ("VDecimal", ("DFin", neg, coeff, exp))


NONE = ("VNone",)
TRUE = ("VBool", True)
FALSE = ("VBool", False)
NAN = ("VFloat", ("FNan",))
INF = ("VFloat", ("FInf", False))
NINF = ("VFloat", ("FInf", True))
F0 = F(False, 0, 0)
FN0 = F(True, 0, 0)
F1 = F(False, 1, 0)
F15 = F(False, 3, -1)
F2 = F(False, 1, 1)
DNAN = ("VDecimal", ("DNan", False, False))
DSNAN = ("VDecimal", ("DNan", False, True))
DINF = ("VDecimal", ("DInf", False))
D1 = D(False, 1, 0)
D10 = D(False, 10, -1)
D15 = D(False, 15, -1)
DN0 = D(True, 0, 0)
DBIG = D(False, 1, 1000)
UUID1 = ("VUuid", 0x12345678123456781234567812345678)
UUID0 = ("VUuid", 0)
DATE1 = ("VDate", 737425)      # 2020-01-01
DATE2 = ("VDate", 737426)
DATEMIN = ("VDate", 1)
DT1 = ("VDatetime", 63713433600000000, None)            # naive
DT2 = ("VDatetime", 63713433600000001, None)
DTA = ("VDatetime", 63713433600000000, Some(0))         # aware UTC
DTB = ("VDatetime", 63713437200000000, Some(3600))      # aware +01:00, same instant as DTA
NOTHING = ("VNothing",)
OBJ = ("VObj", N(C_PLAIN), [])
UOBJ = ("VObj", N(C_UNHASH), [])
STRSUB = ("VSub", N(C_STR), S("ab"))
INTSUB = ("VSub", N(C_INT), I(2))
DICTSUB = ("VSub", N(C_DICT), ("VDict", [P(S("k"), I(1))]))
LISTSUB = ("VSub", N(C_LIST), ("VList", [I(1)]))
BIGINT = I(10 ** 400)
SURR = ("VStr", [0xD800])

INTS = [I(z) for z in (-3, -2, -1, 0, 1, 2, 3, 4, 7, 10)]
FLOATS = [F0, FN0, F1, F15, F2, F(True, 1, 0), NAN, INF, NINF, F(False, 1, 1000), F(False, 1, -1074)]
STRS = [S(""), S("a"), S(" a "), S("ab"), S("abc"), S("\n"), S(" \t"), S("aB"), S("12"), S("1.5"),
        S("ß"), S("éa"), S("　a"), S("b"), S("abcd")]
PARSE_STRS = [S("1.5"), S(" 12 "), S("1_0"), S("NaN"), S("sNaN"), S("Infinity"), S("1e1000"), S("abc"),
              S("2020-01-02"), S("20200102"), S("2020-01-02T03:04:05"), S("2020-01-02T03:04:05+01:00"),
              S("2020-01-02 03:04:05.123456"), S("2020-13-01"),
              S("12345678-1234-5678-1234-567812345678"), S("{12345678-1234-5678-1234-567812345678}"),
              S("urn:uuid:12345678-1234-5678-1234-567812345678"), S("12345678123456781234567812345678"),
              S("1234"), S("١٢"), S("0"), S("0.00"), S("-0"), S(" 0 "), S("0e5"),
              S("2020-01-01Z"), S("20200101Z"), S("2020-01-02T03:04:05Z"), S("2020-W01-1Z"), S("²"), S("①"),
              # the ends of the datetime range with an offset that points beyond them; a line terminator after a
              # well-formed text (what `$` in a regular expression overlooks); other trailing characters
              S("0001-01-01T00:00:00+01:00"), S("9999-12-31T23:59:59-01:00"), S("0001-01-01T00:00:00-23:59"),
              S("12345678-1234-5678-1234-567812345678\n"), S("12345678123456781234567812345678\n"), S("2020-01-02\n"),
              S("2020-01-02T03:04:05\n"), S("1.5\n"), S("12345678-1234-5678-1234-567812345678 "), S("\n2020-01-02"),
              S("2020-01-02T24:00:00"), S("2020-01-02T03:04:60"), S("2020-01-02T03:04:05+24:00"),
              # date-only values written as midnight timestamps
              S("2020-01-02T00:00:00"), S("2020-01-02T00:00"), S("2020-01-02 00:00:00"), S("20200102T000000")]
BYTESS = [B(b""), B(b"a"), B(b" a "), B(b"ab"), B(b"\xff"), B(b"aB"), B(b"\x0b")]
DECS = [D(False, 0, 0), D1, D10, D15, DN0, D(False, 2, 0), D(True, 1, 0), D(False, 3, 0)]
DECS_HOSTILE = [DNAN, DSNAN, DINF, DBIG, ("VDecimal", ("DInf", True))]
DATES = [DATE1, DATE2, DATEMIN]
DTS = [DT1, DT2, DTA, DTB]
UUIDS = [UUID1, UUID0]

ATOMS_HASHABLE = (INTS + [TRUE, FALSE, NONE] + FLOATS[:6] + STRS[:8] + BYTESS[:4] + DECS[:4]
                  + DATES[:2] + DTS[:3] + UUIDS + [OBJ, STRSUB, INTSUB, BIGINT])


def hostile_pool() -> list:
    pool = list(ATOMS_HASHABLE) + FLOATS + STRS + PARSE_STRS + BYTESS + DECS + DECS_HOSTILE + DATES + DTS
    pool += [NOTHING, ("VJust", I(1)), ("VJust", S("a")), UOBJ, DICTSUB, LISTSUB, SURR,
             ("VList", []), ("VList", [I(1), S("a")]), ("VList", [I(1), I(2)]),
             ("VTuple", []), ("VTuple", [I(1), I(2)]), ("VTuple", [S("a"), I(1)]),
             ("VSet", []), ("VSet", [I(1), I(2)]), ("VSet", [S("a")]),
             ("VDict", []), ("VDict", [P(S("a"), I(1))]), ("VDict", [P(I(1), S("a")), P(S("k"), I(2))]),
             ("VList", [("VList", [I(1)]), ("VList", [])]),
             ("VTuple", [I(1), ("VList", [I(2)])]),
             ("VObj", N(C_DATA), [P(S("a"), I(1)), P(S("b"), I(5))]),
             ("VObj", N(C_SLOTS), [P(S("a"), I(1))]),
             ("VObj", N(C_NAMED), [P(S("x"), I(1)), P(S("y"), S("d"))]),
             ("VObj", N(C_FROZEN), [P(S("v"), I(1))]),
             ]
    return pool


HOSTILE = hostile_pool()

# ---------------------------------------------------------------------------
# predicates / processors typed for a target type

KINDS = ["KStr", "KInt", "KFloat", "KBool", "KBytes", "KDecimal", "KUuid", "KDate", "KDatetime"]
KIND_POOL = {
    "KStr": STRS, "KInt": INTS, "KFloat": FLOATS[:6] + [F(False, 5, -1)], "KBool": [TRUE, FALSE],
    "KBytes": BYTESS, "KDecimal": DECS, "KUuid": UUIDS, "KDate": DATES, "KDatetime": [DT1, DT2],
}
DEFAULT_CO = {"KDecimal": "CoDecimal", "KUuid": "CoUuid", "KDate": "CoDate", "KDatetime": "CoDatetime"}


def typed_preds(kind: str, rng: random.Random) -> list:
    """All built-in predicates that the library's annotations allow on this kind."""
    pool = KIND_POOL[kind]
    c = lambda: rng.choice(pool)
    out: list = [("PUser", N(rng.choice([0, 1, 2, 3])))]
    if kind in ("KInt", "KFloat", "KDecimal", "KDate", "KDatetime"):
        out += [("PMin", c(), rng.random() < 0.5), ("PMax", c(), rng.random() < 0.5)]
    if kind in ("KInt", "KFloat", "KDecimal"):
        nz = [p for p in pool if p not in (I(0), F0, FN0, D(False, 0, 0), DN0)]
        out += [("PMultipleOf", rng.choice(nz))]
    if kind in ("KStr", "KBytes"):
        n = lambda: rng.choice([0, 1, 2, 3])
        out += [("PMinLength", n()), ("PMaxLength", n()), ("PExactLength", n()),
                ("PStartsWith", c()), ("PEndsWith", c()), ("PNotBlank",)]
    if kind == "KStr":
        out += [("PRegex", N(rng.choice([0, 1, 2, 3]))), ("PEmail",)]
    out += [("PChoices", rng.sample(pool, min(len(pool), rng.choice([0, 1, 2, 3])))),
            ("PEqualTo", c())]
    return out


def typed_procs(kind: str, rng: random.Random) -> list:
    out = [("ProcUser", N(rng.choice([0, 1, 2])))]
    if kind in ("KStr", "KBytes"):
        out += [("Strip",), ("Upper",), ("Lower",)]
    return out


WF_ONLY = [False]   # when set, user coercers are restricted to those returning the target type


def gen_scalar(rng: random.Random, kind: Optional[str] = None, allow_async: bool = True,
               simple: bool = False):
    kind = kind or rng.choice(KINDS)
    co = None
    r = rng.random()
    if kind in DEFAULT_CO and r < 0.6:
        co = Some((DEFAULT_CO[kind],))
    elif r > 0.85 and not simple:
        ids = [0, 1, 2, 4]
        if WF_ONLY[0]:
            ids = [0, 2, 4] if kind == "KInt" else [0]
        co = Some(("CoUser", N(rng.choice(ids))))
    if simple:
        return ("Scalar", (kind,), co, [], [], [])
    npre = rng.choice([0, 0, 0, 1, 2, 3])
    nps = rng.choice([0, 0, 1, 1, 2, 3, 4])
    naps = rng.choice([0, 0, 0, 0, 1, 2]) if allow_async else 0
    pre = [rng.choice(typed_procs(kind, rng)) for _ in range(npre)]
    ps = [rng.choice(typed_preds(kind, rng)) for _ in range(nps)]
    aps = [("APred", N(rng.choice([0, 1, 2, 3]))) for _ in range(naps)]
    return ("Scalar", (kind,), co, pre, ps, aps)


def coll_preds(rng: random.Random) -> list:
    n = lambda: rng.choice([0, 1, 2, 3])
    return [("PMinItems", n()), ("PMaxItems", n()), ("PExactItemCount", n()), ("PUniqueItems",),
            ("PUser", N(rng.choice([0, 1, 2, 3])))]


def map_preds(rng: random.Random) -> list:
    n = lambda: rng.choice([0, 1, 2, 3])
    return [("PMinKeys", n()), ("PMaxKeys", n()), ("PUser", N(rng.choice([0, 2, 3])))]


def gen_user(rng: random.Random, allow_async: bool = True):
    ids = [0, 2, 3, 4] + ([1] if allow_async else [])
    return ("UserV", N(rng.choice(ids)), rng.random() < 0.5)


LEAF_KEYS = [S("a"), S("b"), I(1), S("c"), ("VTuple", [I(1), S("x")]), D15]


def gen_validator(rng: random.Random, depth: int, allow_async: bool = True, lazy_n: int = 0):
    """A random validator tree (KeyNotRequired only in key position)."""
    if depth <= 0:
        r = rng.random()
        if r < 0.65:
            return gen_scalar(rng, allow_async=allow_async)
        if r < 0.72:
            return ("NoneV", None if rng.random() < 0.7 else Some(("CoUser", N(rng.choice([0, 1])))))
        if r < 0.80:
            return ("EqualsV", rng.choice(ATOMS_HASHABLE[:40]), [])
        if r < 0.86:
            return ("AlwaysValid",)
        if r < 0.90:
            return ("IsDictV",)
        return gen_user(rng, allow_async)
    sub = lambda: gen_validator(rng, depth - 1, allow_async, lazy_n)
    aps = lambda: ([("APred", N(rng.choice([0, 1, 2])))] if allow_async and rng.random() < 0.15 else [])
    cps = lambda: [rng.choice(coll_preds(rng)) for _ in range(rng.choice([0, 0, 1, 2]))]
    obj = lambda: (None if rng.random() < 0.6 else Some(N(rng.choice([0, 1, 2]))))
    aobj = lambda has: (None if (has or not allow_async or rng.random() < 0.8) else Some(N(rng.choice([0, 1, 2]))))
    r = rng.random()
    if r < 0.12:
        co = None if rng.random() < 0.8 else Some(("CoUser", N(3)))
        return ("ListV", sub(), cps(), aps(), co)
    if r < 0.20:
        return ("SetV", sub(), cps(), aps(), None)
    if r < 0.28:
        co = rng.choice([None, Some(("CoTupleOrList",)), Some(("CoTupleOrList",)), Some(("CoUser", N(6)))])
        return ("UTupleV", sub(), cps(), aps(), co)
    if r < 0.38:
        n = rng.choice([0, 1, 2, 3])
        co = rng.choice([None, Some(("CoTupleOrList",)), Some(("CoTupleOrList",))])
        return ("NTupleV", [sub() for _ in range(n)], obj(), co)
    if r < 0.46:
        mps = [rng.choice(map_preds(rng)) for _ in range(rng.choice([0, 0, 1, 2]))]
        co = None if rng.random() < 0.85 else Some(("CoUser", N(5)))
        return ("MapV", sub(), sub(), mps, aps(), co)
    if r < 0.56:
        keys = rng.sample(LEAF_KEYS, rng.choice([0, 1, 2, 3]))
        ks = [P(k, (("KeyNotRequired", sub()) if rng.random() < 0.35 else sub())) for k in keys]
        o = obj()
        return ("RecordV", ks, N(rng.choice([0, 1, 2])), o, aobj(o is not None), rng.random() < 0.4)
    if r < 0.64:
        keys = rng.sample(LEAF_KEYS, rng.choice([0, 1, 2, 3]))
        ks = [P(k, (("KeyNotRequired", sub()) if rng.random() < 0.35 else sub())) for k in keys]
        o = obj()
        return ("DictAnyV", ks, o, aobj(o is not None), rng.random() < 0.4)
    if r < 0.74:
        return gen_classv(rng, sub, obj, aobj)
    if r < 0.84:
        return ("UnionV", [sub() for _ in range(rng.choice([1, 2, 2, 3, 4]))])
    if r < 0.89:
        nonev = ("NoneV", None)
        return ("OptionalV", nonev, sub())
    if r < 0.93:
        return ("MaybeV", sub())
    if r < 0.96 and lazy_n:
        return ("LazyV", N(rng.randrange(lazy_n)), True)
    if r < 0.98:
        return ("CacheV", sub())
    return gen_scalar(rng, allow_async=allow_async)


CLASS_SCHEMAS = {
    C_DATA: ("RkData", [("a", True), ("b", False)]),
    C_SLOTS: ("RkData", [("a", True)]),
    C_FROZEN: ("RkData", [("v", True)]),
    C_NAMED: ("RkNamed", [("x", True), ("y", False)]),
    C_TYPED: ("RkTyped", [("k", True), ("o", False)]),
    C_TYPED2: ("RkTyped", [("r", True), ("n", False)]),
    C_POSTINIT: ("RkData", [("a", True)]),
    C_BASE2: ("RkData", [("a", True), ("b", True)]),
    C_DERIVED2: ("RkData", [("a", True), ("b", False)]),
    C_SLOTSUB: ("RkData", [("a", True), ("b", False)]),
    C_TYPED_ALLREQ: ("RkTyped", [("k", True), ("o", True)]),
    C_FACTORY: ("RkData", [("a", True), ("b", False)]),
    C_NAMED2: ("RkNamed", [("x", True), ("y", False), ("z", False)]),
}


def gen_classv(rng: random.Random, sub: Callable[[], Any], obj, aobj, cid: Optional[int] = None):
    cid = cid if cid is not None else rng.choice(list(CLASS_SCHEMAS))
    rk, flds = CLASS_SCHEMAS[cid]
    schema = [P(S(n), P(sub(), req)) for n, req in flds]
    o = obj()
    co = None
    if rng.random() < 0.15:
        co = Some(("CoDataclassNoCoerce", N(cid))) if rk == "RkData" else (
            Some(("CoNamedTupleNoCoerce", N(cid))) if rk == "RkNamed" else Some(("CoUser", N(5))))
    return ("ClassV", (rk,), N(cid), schema, o, aobj(o is not None), rng.random() < 0.4, co)


def instance_cases(rng: random.Random) -> list:
    """(validator, input) pairs: instances of the target class whose fields hold what only an instance can
    hold without a mapping in between - other instances, opaque objects, containers of them, values the field
    validator coerces - under field validators that pass them through or coerce them."""
    out = []
    ANY = ("AlwaysValid",)
    frozen = ("VObj", N(C_FROZEN), [P(S("v"), I(1))])
    inner = [OBJ, UOBJ, frozen, ("VObj", N(C_DATA), [P(S("a"), I(1)), P(S("b"), I(5))]),
             ("VList", [OBJ]), ("VList", [("VObj", N(C_FROZEN), [P(S("v"), OBJ)])]),
             ("VDict", [P(S("k"), ("VObj", N(C_FROZEN), [P(S("v"), I(2))]))]), ("VTuple", [OBJ, I(1)]), I(1), NONE]
    # (field validator, values it accepts)
    kinds = [(ANY, inner), (("ListV", ANY, [], [], None), [("VList", [OBJ]), ("VList", [frozen, I(1)]), ("VList", [])]),
             (("Scalar", ("KType", ("TClass", N(C_FROZEN))), None, [], [], []), [frozen]),
             (("OptionalV", ("NoneV", None), ANY), inner),
             # coercing fields: the payload holds the child's payload (Decimal(5)), not the equal raw value (5)
             (("Scalar", ("KDecimal",), Some(("CoDecimal",)), [], [], []), [I(5), I(0), S("1.5"), D1]),
             (("UTupleV", ANY, [], [], Some(("CoTupleOrList",))), [("VList", [I(1), I(2)]), ("VTuple", [OBJ]), ("VList", [])])]
    for cid in (C_DATA, C_DERIVED2, C_FACTORY, C_NAMED, C_NAMED2, C_SLOTS):
        rk, flds = CLASS_SCHEMAS[cid]
        for fv, good in kinds:
            for strict in (False, True):
                v = ("ClassV", (rk,), N(cid), [P(S(n), P(fv, req)) for n, req in flds], None, None, strict, None)
                for _ in range(3):
                    vals = [rng.choice(good) if rng.random() < 0.8 else rng.choice(inner) for _ in flds]
                    x = ("VObj", N(cid), [P(S(n), y) for (n, _r), y in zip(flds, vals)])
                    out.append((v, x))
                    out.append((("ListV", v, [], [], None), ("VList", [x])))
    return out


# ---------------------------------------------------------------------------
# type-directed inputs


def valid_input(v, rng: random.Random, lazy: list, depth: int = 6):
    """Best-effort: an input the validator is likely to accept."""
    c = v[0]
    if depth <= 0:
        return NONE
    if c == "Scalar":
        k = v[1][0]
        if k == "KType":
            return OBJ
        pool = KIND_POOL[k]
        # honour EqualTo / Choices when present
        for p in v[4]:
            if p[0] == "PEqualTo":
                return p[1]
            if p[0] == "PChoices" and p[1]:
                return rng.choice(p[1])
        if v[2] is not None and v[2].x[0] in ("CoDecimal", "CoUuid", "CoDate", "CoDatetime") and rng.random() < 0.4:
            return rng.choice(PARSE_STRS + (INTS[3:7] if v[2].x[0] == "CoDecimal" else []))
        return rng.choice(pool)
    if c == "NoneV":
        return NONE
    if c == "EqualsV":
        return v[1]
    if c == "AlwaysValid":
        return rng.choice(HOSTILE)
    if c == "IsDictV":
        return rng.choice([("VDict", []), DICTSUB, ("VDict", [P(S("a"), I(1))])])
    if c in ("ListV", "SetV", "UTupleV"):
        n = rng.choice([0, 1, 2, 3])
        xs = [valid_input(v[1], rng, lazy, depth - 1) for _ in range(n)]
        if c == "ListV":
            return ("VList", xs)
        if c == "UTupleV":
            return ("VTuple", xs) if rng.random() < 0.7 else ("VList", xs)
        return ("VSet", dedupe_hashable(xs))
    if c == "NTupleV":
        xs = [valid_input(f, rng, lazy, depth - 1) for f in v[1]]
        return ("VTuple", xs) if rng.random() < 0.6 else ("VList", xs)
    if c == "MapV":
        n = rng.choice([0, 1, 2])
        kvs = []
        for _ in range(n):
            k = valid_input(v[1], rng, lazy, depth - 1)
            if is_hashable_term(k) and all(not py_eq_terms(k, p.a) for p in kvs):
                kvs.append(P(k, valid_input(v[2], rng, lazy, depth - 1)))
        return ("VDict", kvs)
    if c in ("RecordV", "DictAnyV"):
        kvs = []
        for p in v[1]:
            inner = p.b[1] if p.b[0] == "KeyNotRequired" else p.b
            if p.b[0] == "KeyNotRequired" and rng.random() < 0.4:
                continue
            kvs.append(P(p.a, valid_input(inner, rng, lazy, depth - 1)))
        return ("VDict", kvs)
    if c == "ClassV":
        kvs = []
        # an instance of the target class (every field set) is as good an input as a mapping
        inst = v[1][0] != "RkTyped" and v[7] is None and rng.random() < 0.2
        for p in v[3]:
            if not inst and not p.b.b and rng.random() < 0.4:
                continue
            kvs.append(P(p.a, valid_input(p.b.a, rng, lazy, depth - 1)))
        if inst:
            return ("VObj", v[2], kvs)
        return ("VDict", kvs)
    if c == "UnionV":
        return valid_input(rng.choice(v[1]), rng, lazy, depth - 1)
    if c == "OptionalV":
        return NONE if rng.random() < 0.3 else valid_input(v[2], rng, lazy, depth - 1)
    if c == "MaybeV":
        return NOTHING if rng.random() < 0.3 else ("VJust", valid_input(v[1], rng, lazy, depth - 1))
    if c == "LazyV":
        return valid_input(lazy[v[1].k], rng, lazy, depth - 1)
    if c in ("KeyNotRequired", "CacheV"):
        return valid_input(v[1], rng, lazy, depth - 1)
    if c == "UserV":
        return {0: I(3), 1: I(4), 2: S("z"), 3: S(" q "), 4: I(0)}[v[1].k]
    return NONE


def is_hashable_term(t) -> bool:
    c = t[0]
    if c in ("VList", "VSet", "VDict", "VJust", "VNothing"):
        return False
    if c == "VTuple":
        return all(is_hashable_term(x) for x in t[1])
    if c == "VObj":
        return t[1].k in (C_PLAIN, C_FROZEN, C_NAMED) and all(is_hashable_term(p.b) for p in t[2])
    if c == "VSub":
        return t[1].k in (C_STR, C_INT)
    if c == "VDecimal" and t[1][0] == "DNan":
        return False
    if c == "VFloat" and t[1][0] == "FNan":
        return False   # NaN as a set member / key is excluded (identity semantics)
    return True


def py_eq_terms(a, b) -> bool:
    """Conservative: could the two terms be == in Python?"""
    from .build import to_py
    try:
        return to_py(a, _STD_CT()) == to_py(b, _STD_CT())
    except Exception:
        return True


_CT_CACHE: dict = {}


def _STD_CT():
    from .build import ClassTable
    if "std" not in _CT_CACHE:
        _CT_CACHE["std"] = ClassTable(STD_CLASSES)
    return _CT_CACHE["std"]


def dedupe_hashable(xs: list) -> list:
    out: list = []
    for x in xs:
        if is_hashable_term(x) and all(not py_eq_terms(x, y) for y in out):
            out.append(x)
    return out


def corrupt(x, rng: random.Random, depth: int = 4):
    """Replace one randomly chosen position of x by a hostile value."""
    c = x[0]
    if depth > 0 and c in ("VList", "VTuple") and x[1] and rng.random() < 0.7:
        i = rng.randrange(len(x[1]))
        xs = list(x[1])
        xs[i] = corrupt(xs[i], rng, depth - 1)
        return (c, xs)
    if depth > 0 and c == "VDict" and x[1] and rng.random() < 0.7:
        i = rng.randrange(len(x[1]))
        kvs = list(x[1])
        r = rng.random()
        if r < 0.6:
            kvs[i] = P(kvs[i].a, corrupt(kvs[i].b, rng, depth - 1))
        elif r < 0.8:
            del kvs[i]
        else:
            k = rng.choice([S("zz"), I(9), S("a")])
            if all(not py_eq_terms(k, p.a) for p in kvs):
                kvs.append(P(k, rng.choice(HOSTILE)))
        return (c, kvs)
    if depth > 0 and c == "VJust" and rng.random() < 0.7:
        return ("VJust", corrupt(x[1], rng, depth - 1))
    return rng.choice(HOSTILE)


def term_height(t) -> int:
    if isinstance(t, tuple):
        return 1 + max([term_height(x) for x in t[1:]] + [0])
    if isinstance(t, list):
        return max([term_height(x) for x in t] + [0])
    if isinstance(t, P):
        return max(term_height(t.a), term_height(t.b))
    if isinstance(t, Some):
        return term_height(t.x)
    return 0


def contains(t, ctor: str) -> bool:
    """Does the term mention the constructor anywhere?"""
    if isinstance(t, tuple):
        return (bool(t) and t[0] == ctor) or any(contains(x, ctor) for x in t[1:])
    if isinstance(t, list):
        return any(contains(x, ctor) for x in t)
    if isinstance(t, P):
        return contains(t.a, ctor) or contains(t.b, ctor)
    if isinstance(t, Some):
        return contains(t.x, ctor)
    return False


def custom_none_cases() -> list:
    """Optionals built with a none_validator of the user's own (a NoneValidator with a coercer that refuses even None,
    one that reads everything as None, one that reads ints and bools as None): bare, in a list, under a key, in a
    union - (validator term, input term) pairs."""
    INT = ("Scalar", ("KInt",), None, [], [("PMin", I(0), False)], [])
    STRP = ("Scalar", ("KStr",), None, [("Strip",)], [("PNotBlank",)], [])
    xs = [NONE, I(1), I(-1), TRUE, S("a"), S("  "), ("VList", []), F1]
    out = []
    for k in (0, 1, 2):
        nv = ("NoneV", Some(("CoUser", N(k))))
        for inner in (INT, STRP):
            opt = ("OptionalV", nv, inner)
            for x in xs:
                out.append((opt, x))
            out.append((("ListV", opt, [], [], None), ("VList", xs[:5])))
            out.append((("DictAnyV", [P(S("k"), opt)], None, None, False), ("VDict", [P(S("k"), xs[k])])))
            out.append((("UnionV", [opt, ("Scalar", ("KFloat",), None, [], [], [])]), xs[7]))
            out.append((("UnionV", [opt, ("Scalar", ("KFloat",), None, [], [], [])]), xs[4 if inner is INT else 1]))
    return out


def wide_union_cases() -> list:
    """Unions of exactly 7 and 8 variants (the typed constructor takes up to eight): values only the last variant
    accepts, values only the first accepts, values every variant rejects - bare, in a list, under Optional."""
    kinds = ["KInt", "KStr", "KFloat", "KBool", "KBytes", "KDecimal", "KDate", "KUuid"]
    vals = {"KInt": I(3), "KStr": S("s"), "KFloat": F1, "KBool": TRUE, "KBytes": B(b"b"), "KDecimal": D1, "KDate": DATE1, "KUuid": UUID1}
    out = []
    for n in (7, 8):
        vs = [("Scalar", (k,), None, [], [], []) for k in kinds[:n]]
        u = ("UnionV", vs)
        for x in (vals[kinds[n - 1]], vals[kinds[0]], NONE, ("VList", []), vals[kinds[n - 2]]):
            out.append((u, x))
            out.append((("ListV", u, [], [], None), ("VList", [x, vals[kinds[n - 1]]])))
            out.append((("OptionalV", ("NoneV", None), u), x))
    return out


def set_children_cases() -> list:
    """Sets whose item validator is a transparent wrapper, a user-written validator or a transforming one: rejected
    members of every kind."""
    STRP = ("Scalar", ("KStr",), None, [("Strip",)], [("PNotBlank",), ("PMaxLength", 2)], [])
    DEC = ("Scalar", ("KDecimal",), Some(("CoDecimal",)), [], [("PMin", D1, False)], [])
    kids = [("LazyV", N(0), False), ("CacheV", STRP), STRP, DEC, ("UserV", N(0), False), ("UserV", N(4), False), ("UserV", N(3), False),
            ("OptionalV", ("NoneV", None), STRP), ("UnionV", [STRP, DEC])]
    xs = [("VSet", [S(" abc "), S("a")]), ("VSet", [S("  ")]), ("VSet", [I(0), S("0")]), ("VSet", [I(5), S(" q ")]), ("VSet", [NONE, S("abcd")]), ("VSet", [])]
    return [(("SetV", k, [], [], None), x) for k in kids for x in xs]

