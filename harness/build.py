"""Builds live Python values and koda_validate objects from case-language terms,
and converts live values / results back into terms (observe side)."""
from __future__ import annotations

import dataclasses
import math
import random
import sys
from datetime import date, datetime, timedelta, timezone
from decimal import Decimal
from typing import Any, Dict, List, NamedTuple, Optional, Tuple
from uuid import UUID

from koda import Just, nothing
from koda_validate import (
    AlwaysValid,
    BoolValidator,
    BytesValidator,
    Choices,
    DataclassValidator,
    DatetimeValidator,
    DateValidator,
    DecimalValidator,
    DictValidatorAny,
    EmailPredicate,
    EndsWith,
    EqualsValidator,
    EqualTo,
    ExactItemCount,
    ExactLength,
    FloatValidator,
    IntValidator,
    IsDictValidator,
    KeyNotRequired,
    Lazy,
    ListValidator,
    LowerCase,
    MapValidator,
    Max,
    MaxItems,
    MaxKeys,
    MaxLength,

    Min,
    MinItems,
    MinKeys,
    MinLength,
    MultipleOf,
    NamedTupleValidator,
    NoneValidator,
    NotBlank,
    NTupleValidator,
    OptionalValidator,
    RecordValidator,
    RegexPredicate,
    SetValidator,
    StartsWith,
    StringValidator,

    TypedDictValidator,

    UniformTupleValidator,
    UnionValidator,
    UniqueItems,
    UpperCase,
    UUIDValidator,
)
from koda_validate.base import CacheValidatorBase
from koda_validate.maybe import MaybeValidator
from koda_validate.generic import Strip
from koda_validate.is_type import TypeValidator
from koda_validate.dataclasses import dataclass_no_coerce
from koda_validate.decimal import coerce_decimal
from koda_validate.namedtuple import namedtuple_no_coerce
from koda_validate.time import coerce_date, coerce_datetime
from koda_validate.tuple import tuple_or_list_to_tuple
from koda_validate.uuid import coerce_uuid

from . import userlib as U
from .lang import N, P, Some, freeze

_DT0 = datetime(1, 1, 1)


_OBJS: dict = {"by_key": {}, "by_id": {}}
_CT_MEMO: dict = {}


def reset_objects() -> None:
    _OBJS["by_key"].clear()
    _OBJS["by_id"].clear()


class HarnessError(Exception):
    """The harness could not represent something: never a property violation."""


# ======================================================================= classes


ANN_RESOLVER: list = [None]     # set by C07: turns an annotation *term* held by a field into a Python type
_CLASS_CACHE: Dict[int, Any] = {}


def _ann(ann: Any, ct: Any) -> Any:
    if ann is None:
        return Any
    if hasattr(ann, "term") and hasattr(ann, "owner"):
        return ANN_RESOLVER[0](ann, ct)
    return ann


class ClassTable:
    """Per-case class table: descriptors (dicts) -> real classes.

    descriptor: {"kind": "data"|"data_slots"|"named"|"typed"|"plain"|"sub",
                 "base": <pytype name for sub>, "hashable": bool,
                 "fields": [(name, ann_py_or_None, default_term_or_None, required_bool)],
                 "total": bool}
    """

    def __init__(self, descs: List[dict]):
        self.descs = descs
        self.classes: List[type] = []
        self.ids: Dict[type, int] = {}
        for i, d in enumerate(descs):
            hit = _CLASS_CACHE.get(id(d))
            if hit is not None and hit[0] is d and hit[2] == i and "base_cls" not in d:
                c = hit[1]                       # the standard classes are built once
            else:
                c = self._make(i, d)
                if d in STD_DESCS[0]:
                    _CLASS_CACHE[id(d)] = (d, c, i)
            self.classes.append(c)
            self.ids[c] = i

    def _make(self, i: int, d: dict) -> type:
        kind = d["kind"]
        name = f"C{i}"
        if kind in ("data", "data_slots"):
            flds = []
            all_f = d["fields"]
            own = all_f if "base_cls" not in d else (all_f[len(all_f) - d.get("own", 0):] if d.get("own", 0) else [])
            for fname, ann, dflt, _req in own:
                a = _ann(ann, self)
                if dflt is None:
                    flds.append((fname, a))
                else:
                    dv = to_py(dflt, self)
                    if type(dv) in (list, dict, set):
                        import copy
                        flds.append((fname, a, dataclasses.field(default_factory=(lambda v=dv: copy.deepcopy(v)))))
                    else:
                        flds.append((fname, a, dataclasses.field(default=dv)))
            bases = (self.classes[d["base_cls"]],) if "base_cls" in d else ()
            ns = {}
            if d.get("post_init"):
                ns["__post_init__"] = lambda self_: object.__setattr__(self_, "extra_attr", 1)
            return dataclasses.make_dataclass(
                name,
                flds,
                bases=bases,
                namespace=ns,
                slots=(kind == "data_slots"),
                frozen=bool(d.get("hashable")),
            )
        if kind == "named":
            ns: dict = {"__annotations__": {}}
            for fname, ann, dflt, _req in d["fields"]:
                ns["__annotations__"][fname] = Any if ann is None else ann
                if dflt is not None:
                    ns[fname] = to_py(dflt, self)
            return type(NamedTuple)(name, (NamedTuple,), ns) if False else _mk_namedtuple(name, d, self)
        if kind == "typed":
            return _mk_typeddict(name, d, self)
        if kind == "plain":
            # opaque objects: like locks, generators or handles they can be neither copied nor pickled
            def _no_copy(self, *a, **k):
                raise TypeError(f"cannot copy / pickle a {name} object")
            ns = {"__copy__": _no_copy, "__deepcopy__": _no_copy, "__reduce_ex__": _no_copy, "__reduce__": _no_copy}
            if d.get("hashable", True):
                return type(name, (), {"__repr__": lambda s: f"<{name}>", **ns})
            return type(name, (), {"__eq__": lambda s, o: s is o, "__hash__": None, "__repr__": lambda s: f"<{name}>", **ns})
        if kind == "sub":
            base = {"str": str, "int": int, "dict": dict, "list": list, "float": float,
                    "tuple": tuple, "bytes": bytes, "set": set}[d["base"]]
            if base is dict:
                # like collections.defaultdict: a *read* of an absent key fabricates a value and stores it;
                # membership tests and .get() do not
                return type(name, (base,), {"__missing__": lambda self, k: self.setdefault(k, [])})
            return type(name, (base,), {})
        raise HarnessError(f"class kind {kind}")

    def coq(self) -> list:
        """Coq-side descriptors: list of (Build_cls kind hashable fields)."""
        out = []
        for d in self.descs:
            k = d["kind"]
            if k == "data":
                ck = ("CkData", False)
            elif k == "data_slots":
                ck = ("CkData", True)
            elif k == "named":
                ck = ("CkNamed",)
            elif k == "typed":
                ck = ("CkTyped",)
            elif k == "plain":
                ck = ("CkPlain",)
            else:
                ck = ("CkSub", (PYTYPE_OF_NAME[d["base"]],))
            flds = [P(vstr(f[0]), (Some(f[2]) if f[2] is not None else None)) for f in d.get("fields", [])]
            out.append(("Build_cls", ck, self.hashable(d), flds))
        return out

    @staticmethod
    def hashable(d: dict) -> bool:
        k = d["kind"]
        if k in ("data", "data_slots"):
            return bool(d.get("hashable"))
        if k == "named":
            return True
        if k == "typed":
            return False
        if k == "plain":
            return bool(d.get("hashable", True))
        return d["base"] in ("str", "int", "float", "tuple", "bytes")


def _mk_namedtuple(name: str, d: dict, ct: "ClassTable") -> type:
    import typing

    ann = [(f[0], _ann(f[1], ct)) for f in d["fields"]]
    cls = typing.NamedTuple(name, ann)  # type: ignore
    defaults = []
    seen_default = False
    for f in d["fields"]:
        if f[2] is not None:
            seen_default = True
            defaults.append(to_py(f[2], ct))
        elif seen_default:
            raise HarnessError("namedtuple default order")
    if defaults:
        cls.__new__.__defaults__ = tuple(defaults)
        cls._field_defaults = dict(zip([f[0] for f in d["fields"]][-len(defaults):], defaults))
    return cls


STD_DESCS: list = [[]]


def _mk_typeddict(name: str, d: dict, ct: Any = None) -> type:
    import typing

    total = d.get("total", True)
    ann = {}
    for fname, a, _dflt, req in d["fields"]:
        a = _ann(a, ct)
        if req and not total:
            a = typing.Required[a]
        elif not req and total:
            a = typing.NotRequired[a]
        ann[fname] = a
    return typing.TypedDict(name, ann, total=total)  # type: ignore


PYTYPE_OF_NAME = {
    "str": "TStr", "int": "TInt", "dict": "TDict", "list": "TList", "float": "TFloat",
    "tuple": "TTuple", "bytes": "TBytes", "set": "TSet",
}

# ======================================================================= values


def vstr(s: str):
    return ("VStr", [ord(c) for c in s])


def float_term(f: float):
    if math.isnan(f):
        return ("FNan",)
    if math.isinf(f):
        return ("FInf", f < 0)
    neg = math.copysign(1.0, f) < 0
    n, d = abs(f).as_integer_ratio()
    e = -(d.bit_length() - 1)
    if n == 0:
        return ("FFin", neg, 0, 0)
    while n % 2 == 0:
        n //= 2
        e += 1
    return ("FFin", neg, n, e)


def float_of(t) -> float:
    if t[0] == "FNan":
        return float("nan")      # a fresh object: containers compare members by identity first, the model by value only
    if t[0] == "FInf":
        return -math.inf if t[1] else math.inf
    _, neg, m, e = t
    v = math.ldexp(float(m), e)
    return -v if neg else v


def dec_term(d: Decimal):
    sign, digits, exp = d.as_tuple()
    if exp == "F":
        return ("DInf", bool(sign))
    if exp in ("n", "N"):
        return ("DNan", bool(sign), exp == "N")
    coeff = int("".join(map(str, digits))) if digits else 0
    return ("DFin", bool(sign), coeff, int(exp))


def dec_of(t) -> Decimal:
    if t[0] == "DInf":
        return Decimal("-Infinity" if t[1] else "Infinity")
    if t[0] == "DNan":
        return Decimal(("-" if t[1] else "") + ("sNaN" if t[2] else "NaN"))
    _, neg, coeff, exp = t
    return Decimal((1 if neg else 0, tuple(int(c) for c in str(coeff)), exp))


def to_py(t, ct: Optional[ClassTable]) -> Any:
    c = t[0]
    if c == "VNone":
        return None
    if c == "VBool":
        return bool(t[1])
    if c == "VInt":
        return int(t[1])
    if c == "VFloat":
        return float_of(t[1])
    if c == "VStr":
        return "".join(chr(x) for x in t[1])
    if c == "VBytes":
        return bytes(t[1])
    if c == "VDecimal":
        return dec_of(t[1])
    if c == "VUuid":
        return UUID(int=t[1])
    if c == "VDate":
        return date.fromordinal(t[1])
    if c == "VDatetime":
        dt = _DT0 + timedelta(microseconds=t[1])
        if t[2] is not None:
            dt = dt.replace(tzinfo=timezone(timedelta(seconds=t[2].x)))
        return dt
    if c == "VList":
        return [to_py(x, ct) for x in t[1]]
    if c == "VTuple":
        return tuple(to_py(x, ct) for x in t[1])
    if c == "VSet":
        return set(to_py(x, ct) for x in t[1])
    if c == "VDict":
        return {to_py(p.a, ct): to_py(p.b, ct) for p in t[1]}
    if c == "VJust":
        return Just(to_py(t[1], ct))
    if c == "VNothing":
        return nothing
    if c == "VObj":
        assert ct is not None
        cls = ct.classes[t[1].k]
        d = ct.descs[t[1].k]
        kw = {to_py(p.a, ct): to_py(p.b, ct) for p in t[2]}
        if d["kind"] == "plain":
            # plain objects compare by identity: one live object per distinct term, per case
            key = (t[1].k, freeze(t[2]))
            if key not in _OBJS["by_key"]:
                o = cls()
                _OBJS["by_key"][key] = o
                _OBJS["by_id"][id(o)] = t
            return _OBJS["by_key"][key]
        return cls(**kw)
    if c == "VSub":
        assert ct is not None
        return ct.classes[t[1].k](to_py(t[2], ct))
    raise HarnessError(f"to_py: {t!r}")


def from_py(x: Any, ct: Optional[ClassTable]):
    tx = type(x)
    if x is None:
        return ("VNone",)
    if tx is bool:
        return ("VBool", x)
    if tx is int:
        return ("VInt", x)
    if tx is float:
        return ("VFloat", float_term(x))
    if tx is str:
        return ("VStr", [ord(ch) for ch in x])
    if tx is bytes:
        return ("VBytes", list(x))
    if tx is Decimal:
        return ("VDecimal", dec_term(x))
    if tx is UUID:
        return ("VUuid", x.int)
    if tx is datetime:
        naive = x.replace(tzinfo=None)
        us = (naive - _DT0) // timedelta(microseconds=1)
        off = x.utcoffset()
        return ("VDatetime", us, None if off is None else Some(int(off.total_seconds())))
    if tx is date:
        return ("VDate", x.toordinal())
    if tx is list:
        return ("VList", [from_py(i, ct) for i in x])
    if tx is tuple:
        return ("VTuple", [from_py(i, ct) for i in x])
    if tx is set:
        return ("VSet", [from_py(i, ct) for i in x])
    if tx is dict:
        return ("VDict", [P(from_py(k, ct), from_py(v, ct)) for k, v in x.items()])
    if tx is Just:
        return ("VJust", from_py(x.val, ct))
    if x is nothing:
        return ("VNothing",)
    if ct is not None and tx in ct.ids:
        i = ct.ids[tx]
        d = ct.descs[i]
        if d["kind"] in ("data", "data_slots"):
            return ("VObj", N(i), [P(vstr(f.name), from_py(getattr(x, f.name), ct)) for f in dataclasses.fields(x)])
        if d["kind"] == "named":
            return ("VObj", N(i), [P(vstr(k), from_py(v, ct)) for k, v in x._asdict().items()])
        if d["kind"] == "plain":
            if id(x) not in _OBJS["by_id"]:
                k = 1000 + len(_OBJS["by_id"])
                t = ("VObj", N(i), [P(vstr("#"), ("VInt", k))])
                _OBJS["by_id"][id(x)] = t
                _OBJS["by_key"][(i, freeze(t[2]))] = x
            return _OBJS["by_id"][id(x)]
        if d["kind"] == "sub":
            base = {"str": str, "int": int, "dict": dict, "list": list, "float": float,
                    "tuple": tuple, "bytes": bytes, "set": set}[d["base"]]
            return ("VSub", N(i), from_py(base(x), ct))
    raise HarnessError(f"from_py: cannot represent {tx!r}: {x!r}")


PYTYPES = {
    "TNone": type(None), "TBool": bool, "TInt": int, "TFloat": float, "TStr": str,
    "TBytes": bytes, "TDecimal": Decimal, "TUuid": UUID, "TDate": date, "TDatetime": datetime,
    "TList": list, "TTuple": tuple, "TSet": set, "TDict": dict, "TJust": Just,
}
PYTYPE_RANK = ["TNone", "TBool", "TInt", "TFloat", "TStr", "TBytes", "TDecimal", "TUuid", "TDate",
               "TDatetime", "TList", "TTuple", "TSet", "TDict", "TJust", "TNothing", "TMaybe", "TClass"]


def pytype_to_py(t, ct: Optional[ClassTable]) -> Any:
    if t[0] == "TClass":
        assert ct is not None
        return ct.classes[t[1].k]
    if t[0] == "TNothing":
        return type(nothing)
    if t[0] == "TMaybe":
        from koda import Maybe
        return Maybe[Any]
    return PYTYPES[t[0]]


def pytype_from_py(t: Any, ct: Optional[ClassTable]):
    for name, py in PYTYPES.items():
        if t is py:
            return (name,)
    if t is type(nothing):
        return ("TNothing",)
    if ct is not None and t in ct.ids:
        return ("TClass", N(ct.ids[t]))
    from koda import Maybe
    if t == Maybe[Any]:
        return ("TMaybe",)
    raise HarnessError(f"pytype_from_py: {t!r}")


def pytype_sort_key(t):
    return (PYTYPE_RANK.index(t[0]), t[1].k if len(t) > 1 else 0)


# ======================================================================= validators


class DictCache(CacheValidatorBase):  # type: ignore
    """A faithful identity+equality keyed store used for CacheV."""

    def __init__(self, validator: Any) -> None:
        super().__init__(validator)
        self.store: List[Tuple[Any, Any]] = []
        self.log: List[Tuple[str, Any]] = []

    def _get(self, val: Any) -> Any:
        for k, r in self.store:
            if k is val or (type(k) is type(val) and _strict_eq(k, val)):
                return Just(r)
        return nothing

    def cache_get_sync(self, val: Any) -> Any:
        r = self._get(val)
        self.log.append(("get", r.is_just))
        return r

    def cache_set_sync(self, val: Any, cache_val: Any) -> None:
        self.log.append(("set", None))
        self.store.append((val, cache_val))

    async def cache_get_async(self, val: Any) -> Any:
        return self.cache_get_sync(val)

    async def cache_set_async(self, val: Any, cache_val: Any) -> None:
        self.cache_set_sync(val, cache_val)

    def __eq__(self, other: Any) -> bool:
        return type(self) is type(other) and self.validator == other.validator

    def __repr__(self) -> str:
        return f"DictCache({self.validator!r})"


def _strict_eq(a: Any, b: Any) -> bool:
    try:
        return from_py_safe(a) == from_py_safe(b)
    except HarnessError:
        return False


def from_py_safe(x: Any):
    return from_py(x, _CURRENT_CT[0])


_CURRENT_CT: List[Optional[ClassTable]] = [None]


SHARE = [False]   # when set, structurally equal validator sub-terms are built as one shared instance


class Ctx:
    """Build context for one case: class table, lazy table, object->term map."""

    def __init__(self, classes: List[dict], lazy: list, rng: Optional[random.Random] = None):
        reset_objects()
        key = id(classes)
        if key not in _CT_MEMO or _CT_MEMO[key][0] is not classes:
            _CT_MEMO[key] = (classes, ClassTable(classes))
        self.ct = _CT_MEMO[key][1]
        _CURRENT_CT[0] = self.ct
        self.lazy_terms = lazy
        self.lazy_objs: List[Any] = [None] * len(lazy)
        self.objmap: Dict[int, Any] = {}
        self.keep: List[Any] = []
        self.rng = rng or random.Random(0)
        self._nocoerce: Dict[Any, Any] = {}
        self._thunks: Dict[int, Any] = {}
        self._shared: Dict[Any, Any] = {}
        for i, t in enumerate(lazy):
            self.lazy_objs[i] = self.validator(t)

    # -- small pieces
    def reg(self, obj: Any, term: Any) -> Any:
        self.objmap[id(obj)] = term
        self.keep.append(obj)
        return obj

    def empty(self, lst: list) -> Any:
        """An empty optional list argument may be passed as None or []."""
        if lst:
            return lst
        return None if self.rng.random() < 0.5 else []

    def predicate(self, t) -> Any:
        return self.reg(self._predicate(t), ("PRSync", t))

    def _predicate(self, t) -> Any:
        c = t[0]
        ct = self.ct
        if c == "PMin":
            return Min(to_py(t[1], ct), t[2])
        if c == "PMax":
            return Max(to_py(t[1], ct), t[2])
        if c == "PMultipleOf":
            return MultipleOf(to_py(t[1], ct))
        if c == "PChoices":
            return Choices(set(to_py(x, ct) for x in t[1]))
        if c == "PEqualTo":
            return EqualTo(to_py(t[1], ct))
        if c == "PMinItems":
            return MinItems(t[1])
        if c == "PMaxItems":
            return MaxItems(t[1])
        if c == "PExactItemCount":
            return ExactItemCount(t[1])
        if c == "PUniqueItems":
            return UniqueItems()
        if c == "PMinLength":
            return MinLength(t[1])
        if c == "PMaxLength":
            return MaxLength(t[1])
        if c == "PExactLength":
            return ExactLength(t[1])
        if c == "PStartsWith":
            return StartsWith(to_py(t[1], ct))
        if c == "PEndsWith":
            return EndsWith(to_py(t[1], ct))
        if c == "PNotBlank":
            return NotBlank()
        if c == "PRegex":
            return RegexPredicate(U.LoggingPattern(t[1].k))  # type: ignore
        if c == "PEmail":
            return EmailPredicate(U.LoggingEmailPattern())  # type: ignore
        if c == "PMinKeys":
            return MinKeys(t[1])
        if c == "PMaxKeys":
            return MaxKeys(t[1])
        if c == "PUser":
            return U.UserPred(t[1].k)
        raise HarnessError(f"predicate {t!r}")

    def apredicate(self, t) -> Any:
        return self.reg(U.UserPredAsync(t[1].k), ("PRAsync", t))

    def processor(self, t) -> Any:
        c = t[0]
        if c == "Strip":
            return Strip()
        if c == "Upper":
            return UpperCase()
        if c == "Lower":
            return LowerCase()
        return U.UserProc(t[1].k)

    def coercer(self, t) -> Any:
        if t is None:
            return None
        t = t.x
        c = t[0]
        if c == "CoDecimal":
            return coerce_decimal
        if c == "CoUuid":
            return coerce_uuid
        if c == "CoDate":
            return coerce_date
        if c == "CoDatetime":
            return coerce_datetime
        if c == "CoTupleOrList":
            return tuple_or_list_to_tuple
        if c in ("CoDataclassNoCoerce", "CoNamedTupleNoCoerce"):
            # one coercer object per class and context: "the same argument" for every node using it
            key = (c, t[1].k)
            if key not in self._nocoerce:
                f = dataclass_no_coerce if c == "CoDataclassNoCoerce" else namedtuple_no_coerce
                self._nocoerce[key] = f(self.ct.classes[t[1].k])
            return self._nocoerce[key]
        return U.user_coercer(t[1].k)

    # -- validators
    def validator(self, t) -> Any:
        if SHARE[0]:
            # one object per distinct configuration: equal sub-terms become the *same* instance
            from .lang import freeze
            key = freeze(t)
            if key in self._shared:
                return self._shared[key]
            obj = self.reg(self._validator(t), t)
            self._shared[key] = obj
            return obj
        return self.reg(self._validator(t), t)

    def _validator(self, t) -> Any:
        c = t[0]
        ct = self.ct
        if c == "Scalar":
            _, k, co, pre, ps, aps = t
            preds = [self.predicate(p) for p in ps]
            kw: dict = {}
            kw["predicates_async"] = self.empty([self.apredicate(a) for a in aps])
            kw["preprocessors"] = self.empty([self.processor(p) for p in pre])
            kw["coerce"] = self.coercer(co)
            if k[0] == "KType":
                return TypeValidator(pytype_to_py(k[1], ct), predicates=self.empty(preds), **kw)
            cls = {"KStr": StringValidator, "KInt": IntValidator, "KFloat": FloatValidator,
                   "KBool": BoolValidator, "KBytes": BytesValidator, "KDecimal": DecimalValidator,
                   "KUuid": UUIDValidator, "KDate": DateValidator, "KDatetime": DatetimeValidator}[k[0]]
            return cls(*preds, **kw)
        if c == "NoneV":
            return NoneValidator(self.coercer(t[1]))
        if c == "EqualsV":
            return EqualsValidator(to_py(t[1], ct), self.empty([self.processor(p) for p in t[2]]))
        if c == "AlwaysValid":
            return AlwaysValid()
        if c == "IsDictV":
            return IsDictValidator()
        if c in ("ListV", "SetV", "UTupleV"):
            _, item, ps, aps, co = t
            cls = {"ListV": ListValidator, "SetV": SetValidator, "UTupleV": UniformTupleValidator}[c]
            return cls(
                self.validator(item),
                predicates=self.empty([self.predicate(p) for p in ps]),
                predicates_async=self.empty([self.apredicate(a) for a in aps]),
                coerce=self.coercer(co),
            )
        if c == "NTupleV":
            _, fields, vobj, co = t
            fs = tuple(self.validator(f) for f in fields)
            return NTupleValidator.untyped(
                fields=fs,
                validate_object=None if vobj is None else U.UOBJ[vobj.x.k],
                coerce=self.coercer(co),
            )
        if c == "MapV":
            _, kv, vv, ps, aps, co = t
            return MapValidator(
                key=self.validator(kv),
                value=self.validator(vv),
                predicates=self.empty([self.predicate(p) for p in ps]),
                predicates_async=self.empty([self.apredicate(a) for a in aps]),
                coerce=self.coercer(co),
            )
        if c == "RecordV":
            _, keys, into, vobj, avobj, strict = t
            ks = tuple((to_py(p.a, ct), self.validator(p.b)) for p in keys)
            return RecordValidator(
                into=U.UINTO[into.k],
                keys=ks,  # type: ignore
                validate_object=None if vobj is None else U.UOBJ[vobj.x.k],
                validate_object_async=None if avobj is None else U.UAOBJ[avobj.x.k],
                fail_on_unknown_keys=strict,
            )
        if c == "DictAnyV":
            _, schema, vobj, avobj, strict = t
            sc = {to_py(p.a, ct): self.validator(p.b) for p in schema}
            if len(sc) != len(schema):
                raise HarnessError("DictAnyV duplicate keys")
            return DictValidatorAny(
                sc,
                validate_object=None if vobj is None else U.UOBJ[vobj.x.k],
                validate_object_async=None if avobj is None else U.UAOBJ[avobj.x.k],
                fail_on_unknown_keys=strict,
            )
        if c == "ClassV":
            _, rk, cid, schema, vobj, avobj, strict, co = t
            cls = ct.classes[cid.k]
            overrides = {to_py(p.a, ct): self.validator(p.b.a) for p in schema}
            if len(overrides) > 1 and self.rng.random() < 0.5:
                # the order in which overrides are written is the caller's business: it must not matter
                items = list(overrides.items())
                self.rng.shuffle(items)
                overrides = dict(items)
            kw = dict(
                overrides=overrides,
                validate_object=None if vobj is None else U.UOBJ[vobj.x.k],
                validate_object_async=None if avobj is None else U.UAOBJ[avobj.x.k],
                fail_on_unknown_keys=strict,
                coerce=self.coercer(co),
            )
            V = {"RkData": DataclassValidator, "RkNamed": NamedTupleValidator, "RkTyped": TypedDictValidator}[rk[0]]
            v = V(cls, **kw)
            # key set and order must agree with the term (requiredness is *not* checked here:
            # the model uses the class's declared requiredness, the object whatever it derived)
            got = [k for (k, _f, _req) in v._fast_keys_sync]
            want = [to_py(p.a, ct) for p in schema]
            if sorted(map(repr, got)) != sorted(map(repr, want)):
                raise HarnessError(f"ClassV key mismatch: object has {got}, term has {want}")
            return v
        if c == "UnionV":
            vs = [self.validator(v) for v in t[1]]
            if len(vs) <= 8 and self.rng.random() < 0.5:
                return UnionValidator.typed(*vs)
            return UnionValidator.untyped(*vs)
        if c == "OptionalV":
            return OptionalValidator(self.validator(t[2]), none_validator=self.validator(t[1]))
        if c == "MaybeV":
            return MaybeValidator(self.validator(t[1]))
        if c == "LazyV":
            idx = t[1].k
            objs = self.lazy_objs
            if idx not in self._thunks:
                self._thunks[idx] = (lambda: objs[idx])     # one thunk per definition: "the same argument"
            return Lazy(self._thunks[idx], recurrent=t[2])
        if c == "KeyNotRequired":
            return KeyNotRequired(self.validator(t[1]))
        if c == "CacheV":
            return DictCache(self.validator(t[1]))
        if c == "UserV":
            return (U.UserTupleValidator if t[2] else U.UserValidator)(t[1].k)
        raise HarnessError(f"validator {t!r}")

    # -- observe
    def who(self, obj: Any):
        t = self.objmap.get(id(obj))
        if t is None and getattr(self, "who_fallback", None) is not None:
            t = self.who_fallback(obj)
        if t is None:
            raise HarnessError(f"unknown validator object in result: {obj!r}")
        return t

    def predref(self, p: Any):
        # predicates configured by the case are resolved by identity
        t = self.objmap.get(id(p))
        if t is not None:
            return t
        if isinstance(p, U.UserPredAsync):
            raise HarnessError("unregistered async predicate in result")
        return ("PRSync", self.pred_term(p))

    def pred_term(self, p: Any):
        ct = self.ct
        tp = type(p)
        if tp is Min:
            return ("PMin", from_py(p.minimum, ct), p.exclusive_minimum)
        if tp is Max:
            return ("PMax", from_py(p.maximum, ct), p.exclusive_maximum)
        if tp is MultipleOf:
            return ("PMultipleOf", from_py(p.factor, ct))
        if tp is Choices:
            return ("PChoices", sorted_terms([from_py(x, ct) for x in p.choices]))
        if tp is EqualTo:
            return ("PEqualTo", from_py(p.match, ct))
        if tp is MinItems:
            return ("PMinItems", p.item_count)
        if tp is MaxItems:
            return ("PMaxItems", p.item_count)
        if tp is ExactItemCount:
            return ("PExactItemCount", p.item_count)
        if tp is UniqueItems:
            return ("PUniqueItems",)
        if tp is MinLength:
            return ("PMinLength", p.length)
        if tp is MaxLength:
            return ("PMaxLength", p.length)
        if tp is ExactLength:
            return ("PExactLength", p.length)
        if tp is StartsWith:
            return ("PStartsWith", from_py(p.prefix, ct))
        if tp is EndsWith:
            return ("PEndsWith", from_py(p.suffix, ct))
        if tp is NotBlank:
            return ("PNotBlank",)
        if tp is RegexPredicate:
            return ("PRegex", N(p.pattern.id))
        if tp is EmailPredicate:
            return ("PEmail",)
        if tp is MinKeys:
            return ("PMinKeys", p.size)
        if tp is MaxKeys:
            return ("PMaxKeys", p.size)
        if tp is U.UserPred:
            return ("PUser", N(p.id))
        raise HarnessError(f"pred_term {p!r}")

    def errtype(self, e: Any, declared_keys: Optional[list] = None):
        from koda_validate import (
            CoercionErr, ContainerErr, ExtraKeysErr, IndexErrs, KeyErrs, MapErr,
            MissingKeyErr, PredicateErrs, SetErrs, TypeErr, UnionErrs,
        )
        ct = self.ct
        te = type(e)
        if te is TypeErr:
            return ("TypeErr", pytype_from_py(e.expected_type, ct))
        if te is CoercionErr:
            compat = sorted([pytype_from_py(x, ct) for x in e.compatible_types], key=pytype_sort_key)
            return ("CoercionErr", compat, pytype_from_py(e.dest_type, ct))
        if te is ContainerErr:
            return ("ContainerErr", self.invalid(e.child))
        if te is ExtraKeysErr:
            ks = [from_py(k, ct) for k in e.expected_keys]
            order = declared_keys or []
            ks.sort(key=lambda k: (order.index(k) if k in order else len(order), term_sort_key(k)))
            return ("ExtraKeysErr", ks)
        if te is KeyErrs:
            return ("KeyErrs", [P(from_py(k, ct), self.invalid(v)) for k, v in e.keys.items()])
        if te is MapErr:
            return ("MapErr", [
                P(from_py(k, ct), P(None if kv.key is None else Some(self.invalid(kv.key)),
                                    None if kv.val is None else Some(self.invalid(kv.val))))
                for k, kv in e.keys.items()])
        if te is MissingKeyErr:
            return ("MissingKeyErr",)
        if te is IndexErrs:
            return ("IndexErrs", [P(N(i), self.invalid(v)) for i, v in e.indexes.items()])
        if te is SetErrs:
            return ("SetErrs", [self.invalid(v) for v in e.item_errs])
        if te is UnionErrs:
            return ("UnionErrs", [self.invalid(v) for v in e.variants])
        if te is PredicateErrs:
            return ("PredicateErrs", [self.predref(p) for p in e.predicates])
        if te is U.CustomErr:
            return ("CustomErr", N(e.id))
        if te.__name__ == "SerializableErr":
            return ("CustomErr", N(100))
        raise HarnessError(f"errtype {e!r}")

    def invalid(self, inv: Any):
        from koda_validate import Invalid
        if type(inv) is not Invalid:
            raise HarnessError(f"not an Invalid: {inv!r}")
        w = self.who(inv.validator)
        declared = None
        if w[0] in ("RecordV", "DictAnyV"):
            declared = [p.a for p in w[1]]
        elif w[0] == "ClassV":
            declared = [p.a for p in w[3]]
        return ("Invalid", self.errtype(inv.err_type, declared), from_py(inv.value, self.ct), w)

    def result(self, r: Any):
        from koda_validate import Invalid, Valid
        if type(r) is Valid:
            return ("OValid", from_py(r.val, self.ct))
        if type(r) is Invalid:
            return ("OInvalid", self.invalid(r))
        raise HarnessError(f"not a result: {r!r}")


def term_sort_key(t):
    """A deterministic total order on terms (used to canonicalise Python sets)."""
    from .lang import freeze
    return repr(freeze(t))


def sorted_terms(ts: list) -> list:
    return sorted(ts, key=term_sort_key)


EXN_TERM = {
    TypeError: ("ExType",), AttributeError: ("ExAttribute",), ZeroDivisionError: ("ExZeroDiv",),
    ValueError: ("ExValue",),
}


def exn_term(e: BaseException):
    import decimal
    if isinstance(e, decimal.InvalidOperation):
        return ("ExInvalidOp",)
    for k, v in EXN_TERM.items():
        if type(e) is k:
            return v
    return ("ExOther",)
