"""The finite family of user callbacks used to *execute* cases.

Every function here has a twin with the same id in coq/theories/Corr/UserLib.v.
The theorems quantify over all callbacks; this family only instantiates them.
Callbacks work on live Python values.
"""
from __future__ import annotations

import asyncio
import re
from dataclasses import dataclass
from typing import Any, Optional

from koda import Just, Maybe, nothing
from koda_validate import (
    Invalid,
    Predicate,
    PredicateAsync,
    Processor,
    TypeErr,
    Valid,
    Validator,
)
from koda_validate._internal import _ToTupleValidator
from koda_validate.coerce import Coercer
from koda_validate.errors import ValidationErrBase

# ---------------------------------------------------------------- helpers


def _sized(x: Any) -> Optional[int]:
    # NamedTuple instances are modelled as objects (VObj), not as sized values
    if isinstance(x, (str, bytes, list, tuple, set, dict)) and not hasattr(x, "_fields"):
        return len(x)
    return None


def parity(x: Any) -> bool:
    """id 2: even int (not bool) / even length; everything else False."""
    if type(x) is int or (isinstance(x, int) and not isinstance(x, bool)):
        return int(x) % 2 == 0
    n = _sized(x)
    if n is not None:
        return n % 2 == 0
    return False


def nonzero(x: Any) -> bool:
    """id 3: non-empty sized value / non-zero int; everything else True."""
    if isinstance(x, bool):
        return True
    if isinstance(x, int):
        return int(x) != 0
    n = _sized(x)
    if n is not None:
        return n != 0
    return True


UPRED = {0: lambda x: True, 1: lambda x: False, 2: parity, 3: nonzero}

# every evaluation of an async-only check is counted here (reset per run)
ASYNC_CHECKS = {"n": 0}


@dataclass
class UserPred(Predicate[Any]):
    id: int

    def __call__(self, val: Any) -> bool:
        return UPRED[self.id](val)


def _latency(val: Any) -> int:
    """0..3 extra suspensions, larger for small ints and short strings (so earlier elements of
    the usual test data tend to be slower than later ones)"""
    if type(val) is int:
        return 3 - (abs(val) % 4)
    if type(val) in (str, bytes):
        return 3 - (len(val) % 4)
    s = _sized(val)
    return 0 if s is None else (3 - s % 4)


@dataclass
class UserPredAsync(PredicateAsync[Any]):
    id: int

    async def validate_async(self, val: Any) -> bool:
        ASYNC_CHECKS["n"] += 1
        # id- and value-dependent latency: a later-declared check, or the check of a later
        # element, may well finish first
        for _ in range((7 - 2 * self.id) % 5 + _latency(val)):
            await asyncio.sleep(0)
        return UPRED[self.id](val)


# ---------------------------------------------------------------- processors


def _proc1(x: Any) -> Any:
    """id 1: AddOne on exact ints, append 'x' on exact str, b'x' on exact bytes."""
    if type(x) is int:
        return x + 1
    if type(x) is str:
        return x + "x"
    if type(x) is bytes:
        return x + b"x"
    return x


def _proc2(x: Any) -> Any:
    """id 2: Reverse exact str / bytes / list / tuple."""
    if type(x) in (str, bytes, list, tuple):
        return x[::-1]
    return x


UPROC = {0: lambda x: x, 1: _proc1, 2: _proc2}


@dataclass
class UserProc(Processor[Any]):
    id: int

    def __call__(self, val: Any) -> Any:
        return UPROC[self.id](val)


# ---------------------------------------------------------------- coercers


def _co2(x: Any) -> Maybe[Any]:
    if type(x) is bool:
        return Just(int(x))
    if type(x) is int:
        return Just(x)
    return nothing


def _co3(x: Any) -> Maybe[Any]:
    if type(x) is list:
        return Just(x)
    if type(x) is tuple:
        return Just(list(x))
    return nothing


def _co5(x: Any) -> Maybe[Any]:
    if x is None:
        return Just({})
    if type(x) is dict:
        return Just(x)
    return nothing


def _co6(x: Any) -> Maybe[Any]:
    if type(x) is list:
        return Just(tuple(x))
    if type(x) is tuple:
        return Just(x)
    return nothing


def _co7(x: Any) -> Maybe[Any]:
    if type(x) is list:
        # a set built in list order; duplicates (by ==) keep the first
        return Just(set(x)) if all(_hashable(i) for i in x) else nothing
    if type(x) is set:
        return Just(x)
    return nothing


def _hashable(x: Any) -> bool:
    try:
        hash(x)
        return True
    except TypeError:
        return False


UCOERCE = {
    0: lambda x: nothing,
    1: lambda x: Just(x),
    2: _co2,
    3: _co3,
    4: lambda x: Just(7),
    5: _co5,
    6: _co6,
}
UCOMPAT = {
    0: set(),
    1: {int},
    2: {bool, int},
    3: {list, tuple},
    4: {str},
    5: {dict, type(None)},
    6: {list, tuple},
}
_COERCERS: dict = {}


def user_coercer(i: int) -> Coercer[Any]:
    if i not in _COERCERS:
        _COERCERS[i] = Coercer(UCOERCE[i], UCOMPAT[i])
    return _COERCERS[i]


# ---------------------------------------------------------------- into / object checks


def _into0(*args: Any) -> Any:
    return tuple(args)


def _into1(*args: Any) -> Any:
    return list(args)


def _into2(*args: Any) -> Any:
    return {i: a for i, a in enumerate(args)}


UINTO = {0: _into0, 1: _into1, 2: _into2}


@dataclass
class CustomErr(ValidationErrBase):
    id: int


def _obj_len_parity(obj: Any) -> Optional[CustomErr]:
    n = _sized(obj)
    if n is None:
        flds = getattr(obj, "__dataclass_fields__", None)
        n = len(flds) if flds is not None else (len(obj._fields) if hasattr(obj, "_fields") else 0)
    return None if n % 2 == 0 else CustomErr(2)


def _uobj0(obj: Any) -> Optional[CustomErr]:
    return None


def _uobj1(obj: Any) -> Optional[CustomErr]:
    return CustomErr(1)


class _Rules:
    """Object checks are handed out as bound methods: every access yields a new, equal method
    object, as `rules.check` does in user code."""

    def obj0(self, obj: Any) -> Optional[CustomErr]:
        return _uobj0(obj)

    def obj1(self, obj: Any) -> Optional[CustomErr]:
        return _uobj1(obj)

    def obj2(self, obj: Any) -> Optional[CustomErr]:
        return _obj_len_parity(obj)

    def obj3(self, obj: Any) -> Any:
        from koda_validate.serialization import SerializableErr
        return SerializableErr(["custom object check failed", 3])

    async def aobj0(self, obj: Any) -> Optional[CustomErr]:
        return await _uaobj0(obj)

    async def aobj1(self, obj: Any) -> Optional[CustomErr]:
        return await _uaobj1(obj)

    async def aobj2(self, obj: Any) -> Optional[CustomErr]:
        return await _uaobj2(obj)


_RULES = _Rules()


class _AsyncCheck1:
    """An async whole-object check that is a callable *object* (async def __call__), not a coroutine function:
    inspect.iscoroutinefunction says False for it, awaiting its result works all the same."""

    async def __call__(self, obj: Any) -> Optional[CustomErr]:
        return await _uaobj1(obj)

    def __eq__(self, other: Any) -> bool:
        return type(other) is _AsyncCheck1

    def __hash__(self) -> int:
        return 1

    def __repr__(self) -> str:
        return "<async check 1>"


class _Bound(dict):
    def __init__(self, prefix: str) -> None:
        super().__init__()
        self.prefix = prefix

    def __getitem__(self, i: int) -> Any:
        if self.prefix == "aobj" and i == 1:
            return _AsyncCheck1()
        return getattr(_RULES, f"{self.prefix}{i}")


UOBJ = _Bound("obj")


async def _uaobj0(obj: Any) -> Optional[CustomErr]:
    ASYNC_CHECKS["n"] += 1
    await asyncio.sleep(0)
    return None


async def _uaobj1(obj: Any) -> Optional[CustomErr]:
    ASYNC_CHECKS["n"] += 1
    await asyncio.sleep(0)
    return CustomErr(1)


async def _uaobj2(obj: Any) -> Optional[CustomErr]:
    ASYNC_CHECKS["n"] += 1
    await asyncio.sleep(0)
    return _obj_len_parity(obj)


UAOBJ = _Bound("aobj")

# ---------------------------------------------------------------- user-written validators
# uvalid id mode x.  CALLS logs (id, mode) for every invocation (reset per run).
CALLS: list = []


def _uv(self: Any, mode: str, val: Any) -> Any:
    i = self.id
    CALLS.append((i, mode))
    if i == 0:  # exact int -> int + 1
        if type(val) is int:
            return Valid(val + 1)
        return Invalid(TypeErr(int), val, self)
    if i == 1:  # async-only: sync entry raises the documented AssertionError
        if mode == "sync":
            raise AssertionError("UserV 1 cannot run synchronously")
        ASYNC_CHECKS["n"] += 1
        if parity(val):
            return Valid(val)
        return Invalid(CustomErr(3), val, self)
    if i == 2:  # accepts everything unchanged
        return Valid(val)
    if i == 3:  # exact str -> stripped
        if type(val) is str:
            return Valid(val.strip())
        return Invalid(TypeErr(str), val, self)
    if i == 4:  # rejects everything
        return Invalid(CustomErr(4), val, self)
    raise KeyError(i)


class UserValidator(Validator[Any]):
    """A user-written Validator subclass (plain flavour)."""

    def __init__(self, id: int) -> None:
        self.id = id

    def __call__(self, val: Any) -> Any:
        return _uv(self, "sync", val)

    async def validate_async(self, val: Any) -> Any:
        await asyncio.sleep(0)
        return _uv(self, "async", val)

    def __eq__(self, other: Any) -> bool:
        return type(self) is type(other) and self.id == other.id

    def __hash__(self) -> int:          # value-hashable, like a frozen dataclass
        return hash((UserValidator, self.id))

    def __repr__(self) -> str:
        return f"UserValidator({self.id})"


class UserTupleValidator(_ToTupleValidator[Any]):
    """A user-written validator using the internal tuple protocol flavour."""

    def __init__(self, id: int) -> None:
        self.id = id

    def _validate_to_tuple(self, val: Any) -> Any:
        r = _uv(self, "sync", val)
        return (True, r.val) if r.is_valid else (False, r)

    async def _validate_to_tuple_async(self, val: Any) -> Any:
        await asyncio.sleep(0)
        r = _uv(self, "async", val)
        return (True, r.val) if r.is_valid else (False, r)

    def __eq__(self, other: Any) -> bool:
        return type(self) is type(other) and self.id == other.id

    def __repr__(self) -> str:
        return f"UserTupleValidator({self.id})"


# ---------------------------------------------------------------- regex patterns
PATTERNS = {0: r"a+", 1: r"\d{3}$", 2: r"[a-z]*b", 3: r".*\s"}
RE_LOG: list = []  # (id, string, matched)


class LoggingPattern:
    """Stands in for a compiled pattern: same .match/.pattern, logs every call."""

    def __init__(self, id: int) -> None:
        self.id = id
        self._p = re.compile(PATTERNS[id])
        self.pattern = self._p.pattern

    def match(self, val: Any) -> Any:
        m = self._p.match(val)
        RE_LOG.append((self.id, val, m is not None))
        return m

    # a compiled pattern has other entry points too. The table the model reads is about *the documented relation*
    # (matched at the start of the string, `match`): whichever entry point is called, that is what gets logged, and
    # the caller gets what the entry point it called really answers
    def fullmatch(self, val: Any) -> Any:
        RE_LOG.append((self.id, val, self._p.match(val) is not None))
        return self._p.fullmatch(val)

    def search(self, val: Any) -> Any:
        RE_LOG.append((self.id, val, self._p.match(val) is not None))
        return self._p.search(val)

    def __eq__(self, other: Any) -> bool:
        return isinstance(other, LoggingPattern) and other.id == self.id

    def __hash__(self) -> int:
        return hash(("LP", self.id))

    def __repr__(self) -> str:
        return f"re.compile({self.pattern!r})"


EMAIL_LOG: list = []


class LoggingEmailPattern:
    def __init__(self) -> None:
        self._p = re.compile("[a-zA-Z0-9_.+-]+@[a-zA-Z0-9-]+\\.[a-zA-Z0-9-.]+")
        self.pattern = self._p.pattern

    def match(self, val: Any) -> Any:
        m = self._p.match(val)
        EMAIL_LOG.append((val, m is not None))
        return m

    def fullmatch(self, val: Any) -> Any:
        EMAIL_LOG.append((val, self._p.match(val) is not None))
        return self._p.fullmatch(val)

    def search(self, val: Any) -> Any:
        EMAIL_LOG.append((val, self._p.match(val) is not None))
        return self._p.search(val)

    def __eq__(self, other: Any) -> bool:
        return isinstance(other, LoggingEmailPattern)

    def __hash__(self) -> int:
        return hash("LEP")


def reset_logs() -> None:
    ASYNC_CHECKS["n"] = 0
    CALLS.clear()
    RE_LOG.clear()
    EMAIL_LOG.clear()
