"""Runs under python3-vt (jsonschema lives there): meta-schema check and evaluation of schemas.

stdin:  JSON list of {"id", "schema", "instances": [...], "named": null | [name, ref_location]}
stdout: JSON list of {"id", "schema_error": null | {"path": [...], "keyword": str, "message": str},
                      "results": [true/false/"error: ..."]}
Reading used for evaluation (C11): Draft 2020-12 + OpenAPI `nullable`; "integer" = Python int,
"number" = Python float (numbers typed as Python types them after JSON decoding), bool is neither;
`format` is annotation only (jsonschema's default).
"""
import json
import sys

from jsonschema import Draft202012Validator
from jsonschema.validators import extend

SUBSCHEMA_KEYS = ("items", "additionalProperties")
SUBSCHEMA_MAPS = ("properties",)
SUBSCHEMA_LISTS = ("oneOf", "prefixItems", "anyOf", "allOf")

TC = Draft202012Validator.TYPE_CHECKER.redefine_many({
    "integer": lambda c, i: type(i) is int,
    "number": lambda c, i: type(i) is float,
})
PyTyped = extend(Draft202012Validator, type_checker=TC)


def denull(s):
    """nullable: true  ==>  anyOf [null, rest] at every subschema position"""
    if not isinstance(s, dict):
        return s
    out = {}
    for k, v in s.items():
        if k in SUBSCHEMA_KEYS:
            out[k] = denull(v)
        elif k in SUBSCHEMA_MAPS and isinstance(v, dict):
            out[k] = {kk: denull(vv) for kk, vv in v.items()}
        elif k in SUBSCHEMA_LISTS and isinstance(v, list):
            out[k] = [denull(x) for x in v]
        elif k == "nullable":
            continue
        else:
            out[k] = v
    if s.get("nullable") is True:
        return {"anyOf": [{"type": "null"}, out]}
    return out


def main():
    jobs = json.load(sys.stdin)
    res = []
    for j in jobs:
        schema = j["schema"]
        r = {"id": j["id"], "schema_error": None, "results": []}
        try:
            Draft202012Validator.check_schema(schema)
        except Exception as e:  # SchemaError
            r["schema_error"] = {"path": [str(p) for p in getattr(e, "absolute_path", [])],
                                 "keyword": str(getattr(e, "validator", "")),
                                 "message": str(getattr(e, "message", e))[:300]}
        if j.get("instances"):
            doc = denull(schema)
            if j.get("named"):
                name, ref = j["named"]
                # place the schema where ref_location says it is
                parts = [p for p in ref.lstrip("#").split("/") if p]
                root = {}
                cur = root
                for p in parts:
                    cur[p] = {}
                    cur = cur[p]
                cur[name] = doc
                root["$ref"] = ref + name
                doc = root
            try:
                ev = PyTyped(doc)
                for x in j["instances"]:
                    try:
                        r["results"].append(ev.is_valid(x))
                    except Exception as e:
                        r["results"].append("error: %r" % (e,))
            except Exception as e:
                r["results"] = ["error: %r" % (e,)] * len(j["instances"])
        res.append(r)
    json.dump(res, sys.stdout)


if __name__ == "__main__":
    main()
