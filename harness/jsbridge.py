"""Runs under python3-vt (jsonschema lives there): meta-schema check and evaluation of schemas.

stdin:  JSON list of {"id", "schema", "instances": [...], "named": null | [name, ref_location]}
stdout: JSON list of {"id", "schema_error": null | {"path": [...], "keyword": str, "message": str},
                      "results": [true/false/"error: ..."]}
Reading used for evaluation (C11): Draft 2020-12 + OpenAPI `nullable`; "integer" = Python int,
"number" = Python float (numbers typed as Python types them after JSON decoding), bool is neither;
`format` is annotation only (jsonschema's default).
"""
import json
import sys

from jsonschema import Draft202012Validator
from jsonschema.validators import extend

SUBSCHEMA_KEYS = ("items", "additionalProperties")
SUBSCHEMA_MAPS = ("properties",)
SUBSCHEMA_LISTS = ("oneOf", "prefixItems", "anyOf", "allOf")

LINE_TERMINATORS = "\n\r\u2028\u2029"


def ecma(p: str) -> str:
    """Python `re` source with ECMA-262 meaning for `$` (end of input) and `.` (no line terminator)."""
    out, i, in_class = [], 0, False
    while i < len(p):
        c = p[i]
        if c == "\\" and i + 1 < len(p):
            out.append(p[i:i + 2])
            i += 2
            continue
        if in_class:
            if c == "]":
                in_class = False
            out.append(c)
        elif c == "[":
            in_class = True
            out.append(c)
        elif c == "$":
            out.append(r"\Z")
        elif c == ".":
            out.append("[^\n\r\u2028\u2029]")
        else:
            out.append(c)
        i += 1
    return "".join(out)


def search(p: str, s: str) -> bool:
    import re
    return re.search(ecma(p), s) is not None


def pattern_kw(validator, patrn, instance, schema):
    from jsonschema.exceptions import ValidationError
    if isinstance(instance, str) and not search(patrn, instance):
        yield ValidationError("%r does not match %r" % (instance, patrn))


def py_unique_kw(validator, uI, instance, schema):
    from jsonschema.exceptions import ValidationError
    if uI and isinstance(instance, list):
        for i in range(len(instance)):
            for j in range(i + 1, len(instance)):
                if type(instance[i]) is type(instance[j]) and instance[i] == instance[j]:
                    yield ValidationError("non-unique (same type and Python ==)")
                    return


NOTBLANK = r"^(?!\s*$).+"


def relax(s, how, user_patterns):
    """One relaxed reading of the schema (used only to classify a disagreement)."""
    if isinstance(s, list):
        return [relax(x, how, user_patterns) for x in s]
    if not isinstance(s, dict):
        return s
    out = {}
    for k, v in s.items():
        if how == "anyof" and k == "oneOf":
            out["anyOf"] = relax(v, how, user_patterns)
        elif how == "notblank" and k == "pattern" and v == NOTBLANK:
            out[k] = r"^(?!\s*$)[\s\S]+"
        elif how == "anchored" and k == "pattern" and v in user_patterns:
            out[k] = "^(?:" + v + ")"
        else:
            out[k] = relax(v, how, user_patterns)
    return out


def type_kw(validator, types, instance, schema):
    """`type` with numbers typed as Python types them: integer = int, number = float, bool neither.
    (Only the `type` keyword changes; numeric keywords still apply to every JSON number.)"""
    from jsonschema.exceptions import ValidationError
    ts = [types] if isinstance(types, str) else list(types)

    def is_t(t):
        if t == "integer":
            return type(instance) is int
        if t == "number":
            return type(instance) is float
        return validator.is_type(instance, t)
    if not any(is_t(t) for t in ts):
        yield ValidationError("%r is not of type %r" % (instance, types))


PyTyped = extend(Draft202012Validator, validators={"pattern": pattern_kw, "type": type_kw})
PyTypedPyUnique = extend(Draft202012Validator, validators={"pattern": pattern_kw, "type": type_kw, "uniqueItems": py_unique_kw})


def denull(s):
    """nullable: true  ==>  anyOf [null, rest] at every subschema position"""
    if not isinstance(s, dict):
        return s
    out = {}
    for k, v in s.items():
        if k in SUBSCHEMA_KEYS:
            out[k] = denull(v)
        elif k in SUBSCHEMA_MAPS and isinstance(v, dict):
            out[k] = {kk: denull(vv) for kk, vv in v.items()}
        elif k in SUBSCHEMA_LISTS and isinstance(v, list):
            out[k] = [denull(x) for x in v]
        elif k == "nullable":
            continue
        else:
            out[k] = v
    if s.get("nullable") is True:
        return {"anyOf": [{"type": "null"}, out]}
    return out


def main():
    jobs = json.load(sys.stdin)
    res = []
    for j in jobs:
        schema = j["schema"]
        r = {"id": j["id"], "schema_error": None, "results": []}
        try:
            Draft202012Validator.check_schema(schema)
        except Exception as e:  # SchemaError
            r["schema_error"] = {"path": [str(p) for p in getattr(e, "absolute_path", [])],
                                 "keyword": str(getattr(e, "validator", "")),
                                 "message": str(getattr(e, "message", e))[:300]}
        if j.get("instances"):
            r["variants"] = {}
            for how in ["strict"] + list(j.get("variants", [])):
                sch = schema
                for part in how.split("+"):          # several relaxed readings at once: "anyof+notblank"
                    if part not in ("strict", "pyunique"):
                        sch = relax(sch, part, j.get("user_patterns", []))
                doc = denull(sch)
                if j.get("named"):
                    name, ref = j["named"]
                    # place the schema where ref_location says it is
                    parts = [p for p in ref.lstrip("#").split("/") if p]
                    root = {}
                    cur = root
                    for p in parts:
                        cur[p] = {}
                        cur = cur[p]
                    cur[name] = doc
                    root["$ref"] = ref + name
                    doc = root
                out = []
                try:
                    ev = (PyTypedPyUnique if "pyunique" in how.split("+") else PyTyped)(doc)
                    for x in j["instances"]:
                        try:
                            out.append(ev.is_valid(x))
                        except Exception as e:
                            out.append("error: %r" % (e,))
                except Exception as e:
                    out = ["error: %r" % (e,)] * len(j["instances"])
                r["variants"][how] = out
            r["results"] = r["variants"]["strict"]
        if j.get("searches"):
            r["searches"] = [search(p, t) for p, t in j["searches"]]
        res.append(r)
    json.dump(res, sys.stdout)


if __name__ == "__main__":
    main()
