"""Correspondence driver: runs cases on the implementation, writes cases_*.v,
evaluates the model inside Coq and reports the cases on which they differ."""
from __future__ import annotations

import os
import re
import subprocess
import sys
import time
from concurrent.futures import ThreadPoolExecutor
from datetime import date, datetime
from decimal import Decimal, InvalidOperation
from typing import Any, Callable, Dict, List, Optional, Tuple
from uuid import UUID

from . import userlib as U
from .build import Ctx, HarnessError, exn_term, from_py, to_py, vstr
from .lang import N, P, Some, coq, freeze

ROOT = os.path.dirname(os.path.dirname(os.path.abspath(__file__)))
COQ = os.path.join(ROOT, "coq")
from .rundir import GEN  # noqa: E402  (this run's own directory)

HEADER = """From Coq Require Import ZArith List Bool.
From KV Require Import Base.PyVal Base.Prims Model.Validator Model.Sem Corr.UserLib Corr.Canon Corr.Check.
Import ListNotations.
Open Scope Z_scope.
"""


_LOOP: list = []


def drive(coro: Any) -> Any:
    """Run a coroutine to completion on one persistent asyncio event loop."""
    import asyncio
    if not _LOOP or _LOOP[0].is_closed():
        _LOOP[:] = [asyncio.new_event_loop()]
    return _LOOP[0].run_until_complete(coro)


def subvalues(t, acc: list) -> None:
    if isinstance(t, tuple):
        if t and isinstance(t[0], str) and t[0].startswith("V") and t[0] != "VNone":
            acc.append(t)
        for x in t[1:]:
            subvalues(x, acc)
    elif isinstance(t, list):
        for x in t:
            subvalues(x, acc)
    elif isinstance(t, P):
        subvalues(t.a, acc)
        subvalues(t.b, acc)
    elif isinstance(t, Some):
        subvalues(t.x, acc)


class Oracles:
    """Finite oracle tables for one generated file."""

    def __init__(self) -> None:
        self.parse: Dict[Any, Any] = {}
        self.re: Dict[Any, bool] = {}
        self.email: Dict[Any, bool] = {}
        self.case: Dict[Any, Any] = {}

    def add_value(self, term, ct) -> None:
        try:
            py = to_py(term, ct)
        except Exception:
            return
        key = freeze(term)
        if isinstance(py, (str, int)):
            try:
                r = Some(from_py(Decimal(py), None))
            except InvalidOperation:
                r = None
            except Exception:
                r = "skip"
            if r != "skip":
                self.parse[("OkDecimal", key)] = (term, r)
        if isinstance(py, str):
            if type(py) is str:
                try:
                    r = Some(from_py(UUID(py), None))
                except ValueError:
                    r = None
                except Exception:
                    r = "skip"
                if r != "skip":
                    self.parse[("OkUuid", key)] = (term, r)
            for kind, fn in (("OkDate", date.fromisoformat), ("OkDatetime", datetime.fromisoformat)):
                try:
                    r = Some(from_py(fn(py), None))
                except (ValueError, TypeError):
                    r = None
                except Exception:
                    r = "skip"
                if r != "skip":
                    self.parse[(kind, key)] = (term, r)
            if type(py) is str and not py.isascii():
                frontier = {py}
                for _ in range(3):
                    nxt = set()
                    for s in frontier:
                        for up, f in ((True, str.upper), (False, str.lower)):
                            try:
                                out = f(s)
                            except Exception:
                                continue
                            self.case[(up, s)] = out
                            nxt.add(out)
                        nxt.add(s.strip())
                        nxt.add(s + "x")
                        nxt.add(s[::-1])
                    frontier = {s for s in nxt if not s.isascii()} - set(k[1] for k in self.case)
                    if not frontier:
                        break

    def harvest_logs(self, case) -> None:
        for i, s, m in case.re_log:
            if type(s) is str:
                self.re[(i, s)] = m
        for s, m in case.email_log:
            if type(s) is str:
                self.email[s] = m

    def coq(self) -> str:
        cps = lambda s: [ord(c) for c in s]
        parse = [P((k[0],), P(term, r)) for k, (term, r) in self.parse.items()]
        re_t = [P(N(i), P(cps(s), m)) for (i, s), m in self.re.items()]
        em_t = [P(cps(s), m) for s, m in self.email.items()]
        case_t = [P(up, P(cps(s), cps(o))) for (up, s), o in self.case.items()]
        return (
            f"Definition oracle_tbl : list (okind * (pyval * option pyval)) := {coq(parse)}.\n"
            f"Definition re_tbl : list (nat * (list Z * bool)) := {coq(re_t)}.\n"
            f"Definition email_tbl : list (list Z * bool) := {coq(em_t)}.\n"
            f"Definition case_tbl : list (bool * (list Z * list Z)) := {coq(case_t)}.\n"
        )


class Case:
    """One validation case: classes, lazy table, validator, input, mode."""

    def __init__(self, v, x, mode: str, classes: Optional[List[dict]] = None,
                 lazy: Optional[list] = None, fuel: int = 40, tag: str = ""):
        self.v, self.x, self.mode = v, x, mode
        self.classes = classes or []
        self.lazy = lazy or []
        self.fuel = fuel
        self.tag = tag
        # filled by observe()
        self.obs = None
        self.x_seen = None
        self.async_checks = 0
        self.calls: list = []
        self.mutated = False
        self.ct = None

    def to_json(self) -> dict:
        from .lang import to_json
        return {"v": to_json(self.v), "x": to_json(self.x), "mode": self.mode,
                "classes": [{**d, "fields": [[f[0], None, to_json(f[2]) if f[2] is not None else None, f[3]]
                                             for f in d.get("fields", [])]} for d in self.classes],
                "lazy": to_json(self.lazy), "fuel": self.fuel, "tag": self.tag,
                "extra": {k: to_json(v) for k, v in getattr(self, "extra", {}).items()}}


def observe(case: Case, rng=None) -> None:
    """Run the implementation on the case and record what it did."""
    ctx = Ctx(case.classes, case.lazy, rng)
    case.ct = ctx.ct
    vobj = ctx.validator(case.v)
    px = to_py(case.x, ctx.ct)
    case.x_seen = from_py(px, ctx.ct)  # sets in their real iteration order
    before = freeze(case.x_seen)
    rbefore = repr(vobj)
    U.reset_logs()
    case.vobj, case.px, case.raw, case.exc = vobj, px, None, None
    try:
        if case.mode == "sync":
            r = vobj(px)
        else:
            r = drive(vobj.validate_async(px))
        case.raw = r
    except RecursionError:
        raise HarnessError("recursion limit")
    except BaseException as e:  # noqa
        case.exc = e
    if case.exc is not None:
        if type(case.exc) is AssertionError:
            case.obs = ("OAssert",)
        else:
            case.obs = ("ORaise", exn_term(case.exc))
    else:
        try:
            case.obs = ctx.result(case.raw)
        except HarnessError as he:
            case.obs = ("ORaise", ("ExOther",))
            case.unrepresentable = str(he)
    case.async_checks = U.ASYNC_CHECKS["n"]
    case.calls = list(U.CALLS)
    case.re_log = list(U.RE_LOG)
    case.email_log = list(U.EMAIL_LOG)
    try:
        after = freeze(from_py(px, ctx.ct))
    except HarnessError:
        after = None
    case.mutated = (after != before) or (repr(vobj) != rbefore)
    case.ctx = ctx


def emit_file(path: str, cases: List[Case], oracles: Oracles) -> None:
    out = [HEADER, oracles.coq()]
    # share class/lazy tables between consecutive cases where equal
    out.append("Goal True.\n")
    for i, c in enumerate(cases):
        classes = coq(c.ct.coq())
        env = f"(mk_env {classes} {coq(c.lazy)} oracle_tbl re_tbl email_tbl case_tbl)"
        m = "Sync" if c.mode == "sync" else "Async"
        tac = {"full": "chk", "class": "chk_class"}[getattr(c, "proj", "full")]
        out.append(f"  {tac} {i}%nat {env} {m} {c.fuel}%nat {coq(c.v)} {coq(c.x_seen)} {coq(c.obs)}.\n")
    out.append("exact I. Qed.\n")
    with open(path, "w") as f:
        f.write("".join(out))


MISMATCH_RE = re.compile(r"MISMATCH (\d+)%nat MODEL\s+(.*?)(?=\nMISMATCH |\Z)", re.S)


def _limit_memory() -> None:
    import resource
    cap = 16 * 1024 ** 3
    resource.setrlimit(resource.RLIMIT_AS, (cap, cap))


def run_coq_file(path: str, timeout: int = 1800) -> Tuple[str, List[Tuple[int, str]], str]:
    """Compile one generated file; returns (status, mismatches, raw_output)."""
    cmd = ["coqc", "-Q", os.path.join(COQ, "theories"), "KV", "-Q", GEN, "KVGen", path]
    try:
        p = subprocess.run(cmd, capture_output=True, text=True, timeout=timeout, cwd=COQ, preexec_fn=_limit_memory)
    except subprocess.TimeoutExpired:
        return "timeout", [], ""
    out = p.stdout + p.stderr
    mism = [(int(a), " ".join(b.split())) for a, b in MISMATCH_RE.findall(p.stdout)]
    if p.returncode != 0:
        return "error", mism, out
    return "ok", mism, out


def run_cases(name: str, cases: List[Case], rng=None, per_file: int = 250, jobs: int = 16,
              keep: bool = False) -> dict:
    """Observe all cases, evaluate the model in Coq, return a report."""
    t0 = time.time()
    os.makedirs(GEN, exist_ok=True)
    harness_errors: List[Tuple[Case, str]] = []
    good: List[Case] = []
    for c in cases:
        try:
            observe(c, rng)
            good.append(c)
        except HarnessError as e:
            harness_errors.append((c, str(e)))
    files: List[Tuple[str, List[Case]]] = []
    for k in range(0, len(good), per_file):
        chunk = good[k:k + per_file]
        orc = Oracles()
        for c in chunk:
            acc: list = []
            subvalues(c.x_seen, acc)
            subvalues(c.obs, acc)
            subvalues(c.v, acc)
            seen = set()
            for t in acc:
                fz = freeze(t)
                if fz in seen:
                    continue
                seen.add(fz)
                orc.add_value(t, c.ct)
            orc.harvest_logs(c)
        path = os.path.join(GEN, f"cases_{name}_p{os.getpid()}_{k // per_file}.v")
        emit_file(path, chunk, orc)
        files.append((path, chunk))
    mismatches: List[Tuple[Case, str]] = []
    coq_errors: List[Tuple[str, str]] = []
    with ThreadPoolExecutor(max_workers=jobs) as ex:
        results = list(ex.map(lambda fc: run_coq_file(fc[0]), files))
    for (path, chunk), (status, mism, raw) in zip(files, results):
        if status != "ok":
            coq_errors.append((path, status + ": " + raw[-2000:]))
        for idx, model in mism:
            mismatches.append((chunk[idx], model))
        if not keep and status == "ok" and not mism:
            for ext in (".v", ".vo", ".vok", ".vos", ".glob"):
                try:
                    os.remove(path[:-2] + ext)
                except OSError:
                    pass
            try:
                os.remove(os.path.join(os.path.dirname(path), "." + os.path.basename(path)[:-2] + ".aux"))
            except OSError:
                pass
    return {
        "cases": good,
        "harness_errors": harness_errors,
        "mismatches": mismatches,
        "coq_errors": coq_errors,
        "wall_s": time.time() - t0,
    }


