"""C15 - built-in predicates and processors compute exactly their documented relations."""
from __future__ import annotations

import itertools
import math
import os
import random
import time
from concurrent.futures import ThreadPoolExecutor
from datetime import date, datetime
from decimal import Decimal
from fractions import Fraction
from typing import Any, List, Optional, Tuple

from .. import gen as G
from .. import userlib as U
from ..build import Ctx, HarnessError, exn_term, from_py, to_py
from ..corr import GEN, HEADER, Oracles, run_coq_file
from ..lang import N, P, Some, coq, freeze

ASSUMPTIONS = [
    "regex matching and non-ASCII case mapping are oracles (re / str.upper of CPython), tied by recording the real results",
]

STR_ALPHA = ["a", "b", " ", "\n", "A", "　"]
BYTES_ALPHA = [b"a", b" ", b"\t", b"B", b"\xff"]
ATOMS = [G.I(1), G.TRUE, G.F1, G.S("a"), G.NONE, ("VList", [G.I(1)]), ("VTuple", [G.I(1)]), G.D1,
         ("VTuple", [G.I(1), ("VList", [G.I(2)])]), G.I(0), G.FALSE]
INTS = [G.I(z) for z in range(-3, 4)]
FLOATS = [G.F0, G.FN0, G.F1, G.F(True, 1, 0), G.F15, G.F2, G.F(False, 1, -1), G.INF, G.NINF, G.NAN]
DECS = [G.D(False, 0, 0), G.D1, G.D10, G.D15, G.DN0, G.D(False, 2, 0), G.D(False, 3, 0), G.D(True, 1, 0)]
DATES = [G.DATE1, G.DATE2, G.DATEMIN]
DTS = [G.DT1, G.DT2]


def strs(n: int) -> list:
    out = []
    for k in range(n + 1):
        for t in itertools.product(STR_ALPHA, repeat=k):
            out.append(G.S("".join(t)))
    return out


def bytess(n: int) -> list:
    out = []
    for k in range(n + 1):
        for t in itertools.product(BYTES_ALPHA, repeat=k):
            out.append(G.B(b"".join(t)))
    return out


def containers(n: int, atoms: list) -> list:
    out = []
    for k in range(n + 1):
        for t in itertools.product(atoms, repeat=k):
            out.append(list(t))
    return out


def plane(tier: str, rng: random.Random) -> List[Tuple[str, Any, Any]]:
    """(kind, term, argument) triples: kind in {'pred','proc'}."""
    out: List[Tuple[str, Any, Any]] = []
    sl = 3 if tier == "quick" else 4
    S_ = strs(sl)
    B_ = bytess(2 if tier == "quick" else 3)
    nums = INTS + [G.TRUE, G.FALSE] + FLOATS
    # bounds and multiples over the numeric plane, Decimals, dates, datetimes
    for dom in (INTS + [G.TRUE, G.FALSE], FLOATS + INTS[2:5], DECS + INTS[3:5], DATES, DTS):
        for m in dom:
            for x in dom:
                for ex in (False, True):
                    out.append(("pred", ("PMin", m, ex), x))
                    out.append(("pred", ("PMax", m, ex), x))
                out.append(("pred", ("PEqualTo", m), x))
    for dom in (INTS + [G.TRUE, G.FALSE], FLOATS + INTS[2:5], DECS):
        for f in dom:
            if to_py(f, None) == 0:
                continue
            for x in dom:
                out.append(("pred", ("PMultipleOf", f), x))
    # large sampled values
    for _ in range(200 if tier == "quick" else 3000):
        a, b = rng.choice([10 ** 17 + 1, 2 ** 53 + 1, 10 ** 30, -10 ** 18, 123456789]), rng.choice([2, 3, 7, 10 ** 9, -4])
        out.append(("pred", ("PMultipleOf", G.I(b)), G.I(a)))
        out.append(("pred", ("PMin", G.I(a), rng.random() < 0.5), G.I(a + rng.choice([-1, 0, 1]))))
        out.append(("pred", ("PMax", G.F(False, rng.randrange(1, 2 ** 52) | 1, rng.randrange(-60, 60)), False),
                    G.F(False, rng.randrange(1, 2 ** 52) | 1, rng.randrange(-60, 60))))
        out.append(("pred", ("PMultipleOf", G.F(False, 1, rng.randrange(-5, 5))),
                    G.F(rng.random() < 0.5, rng.randrange(0, 2 ** 20), rng.randrange(-8, 8))))
    # strings / bytes: lengths, prefix/suffix, not blank, processors
    small_s, small_b = strs(2), bytess(2)
    for x in S_:
        for n in (0, 1, 2, 3, 4):
            out += [("pred", ("PMinLength", n), x), ("pred", ("PMaxLength", n), x), ("pred", ("PExactLength", n), x)]
        out.append(("pred", ("PNotBlank",), x))
        for q in small_s:
            out += [("pred", ("PStartsWith", q), x), ("pred", ("PEndsWith", q), x)]
        for pr in (("Strip",), ("Upper",), ("Lower",)):
            out.append(("proc", pr, x))
        for rid in range(4):
            out.append(("pred", ("PRegex", N(rid)), x))
    for x in B_:
        for n in (0, 1, 2, 3):
            out += [("pred", ("PMinLength", n), x), ("pred", ("PMaxLength", n), x), ("pred", ("PExactLength", n), x)]
        out.append(("pred", ("PNotBlank",), x))
        for q in small_b:
            out += [("pred", ("PStartsWith", q), x), ("pred", ("PEndsWith", q), x)]
        for pr in (("Strip",), ("Upper",), ("Lower",)):
            out.append(("proc", pr, x))
    # every candidate whitespace character on its own and around a letter: which ones strip / blank removes
    for cpt in range(256):
        for x in (G.B(bytes([cpt])), G.B(bytes([cpt]) + b"a" + bytes([cpt]))):
            out += [("proc", ("Strip",), x), ("pred", ("PNotBlank",), x)]
    uni = list(range(0, 0x100)) + [0x1680, 0x180e] + list(range(0x2000, 0x2010)) + list(range(0x2028, 0x2030)) + \
        [0x205f, 0x2060, 0x3000, 0xfeff, 0x85, 0xa0, 0x1c, 0x1d, 0x1e, 0x1f]
    for cpt in uni:
        for x in (G.S(chr(cpt)), G.S(chr(cpt) + "a" + chr(cpt))):
            out += [("proc", ("Strip",), x), ("pred", ("PNotBlank",), x)]
    # counts and lengths with negative parameters (the whole bounded parameter domain, not only the sensible half)
    for n in (-3, -1):
        for x in (G.S(""), G.S("a"), G.B(b""), G.B(b"a")):
            out += [("pred", ("PMinLength", n), x), ("pred", ("PMaxLength", n), x), ("pred", ("PExactLength", n), x)]
        for x in (("VList", []), ("VList", [G.I(1)]), ("VTuple", []), ("VSet", []), ("VSet", [G.I(1)])):
            out += [("pred", ("PMinItems", n), x), ("pred", ("PMaxItems", n), x), ("pred", ("PExactItemCount", n), x)]
        for d in (("VDict", []), ("VDict", [P(G.I(1), G.NONE)])):
            out += [("pred", ("PMinKeys", n), d), ("pred", ("PMaxKeys", n), d)]
    # counts and lengths beyond the small integers an interpreter keeps as shared objects
    for n in (255, 256, 257, 300, 400):
        for ln in (n - 1, n, n + 1):
            xs_ = G.S("x" * ln)
            out += [("pred", ("PMinLength", n), xs_), ("pred", ("PMaxLength", n), xs_), ("pred", ("PExactLength", n), xs_)]
        for ln in (n - 1, n, n + 1):
            lst = ("VList", [G.I(i % 7) for i in range(ln)])
            out += [("pred", ("PMinItems", n), lst), ("pred", ("PMaxItems", n), lst), ("pred", ("PExactItemCount", n), lst)]
    for n in (257, 300):
        for ln in (n - 1, n, n + 1):
            d_ = ("VDict", [P(G.I(i), G.NONE) for i in range(ln)])
            out += [("pred", ("PMinKeys", n), d_), ("pred", ("PMaxKeys", n), d_)]
        bs_ = G.B(b"y" * n)
        out += [("pred", ("PExactLength", n), bs_), ("pred", ("PMinLength", n + 1), bs_)]
    # lengths count code points: combining sequences, precomposed characters, astral characters, joiners
    for st in ("e\u0301", "\u00e9", "e\u0301e\u0301", "\U0001f600", "a\u200db", "\u1100\u1161", "\uac00", "n\u0303o", "\u00a0 "):
        for n in (0, 1, 2, 3, 4):
            out += [("pred", ("PMinLength", n), G.S(st)), ("pred", ("PMaxLength", n), G.S(st)), ("pred", ("PExactLength", n), G.S(st))]
    for st in ("\ufeff name", "name \ufeff", "\ufeff", " \ufeff ", "\u200b x \u200b", "\ufeff\ufeff a", "\u2060 b"):
        out += [("proc", ("Strip",), G.S(st)), ("pred", ("PNotBlank",), G.S(st))]
    for s in ["ß", "éA", "ǅ", "İ", "ﬁ", "σς", " é "]:
        for pr in (("Strip",), ("Upper",), ("Lower",)):
            out.append(("proc", pr, G.S(s)))
    for e in ["a@b.co", "a@b", "x.y+z@d-e.f.g", " a@b.co", "a@b.co\n", "@b.co", "!! a@b.co", "\nbob@example.com", "<x> bob@example.com", "a@b.co trailing"]:
        out.append(("pred", ("PEmail",), G.S(e)))
    # containers: item counts, uniqueness, key counts
    cl = 3 if tier == "quick" else 4
    for xs in containers(cl, ATOMS[:8]) + containers(2, ATOMS):
        for wrap in ("VList", "VTuple"):
            x = (wrap, xs)
            out.append(("pred", ("PUniqueItems",), x))
            if len(xs) <= 2:
                for n in (0, 1, 2, 3):
                    out += [("pred", ("PMinItems", n), x), ("pred", ("PMaxItems", n), x), ("pred", ("PExactItemCount", n), x)]
    for xs in containers(3, [G.I(1), G.TRUE, G.F1, G.S("a"), G.I(2)]):
        x = ("VSet", G.dedupe_hashable(xs))
        out.append(("pred", ("PUniqueItems",), x))
        out.append(("pred", ("PMinItems", 2), x))
    for k in range(0, 4):
        d = ("VDict", [P(G.I(i), G.NONE) for i in range(k)])
        for n in (0, 1, 2, 3):
            out += [("pred", ("PMinKeys", n), d), ("pred", ("PMaxKeys", n), d)]
    # membership over mixed-type choices
    pool = [G.I(1), G.TRUE, G.F1, G.D1, G.S("a"), G.B(b"a"), G.I(0), G.FALSE, G.NONE, G.F0, G.FN0]
    for cs in ([G.I(1)], [G.TRUE], [G.S("a"), G.I(0)], [], [G.F1, G.NONE], [G.D1]):
        for x in pool:
            out.append(("pred", ("PChoices", cs), x))
    return out


# ------------------------------------------------------------------ reference definitions


def _num(x):
    if isinstance(x, bool):
        return Fraction(int(x))
    if isinstance(x, int):
        return Fraction(x)
    if isinstance(x, float):
        return Fraction(x) if math.isfinite(x) else x
    if isinstance(x, Decimal):
        return Fraction(x) if x.is_finite() else x
    return None


def reference(kind: str, t, x: Any) -> Any:
    """The documented relation, written independently of the library; None = no reference."""
    c = t[0]
    if kind == "proc":
        ws_u = lambda ch: ch.isspace()
        if c == "Strip":
            if isinstance(x, str):
                i, j = 0, len(x)
                while i < j and x[i].isspace():
                    i += 1
                while j > i and x[j - 1].isspace():
                    j -= 1
                return x[i:j]
            if isinstance(x, bytes):
                i, j = 0, len(x)
                while i < j and x[i:i + 1] in (b" ", b"\t", b"\n", b"\r", b"\x0b", b"\x0c"):
                    i += 1
                while j > i and x[j - 1:j] in (b" ", b"\t", b"\n", b"\r", b"\x0b", b"\x0c"):
                    j -= 1
                return x[i:j]
        if c in ("Upper", "Lower") and isinstance(x, bytes):
            f = (lambda b: b - 32 if 97 <= b <= 122 else b) if c == "Upper" else (lambda b: b + 32 if 65 <= b <= 90 else b)
            return bytes(f(b) for b in x)
        if c in ("Upper", "Lower") and isinstance(x, str) and x.isascii():
            return reference("proc", t, x.encode()).decode()
        return None
    if c in ("PMin", "PMax"):
        m = to_py(t[1], None)
        a, b = _num(x), _num(m)
        if isinstance(a, Fraction) and isinstance(b, Fraction):
            lo, hi = (b, a) if c == "PMin" else (a, b)
            return lo < hi if t[2] else lo <= hi
        if isinstance(x, (date,)) and type(x) is type(m):
            lo, hi = (m, x) if c == "PMin" else (x, m)
            return lo < hi if t[2] else lo <= hi
        return None
    if c == "PMultipleOf":
        f = to_py(t[1], None)
        a, b = _num(x), _num(f)
        if isinstance(a, Fraction) and isinstance(b, Fraction) and b != 0:
            if isinstance(x, Decimal) or isinstance(f, Decimal):
                if abs(a / b) >= 10 ** 28:
                    return None
            return (a / b).denominator == 1
        return None
    if c == "PEqualTo":
        m = to_py(t[1], None)
        a, b = _num(x), _num(m)
        if isinstance(a, Fraction) and isinstance(b, Fraction):
            return a == b
        return None
    if c in ("PMinLength", "PMinItems", "PMinKeys"):
        return len(x) >= t[1]
    if c in ("PMaxLength", "PMaxItems", "PMaxKeys"):
        return len(x) <= t[1]
    if c in ("PExactLength", "PExactItemCount"):
        return len(x) == t[1]
    if c == "PStartsWith":
        p = to_py(t[1], None)
        return type(p) is type(x) and x[: len(p)] == p
    if c == "PEndsWith":
        p = to_py(t[1], None)
        return type(p) is type(x) and (len(p) == 0 or x[-len(p):] == p) and len(p) <= len(x)
    if c == "PNotBlank":
        if isinstance(x, str):
            return any(not ch.isspace() for ch in x)
        return any(x[i:i + 1] not in (b" ", b"\t", b"\n", b"\r", b"\x0b", b"\x0c") for i in range(len(x)))
    if c == "PUniqueItems":
        items = list(x)
        for i in range(len(items)):
            for j in range(i):
                if type(items[i]) is type(items[j]) and items[i] == items[j]:
                    return False
        return True
    if c == "PChoices":
        return any(x == ch for ch in (to_py(z, None) for z in t[1]))
    if c == "PEmail" and isinstance(x, str):
        # whatever the pattern is, it is matched at the start of the string (re.match): the anchoring is the relation
        import re as _re
        from koda_validate.string import EmailPredicate
        return _re.compile(EmailPredicate.pattern.pattern).match(x) is not None
    return None


def choices_by_reference() -> Optional[dict]:
    """Choices is the relation `v in choices` with the set it holds *now*: the set its owner keeps (and may grow or
    shrink) and whatever is assigned to the attribute later - also through a validator that carries it."""
    from koda_validate import Choices, IntValidator, StringValidator
    domain = [1, 2, 5, 9, True, 1.0, "a", "b", "", None, (1,), b"a"]
    for mk in (lambda p_: p_, lambda p_: IntValidator(p_), lambda p_: StringValidator(p_)):
        owner = {1, "a"}
        pred = Choices(owner)
        carrier = mk(pred)
        steps = [("as built", lambda: None), ("after owner.add(5)", lambda: owner.add(5)), ("after owner.discard(1)", lambda: owner.discard(1)),
                 ("after owner.add('b')", lambda: owner.add("b")), ("after owner.clear()", lambda: owner.clear()),
                 ("after pred.choices = {9, ''}", lambda: setattr(pred, "choices", {9, ""}))]
        for label, act in steps:
            act()
            for v_ in domain:
                try:
                    got, want = pred(v_), v_ in pred.choices
                except Exception as e:  # noqa
                    return {"kind": "oracle", "signature": "C15:raised:PChoices", "what": f"Choices({pred.choices!r})({v_!r}) raised {e!r} {label}",
                            "replay_case": {"choices_by_reference": True}}
                if got is not want:
                    return {"kind": "oracle", "signature": "C15:relation:PChoices",
                            "what": f"{label}: Choices holding {pred.choices!r} answers {got!r} for {v_!r}; `in` gives {want!r}",
                            "replay_case": {"choices_by_reference": True}}
            if carrier is not pred:
                for v_ in domain:
                    r_ = carrier(v_)
                    if type(v_) is carrier._TYPE and r_.is_valid is not (v_ in pred.choices):
                        return {"kind": "oracle", "signature": "C15:relation:PChoices",
                                "what": f"{label}: {carrier!r}({v_!r}) is {'accepted' if r_.is_valid else 'rejected'}; `{v_!r} in choices` is {v_ in pred.choices}",
                                "replay_case": {"choices_by_reference": True}}
    return None


def predicates_put_to_other_uses() -> Optional[dict]:
    """A predicate is the same relation after it has been described as a JSON Schema (alone and through a validator that
    carries it), printed, compared and hashed: every built-in predicate, parameters of every admitted kind, the whole
    argument list before and after - and its own attributes are what they were."""
    import copy
    from decimal import Decimal
    from koda_validate import (Choices, EndsWith, EqualTo, ExactItemCount, ExactLength, IntValidator, ListValidator, Max, MaxItems, MaxKeys,
                               MaxLength, Min, MinItems, MinKeys, MinLength, MultipleOf, StartsWith, StringValidator, UniqueItems,
                               not_blank, unique_items)
    from koda_validate.serialization import to_json_schema, to_named_json_schema
    nums = [None, True, False, 0, 1, 2, 3, -1, 1.0, 2.5, Decimal(1), "a", "", "ab", b"a"]
    strs_ = ["", "a", "ab", "abc", " ", "b", "ba", None]
    seqs = [[], [None], [1], [1, None], [None, None], [1, 2, 3], [1, 1], [1, True], (1, None, 3), [[1], [1]], ["a", None, "b"]]
    maps_ = [{}, {None: 1}, {"a": 1}, {"a": 1, None: 2}, {"a": 1, "b": 2, "c": 3}]
    table = [(lambda: Choices({None, 1, "a"}), nums), (lambda: Choices({1, 2}), nums), (lambda: Choices({None}), nums), (lambda: Choices({"a", ""}), nums),
             (lambda: Choices([None, 1]), nums), (lambda: Choices({True, 2.5}), nums),
             (lambda: EqualTo(1), nums), (lambda: EqualTo(None), nums), (lambda: EqualTo("a"), nums),
             (lambda: Min(1), [0, 1, 2, 1.0, True]), (lambda: Max(1, exclusive_maximum=True), [0, 1, 2, 1.0]), (lambda: MultipleOf(2), [0, 1, 2, 4, 3]),
             (lambda: MinLength(1), strs_[:-1]), (lambda: MaxLength(1), strs_[:-1]), (lambda: ExactLength(2), strs_[:-1]),
             (lambda: StartsWith("a"), strs_[:-1]), (lambda: EndsWith("b"), strs_[:-1]), (lambda: StartsWith(""), strs_[:-1]), (lambda: EndsWith(""), strs_[:-1]),
             (lambda: not_blank, strs_[:-1]),
             (lambda: MinItems(1), seqs), (lambda: MinItems(2), seqs), (lambda: MaxItems(1), seqs), (lambda: MaxItems(2), seqs), (lambda: ExactItemCount(2), seqs),
             (lambda: UniqueItems(), seqs), (lambda: unique_items, seqs),
             (lambda: MinKeys(1), maps_), (lambda: MinKeys(2), maps_), (lambda: MaxKeys(1), maps_)]
    for mk, args in table:
        pred = mk()
        def vec():
            out = []
            for a in args:
                try:
                    out.append(pred(copy.deepcopy(a)))
                except Exception as e:  # noqa
                    out.append(type(e).__name__)
            return out
        before, attrs, rp = vec(), copy.deepcopy(getattr(pred, "__dict__", {})), repr(pred)
        carriers = [pred]
        for mkv in (lambda: IntValidator(pred), lambda: StringValidator(pred), lambda: ListValidator(IntValidator(), predicates=[pred])):
            try:
                carriers.append(mkv())
            except Exception:  # noqa
                pass
        for cobj in carriers:
            for use in (lambda: to_json_schema(cobj), lambda: to_named_json_schema("P", cobj), lambda: repr(cobj), lambda: cobj == mk(), lambda: hash(cobj)):
                try:
                    use()
                except Exception:  # noqa
                    pass
            after = vec()
            if after != before or getattr(pred, "__dict__", {}) != attrs or repr(pred) != rp:
                k = next((i for i, (b_, a_) in enumerate(zip(before, after)) if b_ != a_), None)
                detail = (f"on {args[k]!r} it answered {before[k]!r} before and {after[k]!r} after" if k is not None
                          else f"its attributes were {attrs!r} and are {getattr(pred, '__dict__', {})!r}")
                return {"kind": "oracle", "signature": "C15:other-uses",
                        "what": f"{rp} is not the same predicate after being described as a JSON Schema / printed / compared / hashed"
                                f"{'' if cobj is pred else ' through ' + type(cobj).__name__}: {detail}",
                        "replay_case": {"other_uses": True}}
    return None


def run(tier: str, rng: random.Random, proof_ok: bool) -> dict:
    t0 = time.time()
    items = plane(tier, rng)
    ctx = Ctx(G.STD_CLASSES, [])
    violations: List[dict] = []
    lines: List[Tuple[str, str, Any]] = []
    U.reset_logs()
    orc = Oracles()
    nontrivial = set()
    evals = 0
    samples = []
    dist = {"True": 0, "False": 0, "raise": 0, "proc": 0}
    seen_sig = set()
    for kind, t, xt in items:
        evals += 1
        x = to_py(xt, ctx.ct)
        before = freeze(from_py(x, ctx.ct))
        obj = ctx._predicate(t) if kind == "pred" else ctx.processor(t)
        try:
            r = obj(x)
            exc = None
        except Exception as e:  # noqa
            r, exc = None, e
        after = freeze(from_py(x, ctx.ct))
        sig = None
        if after != before:
            sig, what = "C15:mutated-argument", f"{obj!r} mutated its argument {x!r}"
        elif exc is None and kind == "pred" and type(r) is not bool:
            sig, what = "C15:not-a-bool", f"{obj!r}({x!r}) returned {r!r}, not a real boolean"
        else:
            ref = reference(kind, t, x)
            if ref is not None and exc is None and (r != ref or type(r) is not type(ref)):
                sig, what = f"C15:relation:{t[0]}", f"{obj!r}({x!r}) returned {r!r}; the documented relation gives {ref!r}"
            elif ref is not None and exc is not None:
                sig, what = f"C15:raised:{t[0]}", f"{obj!r}({x!r}) raised {exc!r}; the documented relation gives {ref!r}"
        if sig and sig not in seen_sig:
            seen_sig.add(sig)
            violations.append({"kind": "oracle", "signature": sig, "what": what,
                               "replay_case": {"kind": kind, "t": __import__("harness.lang", fromlist=["to_json"]).to_json(t),
                                               "x": __import__("harness.lang", fromlist=["to_json"]).to_json(xt)}})
        if exc is not None:
            rhs = f"(Exn {exn_term(exc)[0]})"
            dist["raise"] += 1
        elif kind == "pred":
            rhs = f"(Ok {'true' if r else 'false'})"
            dist[str(bool(r))] += 1
        else:
            rhs = f"(Ok {coq(from_py(r, ctx.ct))})"
            dist["proc"] += 1
        fn = "pred_eval" if kind == "pred" else "proc_apply"
        lines.append((f"({fn} env0 {coq(t)} {coq(xt)})", rhs, (kind, t, xt)))
        nontrivial.add((freeze(t), freeze(xt)))
        if len(samples) < 4 and evals % 997 == 1:
            samples.append({"what": kind, "term": coq(t), "argument": coq(xt)[:120], "observed": rhs})
        if kind == "proc" and isinstance(x, str) and not x.isascii():
            orc.add_value(xt, ctx.ct)
    # regex / email logs
    class _C:  # adapter for Oracles.harvest_logs
        re_log = list(U.RE_LOG)
        email_log = list(U.EMAIL_LOG)
    orc.harvest_logs(_C)
    # emit files
    os.makedirs(GEN, exist_ok=True)
    per = 2500
    files = []
    classes = coq(ctx.ct.coq())
    for k in range(0, len(lines), per):
        chunk = lines[k:k + per]
        path = os.path.join(GEN, f"cases_C15_p{os.getpid()}_{k // per}.v")
        body = [HEADER, orc.coq(),
                f"Definition env0 := mk_env {classes} [] oracle_tbl re_tbl email_tbl case_tbl.\n", "Goal True.\n"]
        for i, (lhs, rhs, _) in enumerate(chunk):
            body.append(f"  chk_eq {i}%nat {lhs} {rhs}.\n")
        body.append("exact I. Qed.\n")
        open(path, "w").write("".join(body))
        files.append((path, chunk))
    with ThreadPoolExecutor(max_workers=16) as ex:
        results = list(ex.map(lambda fc: run_coq_file(fc[0]), files))
    mism = 0
    for (path, chunk), (status, mm, raw) in zip(files, results):
        if status != "ok":
            violations.append({"kind": "correspondence", "signature": None,
                               "what": f"correspondence file {os.path.basename(path)} failed to evaluate", "log": raw[-1500:]})
        for idx, model in mm:
            mism += 1
            if mism <= 3:
                kind, t, xt = chunk[idx][2]
                violations.append({"kind": "correspondence", "signature": None,
                                   "what": f"correspondence family 'C15-plane' no longer checks: model and implementation differ on {coq(t)} applied to {coq(xt)[:200]}",
                                   "model_outcome": model, "observed_outcome": chunk[idx][1]})
        if status == "ok" and not mm:
            for ext in (".v", ".vo", ".vok", ".vos", ".glob"):
                try:
                    os.remove(path[:-2] + ext)
                except OSError:
                    pass
    cbr = choices_by_reference()
    if cbr:
        violations.append(cbr)
    pou = predicates_put_to_other_uses()
    if pou:
        violations.append(pou)
    cov = {"evaluations": evals, "distinct_nontrivial": len(nontrivial),
           "rule": "exhaustive enumeration of the bounded (predicate/processor parameter, argument) plane of the quantifier plus sampled large values; distinct (term, argument) pairs",
           "exhaustive": True, "samples": samples, "traces_validated_against_impl": evals, "mismatches": mism,
           "result_distribution": dist, "corr_wall_s": round(time.time() - t0, 1)}
    return {"violations": violations, "coverage": cov}


def replay(path: str) -> int:
    import json
    from ..lang import from_json
    j = json.load(open(path))
    rc = j.get("replay_case")
    if not rc:
        print("no input in replay file:", j.get("what"))
        return 1
    if rc.get("other_uses"):
        r_ = predicates_put_to_other_uses()
        print("property violated on this history: " + r_["what"] if r_ else "every predicate is the same relation after being described / printed / compared")
        return 1 if r_ else 0
    if rc.get("choices_by_reference"):
        r_ = choices_by_reference()
        print("property violated on this history: " + r_["what"] if r_ else "Choices follows the set it holds")
        return 1 if r_ else 0
    ctx = Ctx(G.STD_CLASSES, [])
    t, xt = from_json(rc["t"]), from_json(rc["x"])
    x = to_py(xt, ctx.ct)
    obj = ctx._predicate(t) if rc["kind"] == "pred" else ctx.processor(t)
    try:
        r = obj(x)
    except Exception as e:  # noqa
        r = e
    ref = reference(rc["kind"], t, x)
    print(f"{obj!r}({x!r}) -> {r!r}; documented relation: {ref!r}")
    return 0 if (ref is None or r == ref) else 1


# predicates are values of the model: nothing in the package stores into a predicate (or any other argument) -
# the schema generator, the renderers and the validators that carry predicates included
from ..facts import attach as _attach, effects as _effects  # noqa: E402
_attach(globals(), _effects.obligation("C15"))
