"""C07 - typehint-derived validators are sound and complete for the annotated type."""
from __future__ import annotations

import dataclasses
import json
import os
import re
import random
import time
import typing
from concurrent.futures import ThreadPoolExecutor
from datetime import date, datetime
from decimal import Decimal
from typing import Any, Dict, List, Optional, Tuple
from uuid import UUID

from koda import Just, Maybe, nothing
from koda_validate import (
    BoolValidator, BytesValidator, DataclassValidator, DatetimeValidator, DateValidator, DecimalValidator,
    EqualsValidator, FloatValidator, IntValidator, Invalid, ListValidator, MapValidator, NamedTupleValidator,
    NoneValidator, NTupleValidator, SetValidator, StringValidator, TypedDictValidator, UniformTupleValidator,
    UnionValidator, UUIDValidator, Valid,
)
from koda_validate.coerce import Coercer
from koda_validate.generic import AlwaysValid
from koda_validate.is_type import TypeValidator
from koda_validate.maybe import MaybeValidator
from koda_validate.signature import resolve_signature_typehint_default
from koda_validate.typehints import get_typehint_validator

from .. import build as B
from .. import gen as G
from .. import userlib as U
from ..build import Ctx, HarnessError, exn_term, from_py, to_py, vstr
from ..corr import GEN, HEADER, Oracles, run_coq_file, subvalues
from ..lang import N, P, Some, coq, freeze, from_json, to_json

ROOT = os.path.dirname(os.path.dirname(os.path.dirname(os.path.abspath(__file__))))
ASSUMPTIONS = [
    "the exact-type reading: a value of str / int / ... is an instance of exactly that class (bool is not int, subclasses are not the class); a dataclass / NamedTuple value is an instance whose fields are typed; a TypedDict value is a dict with declared, typed keys and every required key",
    "Annotated[T, validator] uses the validator as it is: soundness for it is that validator's own business (C07_annotated), the type reading looks through it",
    "declared defaults are used on trust (they are not validated)",
    "sets are Python sets (no two equal members)",
]
HDR = HEADER.replace("Corr.Check.", "Corr.Check Model.Derive Proofs.DeriveR Proofs.DeriveC Proofs.DeriveD.")
S, I = G.S, G.I
NCLS = len(G.STD_CLASSES)
FRAG_RE = re.compile(r"=\s*\((\d+)(?:%nat)?,\s*(\d+)(?:%nat)?,\s*(\d+)(?:%nat)?,\s*(\d+)(?:%nat)?,\s*(\d+)(?:%nat)?\)")

SCALAR_PY = {"KStr": str, "KInt": int, "KFloat": float, "KBool": bool, "KBytes": bytes, "KDecimal": Decimal,
             "KUuid": UUID, "KDate": date, "KDatetime": datetime}
LITS = {"str": [S("a"), S("b"), S("")], "int": [I(1), I(2), I(0)], "bool": [G.TRUE, G.FALSE], "bytes": [G.B(b"a"), G.B(b"")],
        "none": [G.NONE]}


# ------------------------------------------------------------------ annotations
class Gen:
    """Annotation terms plus the classes they mention (appended after the standard class table)."""

    def __init__(self, rng: random.Random):
        self.rng = rng
        self.classes: List[dict] = list(G.STD_CLASSES)
        self.subs: Dict[int, int] = {}          # dataclass id -> id of a subclass with the same fields

    def scalar(self):
        return ("AScalar", (self.rng.choice(G.KINDS),))

    def ann(self, depth: int):
        rng = self.rng
        if depth <= 0:
            r = rng.random()
            if r < 0.6:
                return self.scalar()
            if r < 0.68:
                return ("ANone",)
            if r < 0.74:
                return ("AAny",)
            if r < 0.80:
                return rng.choice([("ANakedList",), ("ANakedSet",), ("ANakedTuple",), ("ANakedDict",)])
            if r < 0.9:
                return self.literal()
            return ("AClass", N(rng.choice([G.C_PLAIN, G.C_UNHASH])))
        sub = lambda: self.ann(depth - 1)
        r = rng.random()
        if r < 0.12:
            return ("AList", sub())
        if r < 0.18:
            return ("ASet", self.hashable_ann(depth - 1))
        if r < 0.26:
            return ("ADict", self.hashable_ann(depth - 1), sub())
        if r < 0.32:
            return ("ATupleU", sub())
        if r < 0.42:
            return ("ATupleN", [sub() for _ in range(rng.choice([1, 2, 3]))])
        if r < 0.56:
            l = [sub() for _ in range(rng.choice([2, 2, 3]))]
            if rng.random() < 0.5:
                l = [l[0], ("ANone",)]               # Optional[T]
            return self.union(l)
        if r < 0.60:
            return ("AMaybe", sub())
        if r < 0.66:
            return self.literal()
        if r < 0.72:
            v = G.gen_scalar(rng, allow_async=False, simple=rng.random() < 0.5)
            v = ("Scalar", v[1], v[2], [p for p in v[3] if p[0] != "ProcUser"], [p for p in v[4] if p[0] != "PUser"], [])
            return ("AAnnotated", ("AScalar", v[1]), Some(v))
        if r < 0.92:
            return self.record(depth - 1)
        return self.scalar()

    def union(self, l):
        # typing flattens nested unions and removes duplicates; keep the term in that normal form
        flat = []
        for a in l:
            for b in (a[1] if a[0] == "AUnion" else [a]):
                if b not in flat and b[0] != "AMaybe":
                    flat.append(b)
        flat = [a for a in flat if a[0] != "AAny"] or [("AScalar", ("KInt",))]
        if len(flat) == 1:
            return flat[0]
        return ("AUnion", flat)

    def hashable_ann(self, depth: int):
        rng = self.rng
        r = rng.random()
        if r < 0.7 or depth <= 0:
            return self.scalar()
        if r < 0.85:
            return ("ATupleN", [self.scalar() for _ in range(rng.choice([1, 2]))])
        return self.literal()

    def literal(self):
        rng = self.rng
        if rng.random() < 0.7:
            pool = LITS[rng.choice(["str", "int", "bool", "bytes", "none"])]
            vs = rng.sample(pool, rng.randint(1, len(pool)))
        else:
            vs = [rng.choice(LITS[k]) for k in rng.sample(["str", "int", "bool", "bytes", "none"], rng.choice([2, 3]))]
        out = []
        for v in vs:
            if v not in out:
                out.append(v)
        if len({v[0] for v in out}) == 1:
            out = B.sorted_terms(out)        # one kind: the derived Choices is a set, keep one canonical order
        else:
            rng.shuffle(out)                 # several kinds: Literal keeps the written order (int before bool matters)
        return ("ALiteral", out)

    def record(self, depth: int):
        rng = self.rng
        kind = rng.choice(["data", "data", "data_slots", "named", "typed", "typed"])
        names = rng.sample(["a", "b", "c", "d", "e"], rng.choice([0, 1, 2, 3, 4]))
        total = rng.random() < 0.6
        fields, afields = [], []
        seen_default = False
        for n in names:
            a = self.ann(depth) if depth > 0 else self.scalar()
            if kind == "typed":
                req = rng.random() < (0.75 if total else 0.3)
                dflt = None
                if rng.random() < 0.2:
                    a = ("AQual", a)           # explicit Required / NotRequired around the field type
            else:
                dflt = None
                if seen_default or rng.random() < 0.3:
                    if a[0] not in ("AScalar", "ALiteral", "ANone", "AList", "ADict") or (kind == "named" and a[0] in ("AList", "ADict")):
                        a = self.scalar()            # mutable defaults go through default_factory (dataclasses only)
                    dflt = self.value(a, 2)
                    seen_default = True
                req = dflt is None
            fields.append((n, a, dflt, req))
            afields.append(P(S(n), P(a, req)))
        cid = len(self.classes)
        self.classes.append({"kind": kind, "fields": fields, "total": total, "hashable": False})
        if kind == "data" and rng.random() < 0.4:
            # a subclass: its instances are NOT values of the annotated class under the exact-type reading
            self.subs[cid] = len(self.classes)
            self.classes.append({"kind": "data", "base_cls": cid, "own": 0, "fields": fields, "hashable": False})
        rk = {"data": "RkData", "data_slots": "RkData", "named": "RkNamed", "typed": "RkTyped"}[kind]
        return ("ARecord", (rk,), N(cid), afields)

    # values ------------------------------------------------------------
    def value(self, a, depth: int = 4):
        rng = self.rng
        c = a[0]
        if c == "AScalar":
            return rng.choice(G.KIND_POOL[a[1][0]])
        if c == "ANone":
            return G.NONE
        if c == "AAny":
            return rng.choice(G.ATOMS_HASHABLE[:30])
        if c == "ANakedList":
            return ("VList", [rng.choice(G.ATOMS_HASHABLE[:20]) for _ in range(rng.choice([0, 1, 2]))])
        if c == "ANakedSet":
            return ("VSet", rng.sample(G.INTS[:6], rng.choice([0, 1, 2])))
        if c == "ANakedTuple":
            return ("VTuple", [rng.choice(G.ATOMS_HASHABLE[:20]) for _ in range(rng.choice([0, 1, 2]))])
        if c == "ANakedDict":
            return ("VDict", [P(S("k"), I(1))] if rng.random() < 0.5 else [])
        if c in ("AList", "ATupleU"):
            xs = [self.value(a[1], depth - 1) for _ in range(rng.choice([0, 1, 2, 3]))]
            return ("VList" if c == "AList" else "VTuple", xs)
        if c == "ASet":
            xs = []
            for _ in range(rng.choice([0, 1, 2, 3])):
                v = self.value(a[1], depth - 1)
                if all(not py_equal(v, w) for w in xs):
                    xs.append(v)
            return ("VSet", xs)
        if c == "ADict":
            kvs = []
            for _ in range(rng.choice([0, 1, 2])):
                k = self.value(a[1], depth - 1)
                if all(not py_equal(k, p.a) for p in kvs):
                    kvs.append(P(k, self.value(a[2], depth - 1)))
            return ("VDict", kvs)
        if c == "ATupleN":
            return ("VTuple", [self.value(x, depth - 1) for x in a[1]])
        if c == "AUnion":
            return self.value(rng.choice(a[1]), depth - 1)
        if c == "AMaybe":
            return ("VNothing",) if rng.random() < 0.4 else ("VJust", self.value(a[1], depth - 1))
        if c == "ALiteral":
            return rng.choice(a[1])
        if c == "AAnnotated":
            return G.valid_input(a[2].x, rng, []) if rng.random() < 0.7 else self.value(a[1], depth - 1)
        if c == "AQual":
            return self.value(a[1], depth - 1)
        if c == "ARecord":
            d = self.classes[a[2].k]
            if a[1][0] == "RkTyped":
                return ("VDict", [P(p.a, self.value(p.b.a, depth - 1)) for p in a[3] if p.b.b or rng.random() < 0.5])
            return ("VObj", a[2], [P(p.a, self.value(p.b.a, depth - 1)) for p in a[3]])
        if c == "AClass":
            return ("VObj", a[1], [])
        raise HarnessError(f"value {a!r}")


def py_equal(a, b) -> bool:
    try:
        return to_py(a, None) == to_py(b, None)
    except Exception:
        return a == b


def ann_to_py(a, ct) -> Any:
    c = a[0]
    if c == "AScalar":
        return SCALAR_PY[a[1][0]]
    if c == "ANone":
        return None
    if c == "AAny":
        return Any
    if c == "ANakedList":
        return typing.List if hash(repr(a)) % 2 else list
    if c == "ANakedSet":
        return set
    if c == "ANakedTuple":
        return tuple
    if c == "ANakedDict":
        return dict
    if c == "AList":
        return typing.List[ann_to_py(a[1], ct)]
    if c == "ASet":
        return typing.Set[ann_to_py(a[1], ct)]
    if c == "ADict":
        return typing.Dict[ann_to_py(a[1], ct), ann_to_py(a[2], ct)]
    if c == "ATupleU":
        return typing.Tuple[ann_to_py(a[1], ct), ...]
    if c == "ATupleN":
        return typing.Tuple[tuple(ann_to_py(x, ct) for x in a[1])]
    if c == "AUnion":
        parts = [ann_to_py(x, ct) for x in a[1]]
        if len(parts) >= 2 and len(repr(a)) % 2:
            r = parts[0]
            try:
                for p in parts[1:]:
                    r = r | p                      # the PEP 604 spelling
                return r
            except TypeError:
                pass
        return typing.Union[tuple(parts)]
    if c == "AMaybe":
        return Maybe[ann_to_py(a[1], ct)]
    if c == "ALiteral":
        return typing.Literal[tuple(to_py(v, ct) for v in a[1])]
    if c == "AAnnotated":
        raise HarnessError("Annotated needs the context")     # handled in Built
    if c == "AQual":
        raise HarnessError("qualifier outside a TypedDict")
    if c in ("ARecord", "AClass"):
        return ct.classes[(a[2] if c == "ARecord" else a[1]).k]
    raise HarnessError(f"ann_to_py {a!r}")


class Built:
    """One case: annotation -> Python type (classes built on the way) -> derived validator -> its term."""

    def __init__(self, classes: List[dict], a, sig: bool, rng=None):
        self.ctx = None
        self.sig = sig
        self.a = a
        descs = []
        for d in classes:
            if any(isinstance(f[1], tuple) for f in d.get("fields", [])):
                d = {**d, "fields": [(f[0], AnnRef(self, f[1]) if isinstance(f[1], tuple) else f[1], f[2], f[3]) for f in d["fields"]]}
            descs.append(d)
        self.descs = descs
        self.pending: List[Tuple[Any, Any]] = []
        B.ANN_RESOLVER[0] = lambda ref, ct: ref.owner.to_py(ref.term, ct)
        try:
            # typing caches parametrised aliases by *set-equal* arguments: List[Literal[None, b"a"]] would come back
            # as an earlier List[Literal[b"a", None]] (same for unions) - start every case from empty caches
            for clear in getattr(typing, "_cleanups", []):
                clear()
            self.ctx = Ctx(descs, [], rng)
            self.ct = self.ctx.ct
            self.T = self.to_py(a, self.ct)
        except HarnessError:
            raise
        except Exception as e:  # typing itself refuses the annotation (unhashable metadata inside a Union, ...)
            raise HarnessError(f"annotation cannot be constructed: {e!r}")
        resolver = resolve_signature_typehint_default if sig else get_typehint_validator
        self.vobj = resolver(self.T)
        self.vterm = self.obj_term(self.vobj)

    def to_py(self, a, ct):
        if a[0] == "AAnnotated":
            base = self.to_py(a[1], ct)
            if a[2] is None:
                return typing.Annotated[base, "metadata"]
            vo = Ctx.validator(self.ctx, a[2].x) if self.ctx is not None else None
            if vo is None:
                raise HarnessError("Annotated validator inside a class field is not supported by the harness")
            return typing.Annotated[base, "doc", vo]
        if a[0] == "AQual":
            return self.to_py(a[1], ct)       # Required / NotRequired are added by the TypedDict builder
        if a[0] in ("AList", "ASet", "ATupleU", "AMaybe"):
            inner = self.to_py(a[1], ct)
            return {"AList": typing.List, "ASet": typing.Set}[a[0]][inner] if a[0] in ("AList", "ASet") else (
                typing.Tuple[inner, ...] if a[0] == "ATupleU" else Maybe[inner])
        if a[0] == "ADict":
            return typing.Dict[self.to_py(a[1], ct), self.to_py(a[2], ct)]
        if a[0] == "ATupleN":
            return typing.Tuple[tuple(self.to_py(x, ct) for x in a[1])]
        if a[0] == "AUnion":
            parts = [self.to_py(x, ct) for x in a[1]]
            if len(repr(a)) % 2:
                try:
                    r = parts[0]
                    for p in parts[1:]:
                        r = r | p
                    return r
                except TypeError:
                    pass
            return typing.Union[tuple(parts)]
        return ann_to_py(a, ct)

    # the derived object as a validator term (and registered for `who`)
    def obj_term(self, o: Any):
        t = self._obj_term(o)
        self.ctx.reg(o, t)
        return t

    def coercer(self, co: Any):
        from koda_validate.decimal import coerce_decimal
        from koda_validate.time import coerce_date, coerce_datetime
        from koda_validate.tuple import tuple_or_list_to_tuple
        from koda_validate.uuid import coerce_uuid
        if co is None:
            return None
        table = [(coerce_decimal, "CoDecimal"), (coerce_uuid, "CoUuid"), (coerce_date, "CoDate"),
                 (coerce_datetime, "CoDatetime"), (tuple_or_list_to_tuple, "CoTupleOrList")]
        for f, n in table:
            if co is f:
                return Some((n,))
        if isinstance(co, Coercer) and len(co.compatible_types) == 1:
            cls = next(iter(co.compatible_types))
            if cls in self.ct.ids:
                d = self.ct.descs[self.ct.ids[cls]]
                return Some(("CoDataclassNoCoerce" if d["kind"].startswith("data") else "CoNamedTupleNoCoerce", N(self.ct.ids[cls])))
        raise HarnessError(f"unknown coercer {co!r}")

    def _obj_term(self, o: Any):
        tp = type(o)
        known = self.ctx.objmap.get(id(o))
        if known is not None and tp not in (NoneValidator, AlwaysValid):
            return known
        scalars = {StringValidator: "KStr", IntValidator: "KInt", FloatValidator: "KFloat", BoolValidator: "KBool",
                   BytesValidator: "KBytes", DecimalValidator: "KDecimal", UUIDValidator: "KUuid", DateValidator: "KDate",
                   DatetimeValidator: "KDatetime"}
        if tp in scalars or tp is TypeValidator:
            k = (scalars[tp],) if tp in scalars else ("KType", B.pytype_from_py(o._TYPE, self.ct))
            if o.preprocessors or o.predicates_async:
                raise HarnessError("derived scalar with processors")
            ps = []
            for p in o.predicates:
                pt = self.ctx.pred_term(p)
                self.ctx.reg(p, ("PRSync", pt))
                ps.append(pt)
            return ("Scalar", k, self.coercer(o.coerce), [], ps, [])
        if tp is NoneValidator:
            return ("NoneV", self.coercer(o.coerce))
        if tp is AlwaysValid:
            return ("AlwaysValid",)
        if tp in (ListValidator, SetValidator, UniformTupleValidator):
            if o.predicates or o.predicates_async:
                raise HarnessError("derived collection with predicates")
            n = {ListValidator: "ListV", SetValidator: "SetV", UniformTupleValidator: "UTupleV"}[tp]
            return (n, self.obj_term(o.item_validator), [], [], self.coercer(o.coerce))
        if tp is NTupleValidator:
            if o.validate_object is not None:
                raise HarnessError("derived ntuple with validate_object")
            return ("NTupleV", [self.obj_term(f) for f in o.fields], None, self.coercer(o.coerce))
        if tp is MapValidator:
            return ("MapV", self.obj_term(o.key_validator), self.obj_term(o.value_validator), [], [], self.coercer(o.coerce))
        if tp is UnionValidator:
            return ("UnionV", [self.obj_term(v) for v in o.validators])
        if tp is MaybeValidator:
            return ("MaybeV", self.obj_term(o.validator))
        if tp is EqualsValidator:
            if o.preprocessors:
                raise HarnessError("derived equals with processors")
            return ("EqualsV", from_py(o.match, self.ct), [])
        if tp in (DataclassValidator, NamedTupleValidator, TypedDictValidator):
            cls = {DataclassValidator: lambda: o.data_cls, NamedTupleValidator: lambda: o.named_tuple_cls,
                   TypedDictValidator: lambda: o.td_cls}[tp]()
            rk = {DataclassValidator: "RkData", NamedTupleValidator: "RkNamed", TypedDictValidator: "RkTyped"}[tp]
            if o.validate_object is not None or o.validate_object_async is not None:
                raise HarnessError("derived record with validate_object")
            req = set(o.required_fields) if tp is not TypedDictValidator else set(o.required_keys)
            schema = [P(vstr(k), P(self.obj_term(v), k in req)) for k, v in o.schema.items()]
            return ("ClassV", (rk,), N(self.ct.ids[cls]), schema, None, None, bool(o.fail_on_unknown_keys), self.coercer(o.coerce))
        raise HarnessError(f"obj_term: {o!r}")


class AnnRef:
    def __init__(self, owner, term):
        self.owner, self.term = owner, term


# ------------------------------------------------------------------ the type oracle (independent of validators)
TRUST_DEFAULTS = [False]     # judging a *payload*: a field holding the class's declared default object is taken on trust


def _is_declared_default(cls: Any, name: str, val: Any) -> bool:
    if hasattr(cls, "_field_defaults"):
        return name in cls._field_defaults and cls._field_defaults[name] is val
    f = getattr(cls, "__dataclass_fields__", {}).get(name)
    if f is None:
        return False
    if f.default is not dataclasses.MISSING:
        return f.default is val
    if f.default_factory is not dataclasses.MISSING:      # a fresh object per instance: what the factory makes
        made = f.default_factory()
        return type(made) is type(val) and made == val
    return False


def is_value(a, x: Any, b: Built, extra_ok: bool = False) -> bool:
    """extra_ok: a TypedDict value may carry undeclared keys (the structural reading used for strictness)."""
    if extra_ok:
        return is_value_lenient(a, x, b)
    c = a[0]
    ct = b.ct
    if c == "AScalar":
        return type(x) is SCALAR_PY[a[1][0]]
    if c == "ANone":
        return x is None
    if c == "AAny":
        return True
    if c in ("ANakedList", "ANakedSet", "ANakedTuple", "ANakedDict"):
        return type(x) is {"ANakedList": list, "ANakedSet": set, "ANakedTuple": tuple, "ANakedDict": dict}[c]
    if c == "AList":
        return type(x) is list and all(is_value(a[1], i, b) for i in x)
    if c == "ASet":
        return type(x) is set and all(is_value(a[1], i, b) for i in x)
    if c == "ADict":
        return type(x) is dict and all(is_value(a[1], k, b) and is_value(a[2], v, b) for k, v in x.items())
    if c == "ATupleU":
        return type(x) is tuple and all(is_value(a[1], i, b) for i in x)
    if c == "ATupleN":
        return type(x) is tuple and len(x) == len(a[1]) and all(is_value(t, i, b) for t, i in zip(a[1], x))
    if c == "AUnion":
        return any(is_value(t, x, b) for t in a[1])
    if c == "AMaybe":
        return x is nothing or (type(x) is Just and is_value(a[1], x.val, b))
    if c == "ALiteral":
        return any(type(x) is type(l) and x == l for l in (to_py(v, ct) for v in a[1]))
    if c in ("AAnnotated", "AQual"):
        return is_value(a[1], x, b)
    if c == "ARecord":
        cls = ct.classes[a[2].k]
        if a[1][0] == "RkTyped":
            if type(x) is not dict:
                return False
            decl = {to_py(p.a, ct): p.b for p in a[3]}
            return all(k in decl and is_value(decl[k].a, v, b) for k, v in x.items()) and \
                all(k in x for k, f in decl.items() if f.b)
        if type(x) is not cls:
            return False
        return all(is_value(p.b.a, getattr(x, to_py(p.a, ct)), b) or
                   (TRUST_DEFAULTS[0] and _is_declared_default(cls, to_py(p.a, ct), getattr(x, to_py(p.a, ct)))) for p in a[3])
    if c == "AClass":
        return type(x) is ct.classes[a[1].k]
    raise HarnessError(f"is_value {a!r}")


def is_value_lenient(a, x: Any, b: Built) -> bool:
    c = a[0]
    if c == "ARecord" and a[1][0] == "RkTyped":
        if type(x) is not dict:
            return False
        decl = {to_py(p.a, b.ct): p.b for p in a[3]}
        return all(is_value_lenient(decl[k].a, v, b) for k, v in x.items() if k in decl) and all(k in x for k, f in decl.items() if f.b)
    if c == "ARecord":
        return type(x) is b.ct.classes[a[2].k] and all(is_value_lenient(p.b.a, getattr(x, to_py(p.a, b.ct)), b) for p in a[3])
    if c in ("AList", "ASet", "ATupleU"):
        return type(x) is {"AList": list, "ASet": set, "ATupleU": tuple}[c] and all(is_value_lenient(a[1], i, b) for i in x)
    if c == "ADict":
        return type(x) is dict and all(is_value_lenient(a[1], k, b) and is_value_lenient(a[2], v, b) for k, v in x.items())
    if c == "ATupleN":
        return type(x) is tuple and len(x) == len(a[1]) and all(is_value_lenient(t, i, b) for t, i in zip(a[1], x))
    if c == "AUnion":
        return any(is_value_lenient(t, x, b) for t in a[1])
    if c == "AMaybe":
        return x is nothing or (type(x) is Just and is_value_lenient(a[1], x.val, b))
    if c in ("AAnnotated", "AQual"):
        return is_value_lenient(a[1], x, b)
    return is_value(a, x, b)


def deep_same(a: Any, b: Any) -> bool:
    """Equal and of the same types all the way down (containers and records may be copies)."""
    if type(a) is not type(b):
        return False
    if type(a) in (list, tuple):
        return len(a) == len(b) and all(deep_same(x, y) for x, y in zip(a, b))
    if type(a) is dict:
        return list(a.keys()) == list(b.keys()) and all(deep_same(a[k], b[k]) for k in a) if len(a) == len(b) and set(map(repr, a)) == set(map(repr, b)) else False
    if type(a) is set:
        return len(a) == len(b) and all(any(deep_same(x, y) for y in b) for x in a)
    if type(a) is Just:
        return deep_same(a.val, b.val)
    if dataclasses.is_dataclass(a) and not isinstance(a, type):
        return all(deep_same(getattr(a, f.name), getattr(b, f.name)) for f in dataclasses.fields(a))
    if isinstance(a, tuple):
        return len(a) == len(b) and all(deep_same(x, y) for x, y in zip(a, b))
    try:
        return a == b or (a != a and b != b)
    except Exception:
        return repr(a) == repr(b)


def uses_annotated(a) -> bool:
    if isinstance(a, tuple):
        return (a and a[0] == "AAnnotated") or any(uses_annotated(x) for x in a[1:])
    if isinstance(a, list):
        return any(uses_annotated(x) for x in a)
    if isinstance(a, P):
        return uses_annotated(a.a) or uses_annotated(a.b)
    if isinstance(a, Some):
        return uses_annotated(a.x)
    return False


# ------------------------------------------------------------------ cases
class TCase:
    def __init__(self, classes, a, x, sig: bool, tag: str):
        self.classes, self.a, self.x, self.sig, self.tag = classes, a, x, sig, tag
        self.mode = "sync"

    def to_json(self) -> dict:
        return {"classes": [{**d, "fields": [[f[0], to_json(f[1]) if isinstance(f[1], tuple) else None,
                                              to_json(f[2]) if f[2] is not None else None, f[3]] for f in d.get("fields", [])]}
                            for d in self.classes[NCLS:]],
                "a": to_json(self.a), "x": to_json(self.x), "sig": self.sig, "tag": self.tag}


def tcase_from_json(j: dict) -> TCase:
    extra = [{**d, "fields": [(f[0], from_json(f[1]) if f[1] is not None else None,
                               from_json(f[2]) if f[2] is not None else None, f[3]) for f in d.get("fields", [])]}
             for d in j["classes"]]
    return TCase(list(G.STD_CLASSES) + extra, from_json(j["a"]), from_json(j["x"]), j["sig"], j.get("tag", ""))


def observe(c: TCase, rng=None) -> None:
    try:
        b = Built(c.classes, c.a, c.sig, rng)
    except HarnessError:
        raise
    except RecursionError:
        raise HarnessError("recursion")
    except Exception as e:  # noqa
        c.derive_exc = e
        raise HarnessError(f"derivation raised {e!r}")
    c.b = b
    c.ct = b.ct
    c.px = to_py(c.x, b.ct)
    c.x_seen = from_py(c.px, b.ct)
    U.reset_logs()
    c.raw = c.exc = None
    try:
        c.raw = b.vobj(c.px)
    except BaseException as e:  # noqa
        c.exc = e
    c.re_log, c.email_log = list(U.RE_LOG), list(U.EMAIL_LOG)
    if c.exc is not None:
        c.obs = ("OAssert",) if type(c.exc) is AssertionError else ("ORaise", exn_term(c.exc))
    else:
        c.obs = b.ctx.result(c.raw)
    c.typed = is_value(c.a, c.px, b)


def coercible_in_union(a, inside: bool = False) -> bool:
    """A union with a variant that coerces look-alikes (records from dicts, Decimal / UUID / dates from
    strings, tuples from lists): an earlier such variant may claim a value of a later variant."""
    c = a[0]
    if c == "AUnion":
        return any(coercible_in_union(x, True) for x in a[1])
    if inside and (c == "ARecord" or c in ("ATupleU", "ATupleN", "ANakedTuple")
                   or (c == "AScalar" and a[1][0] in ("KDecimal", "KUuid", "KDate", "KDatetime"))):
        return True
    if c in ("AList", "ASet", "ATupleU", "AMaybe", "AQual", "AAnnotated"):
        return coercible_in_union(a[1], inside)
    if c == "ADict":
        return coercible_in_union(a[1], inside) or coercible_in_union(a[2], inside)
    if c == "ATupleN":
        return any(coercible_in_union(x, inside) for x in a[1])
    if c == "ARecord":
        return any(coercible_in_union(p.b.a, inside) for p in a[3])
    return False


def typeddict_in_union(a, inside: bool = False) -> bool:
    """A union with a TypedDict variant: it accepts dicts with undeclared keys and returns them stripped, so an
    earlier TypedDict variant may claim (and strip) a value of a later dict-shaped variant (recorded under C09)."""
    c = a[0]
    if c == "AUnion":
        return any(typeddict_in_union(x, True) for x in a[1])
    if c == "ARecord":
        return (inside and a[1][0] == "RkTyped") or any(typeddict_in_union(p.b.a, inside) for p in a[3])
    if c in ("AList", "ASet", "ATupleU", "AMaybe", "AQual", "AAnnotated"):
        return typeddict_in_union(a[1], inside)
    if c == "ADict":
        return typeddict_in_union(a[1], inside) or typeddict_in_union(a[2], inside)
    if c == "ATupleN":
        return any(typeddict_in_union(x, inside) for x in a[1])
    return False


def classify_exc(exc: BaseException) -> str:
    """A coerced member that cannot be hashed into the payload set / dict (Decimal('sNaN')) is its own class."""
    import traceback
    tb = traceback.extract_tb(exc.__traceback__)
    frames = [f for f in tb if "/koda_validate/" in f.filename]
    line = (frames[-1].line or "") if frames else ""
    if isinstance(exc, TypeError) and "Cannot hash a signaling NaN" in str(exc) and (
            "return_set.add" in line or "return_dict[" in line or "success_dict[" in line):
        return "unhashable-coerced-payload"
    return type(exc).__name__


WITNESSES = {
    # Union[Set[Decimal], Set[str]] on {"sNaN"}: a Set[str], yet the Decimal variant raises before the str variant is tried
    "union_set_decimal_snan": (("AUnion", [("ASet", ("AScalar", ("KDecimal",))), ("ASet", ("AScalar", ("KStr",)))]),
                               ("VSet", [S("sNaN")]), False),
}


def probe_known(k: dict) -> bool:
    w = WITNESSES.get(k.get("witness"))
    if w is None:
        return False
    a, x, sig = w
    c = TCase(list(G.STD_CLASSES), a, x, sig, "witness")
    try:
        observe(c, random.Random(0))
    except Exception:  # noqa
        return False
    r = oracle(c)
    return bool(r) and r["signature"] == k["signature"]


def oracle(c: TCase) -> Optional[dict]:
    if c.exc is not None:
        if uses_annotated(c.a):
            return None
        return {"signature": f"C07:raised:{classify_exc(c.exc)}", "what": f"the derived validator raised {c.exc!r}"}
    b = c.b
    if type(c.raw) is Valid:
        TRUST_DEFAULTS[0] = True       # "a declared default is then used as is, on trust"
        try:
            sound = uses_annotated(c.a) or is_value(c.a, c.raw.val, b)
        finally:
            TRUST_DEFAULTS[0] = False
        if not sound:
            return {"signature": "C07:unsound", "what": f"Valid({c.raw.val!r}) is not a value of the annotated type"}
    if c.tag == "untyped-default":
        # "keys with defaults ... may be absent (a declared default is then used as is, on trust)"
        rec_a, x0, got0 = (c.a, c.px, c.raw) if c.a[0] == "ARecord" else (c.a[1], c.px[0], c.raw)
        if type(x0) is dict and type(x0.get("name")) is str and "extra" not in x0:
            cls = b.ct.classes[rec_a[2].k]
            val = got0.val if type(got0) is Valid else None
            inst = val if c.a[0] == "ARecord" else (val[0] if type(val) is list and len(val) == 1 else None)
            if type(inst) is not cls or not _is_declared_default(cls, "extra", getattr(inst, "extra", None)):
                return {"signature": "C07:default-not-on-trust",
                        "what": f"{x0!r} omits the defaulted field 'extra' of {cls.__name__}: expected an instance holding the declared default as it is, got {c.raw!r:.300}"}
    if c.typed:
        if type(c.raw) is not Valid:
            if uses_annotated(c.a):
                return None
            return {"signature": "C07:incomplete", "what": f"{c.px!r} is a value of the annotated type but was rejected: {c.raw!r:.300}"}
        if not deep_same(c.raw.val, c.px) and not uses_annotated(c.a) and ((c.sig and not typeddict_in_union(c.a)) or not coercible_in_union(c.a)):
            return {"signature": "C07:payload-differs", "what": f"a conforming value came back changed: {c.px!r} -> {c.raw.val!r}"}
    if c.sig and type(c.raw) is Valid and not uses_annotated(c.a) and not is_value(c.a, c.px, b, extra_ok=True):
        return {"signature": "C07:signature-mode-coerced", "what": f"signature mode accepted {c.px!r}, which is not a value of the annotated type"}
    return None


def corrupt_value(x, rng: random.Random, g: Gen):
    """Change one position: another atom, a look-alike, a missing / extra member."""
    paths: list = []

    def walk(t, path):
        paths.append(path)
        if t[0] in ("VList", "VTuple", "VSet"):
            for i, y in enumerate(t[1]):
                walk(y, path + [i])
        elif t[0] == "VDict":
            for i, p in enumerate(t[1]):
                walk(p.b, path + [i])
        elif t[0] == "VObj":
            for i, p in enumerate(t[2]):
                walk(p.b, path + [i])
        elif t[0] == "VJust":
            walk(t[1], path + [0])
    walk(x, [])
    target = rng.choice(paths)
    LOOK = [S("1.5"), S("12"), S("2020-01-02"), S("12345678-1234-5678-1234-567812345678"), I(1), G.TRUE, G.F1, G.NONE,
            G.D1, ("VList", [I(1)]), ("VTuple", [I(1)]), ("VDict", [P(S("a"), I(1))]), G.STRSUB, G.INTSUB, S("a")]

    TYPED_LOOK = {"VDecimal": [S("1.5"), I(1), G.F15], "VUuid": [S("12345678-1234-5678-1234-567812345678")],
                  "VDate": [S("2020-01-02"), G.DT1], "VDatetime": [S("2020-01-02T03:04:05"), G.DATE1],
                  "VInt": [G.TRUE, G.F1, S("1")], "VFloat": [I(1), S("1.5")], "VBool": [I(1), I(0)], "VStr": [G.B(b"a"), G.STRSUB],
                  "VBytes": [S("a")]}

    def edit(t):
        r = rng.random()
        if t[0] in TYPED_LOOK and rng.random() < 0.6:
            return rng.choice(TYPED_LOOK[t[0]])        # the coercible look-alike of this very value
        if t[0] in ("VList", "VTuple") and r < 0.4:
            xs = list(t[1])
            if xs and rng.random() < 0.5:
                xs.pop()
            else:
                xs.append(rng.choice(LOOK))
            return (t[0], xs)
        if t[0] in ("VList", "VTuple") and r < 0.55:
            return ("VTuple" if t[0] == "VList" else "VList", t[1])        # the look-alike container
        if t[0] == "VDict" and r < 0.5:
            kvs = list(t[1])
            if kvs and rng.random() < 0.5:
                kvs.pop(rng.randrange(len(kvs)))
            else:
                kvs.append(P(S("zz"), rng.choice(LOOK)))
            return ("VDict", kvs)
        if t[0] == "VObj" and t[1].k in g.subs and r < 0.5:
            return ("VObj", N(g.subs[t[1].k]), t[2])                         # an instance of a subclass
        if t[0] == "VObj" and r < 0.75:
            return ("VDict", t[2])                                           # a dict shaped like the record
        return rng.choice(LOOK)

    def rebuild(t, path):
        if not path:
            return edit(t)
        i = path[0]
        if t[0] in ("VList", "VTuple", "VSet"):
            xs = list(t[1])
            xs[i] = rebuild(xs[i], path[1:])
            return (t[0], xs)
        if t[0] == "VDict":
            kvs = list(t[1])
            kvs[i] = P(kvs[i].a, rebuild(kvs[i].b, path[1:]))
            return ("VDict", kvs)
        if t[0] == "VObj":
            kvs = list(t[2])
            kvs[i] = P(kvs[i].a, rebuild(kvs[i].b, path[1:]))
            return ("VObj", t[1], kvs)
        return ("VJust", rebuild(t[1], path[1:]))
    return rebuild(x, target)


LOOKALIKE = {"KDecimal": [S("1.5"), I(1)], "KUuid": [S("12345678-1234-5678-1234-567812345678")],
             "KDate": [S("2020-01-02")], "KDatetime": [S("2020-01-02T03:04:05")]}


def gen_lookalike_case(rng: random.Random, sig: bool) -> Optional[TCase]:
    """A record (possibly nested in a list / Optional / another record) whose fields are coercible types, with
    exactly one field holding the coercible look-alike of a conforming value."""
    g = Gen(rng)
    names = rng.sample(["a", "b", "c"], rng.choice([1, 2, 3]))
    kind = rng.choice(["typed", "data", "named"])
    fields, afields = [], []
    for nm in names:
        r = rng.random()
        if r < 0.7:
            a = ("AScalar", (rng.choice(list(LOOKALIKE)),))
        elif r < 0.85:
            a = ("ATupleU", ("AScalar", ("KInt",)))
        else:
            a = ("AList", ("AScalar", (rng.choice(list(LOOKALIKE)),)))
        fields.append((nm, a, None, True))
        afields.append(P(S(nm), P(a, True)))
    cid = len(g.classes)
    g.classes.append({"kind": kind, "fields": fields, "total": True, "hashable": False})
    rk = {"data": "RkData", "named": "RkNamed", "typed": "RkTyped"}[kind]
    rec = ("ARecord", (rk,), N(cid), afields)
    x = g.value(rec)
    # one field gets the look-alike
    i = rng.randrange(len(names))
    fa = fields[i][1]
    ents = list(x[1] if rk == "RkTyped" else x[2])
    old = ents[i].b
    if fa[0] == "AScalar":
        new = rng.choice(LOOKALIKE[fa[1][0]])
    elif fa[0] == "ATupleU":
        new = ("VList", old[1])
    else:
        new = ("VList", [rng.choice(LOOKALIKE[fa[1][1][0]])] + list(old[1]))
    ents[i] = P(ents[i].a, new)
    x2 = ("VDict", ents) if rk == "RkTyped" else ("VObj", N(cid), ents)
    a = rec
    r = rng.random()
    if r < 0.3:
        a, x2 = ("AList", rec), ("VList", [x2])
    elif r < 0.5:
        a = ("AUnion", [rec, ("ANone",)])
    if rk != "RkTyped":
        # the instance cannot be built with a wrongly typed field through the class? it can: dataclasses do not check
        pass
    return TCase(g.classes, a, x2, sig, "lookalike")


def literal_cases(rng: random.Random) -> List[TCase]:
    """Literal annotations whose members are equal across kinds (0 / False, 1 / True) or alike ("a" / b"a"),
    in every written order, against every such value - bare and nested."""
    import itertools
    out: List[TCase] = []
    groups = [[I(0), G.FALSE], [I(1), G.TRUE], [I(1), G.TRUE, I(2)], [I(0), G.TRUE], [S("a"), G.B(b"a")], [I(0), G.FALSE, G.NONE],
              [S(""), G.B(b""), G.NONE], [I(1), I(2)], [G.TRUE, G.FALSE]]
    values = [I(0), I(1), I(2), G.TRUE, G.FALSE, G.NONE, S("a"), S(""), G.B(b"a"), G.B(b""), G.F1, G.F0]
    g = Gen(rng)
    for grp in groups:
        for perm in itertools.permutations(grp):
            lit = ("ALiteral", B.sorted_terms(list(perm)) if len({v[0] for v in perm}) == 1 else list(perm))
            for a, wrap in ((lit, lambda v: v), (("AList", lit), lambda v: ("VList", [v])),
                            (("AUnion", [lit, ("AScalar", ("KStr",))]), lambda v: v)):
                for x in values:
                    out.append(TCase(g.classes, a, wrap(x), rng.random() < 0.5, "literal"))
    return out


def wrapper_cases(rng: random.Random) -> List[TCase]:
    """Maybe / Optional / containers around annotations whose validators coerce in default mode: the payload
    holds the coerced value (Just(Decimal), not Just("1.5")) - and in signature mode the look-alike is rejected."""
    out: List[TCase] = []
    g = Gen(rng)
    sc = lambda k: ("AScalar", (k,))
    pairs = [(sc("KDecimal"), [S("1.5"), I(3), G.D1]), (sc("KDate"), [S("2020-01-02"), G.DATE1]),
             (sc("KUuid"), [S("12345678-1234-5678-1234-567812345678"), G.UUID1]),
             (sc("KDatetime"), [S("2020-01-02T03:04:05"), G.DT1]),
             (("ATupleN", [sc("KInt"), sc("KInt")]), [("VList", [I(1), I(2)]), ("VTuple", [I(1), I(2)])]),
             (("ATupleU", sc("KDecimal")), [("VList", [S("1.5")]), ("VTuple", [G.D1])])]
    for inner, xs in pairs:
        for x in xs:
            for a, wrap in ((("AMaybe", inner), lambda v: ("VJust", v)), (("AUnion", [inner, ("ANone",)]), lambda v: v),
                            (("AList", ("AMaybe", inner)), lambda v: ("VList", [("VJust", v)])),
                            (("ADict", sc("KStr"), ("AMaybe", inner)), lambda v: ("VDict", [P(S("k"), ("VJust", v))]))):
                for sig in (False, True):
                    out.append(TCase(g.classes, a, wrap(x), sig, "wrapper"))
    # dict / list / tuple annotations inside Optional / Union whose contents get coerced: the payload is the
    # variant's payload, not the raw argument
    for inner, xs in pairs[:4]:
        for x in xs:
            for a, wx in ((("AUnion", [("ADict", sc("KStr"), inner), ("ANone",)]), ("VDict", [P(S("k"), x)])),
                          (("AUnion", [("ANone",), ("ADict", inner, sc("KInt"))]), ("VDict", [P(x, I(1))])),
                          (("AUnion", [("AList", inner), sc("KStr")]), ("VList", [x])),
                          (("AUnion", [sc("KInt"), ("ATupleU", inner)]), ("VList", [x])),
                          (("AList", ("AUnion", [("ADict", sc("KStr"), ("AList", inner)), ("ANone",)])), ("VList", [("VDict", [P(S("k"), ("VList", [x]))])]))):
                for sig in (False, True):
                    out.append(TCase(g.classes, a, wx, sig, "wrapper"))
    return out


def naked_cases(rng: random.Random) -> List[TCase]:
    """Container annotations that say nothing about their contents (dict, Dict, Dict[Any, Any], list, List[Any], set,
    tuple, Tuple[Any, ...]): the value must still be exactly that container - subclasses of it, other containers and
    scalars are not - bare, under Optional, inside a list and inside a dict value; both resolution modes."""
    out: List[TCase] = []
    g = Gen(rng)
    anys = [("ANakedDict",), ("ADict", ("AAny",), ("AAny",)), ("ANakedList",), ("AList", ("AAny",)), ("ANakedSet",), ("ASet", ("AAny",)),
            ("ANakedTuple",), ("ATupleU", ("AAny",))]
    xs = [("VDict", []), ("VDict", [P(S("k"), I(1))]), G.DICTSUB, ("VSub", N(G.C_DICT), ("VDict", [])), ("VList", []), ("VList", [I(1), S("a")]), G.LISTSUB,
          ("VSet", []), ("VSet", [I(1)]), ("VTuple", []), ("VTuple", [I(1), S("a")]), G.NONE, I(1), S("ab"), G.STRSUB, G.OBJ]
    for a in anys:
        for x in xs:
            for aa, wx in ((a, x), (("AUnion", [a, ("ANone",)]), x), (("AList", a), ("VList", [x])),
                           (("ADict", ("AScalar", ("KStr",)), a), ("VDict", [P(S("k"), x)]))):
                for sig in (False, True):
                    out.append(TCase(g.classes, aa, wx, sig, "naked"))
    return out


def record_cases(rng: random.Random) -> List[TCase]:
    """Record classes whose requiredness / layout is not the plain one: TypedDicts of either totality with
    Required / NotRequired keys, dataclasses that inherit their first fields from a slots dataclass
    (such instances keep only their own fields in __dict__) - with complete, incomplete and over-complete values."""
    out: List[TCase] = []
    sc = lambda k: ("AScalar", (k,))
    base = list(G.STD_CLASSES)
    for total in (True, False):
        for reqs in ((True, True), (True, False), (False, True), (False, False)):
            names = ["p", "q"]
            fields = [(n, sc("KInt") if i == 0 else sc("KStr"), None, r) for i, (n, r) in enumerate(zip(names, reqs))]
            classes = base + [{"kind": "typed", "fields": fields, "total": total, "hashable": False}]
            cid = len(base)
            a = ("ARecord", ("RkTyped",), N(cid), [P(S(n), P(t, r)) for (n, t, _d, r) in fields])
            full = [P(S("p"), I(1)), P(S("q"), S("a"))]
            for kv in (full, full[:1], full[1:], [], full + [P(S("z"), I(0))], [P(S("p"), S("no")), P(S("q"), S("a"))]):
                for wrap_a, wrap_x in ((lambda t: t, lambda v: v), (lambda t: ("AList", t), lambda v: ("VList", [v])),
                                       (lambda t: ("AUnion", [t, ("ANone",)]), lambda v: v)):
                    for sig in (False, True):
                        out.append(TCase(classes, wrap_a(a), wrap_x(("VDict", kv)), sig, "records"))
    # plain dataclass C(a, b=5) whose field a lives in a slots base class
    for k_own in (0, 1):
        fields = [("a", sc("KInt"), None, True), ("b", sc("KInt"), I(5), False)]
        classes = base + [{"kind": "data_slots", "fields": fields[:2 - k_own] if k_own else fields, "hashable": False},
                          {"kind": "data", "base_cls": len(base), "own": k_own, "fields": fields, "hashable": False}]
        cid = len(base) + 1
        a = ("ARecord", ("RkData",), N(cid), [P(S(n), P(t, r)) for (n, t, _d, r) in fields])
        inst = ("VObj", N(cid), [P(S("a"), I(1)), P(S("b"), I(7))])
        bad = ("VObj", N(cid), [P(S("a"), S("x")), P(S("b"), I(7))])
        for x in (inst, bad, ("VDict", [P(S("a"), I(1))]), ("VObj", N(len(base)), [P(S("a"), I(1)), P(S("b"), I(7))][:2 - k_own] if k_own else [P(S("a"), I(1)), P(S("b"), I(7))])):
            for wrap_a, wrap_x in ((lambda t: t, lambda v: v), (lambda t: ("AList", t), lambda v: ("VList", [v]))):
                for sig in (False, True):
                    out.append(TCase(classes, wrap_a(a), wrap_x(x), sig, "records"))
    # unions and mixed-kind Literals of nine and ten members (no limit on the number of alternatives)
    nine = [sc(k) for k in ("KStr", "KInt", "KFloat", "KBool", "KBytes", "KDecimal", "KUuid", "KDate", "KDatetime")]
    for a_ in (("AUnion", nine), ("AUnion", nine + [("ANone",)]), ("AList", ("AUnion", nine)),
               ("ALiteral", [S("a"), I(1), G.TRUE, G.B(b"a"), G.NONE, S("b"), I(2), G.FALSE, G.B(b"b")]),
               ("ALiteral", [S("a"), I(1), G.TRUE, G.B(b"a"), G.NONE, S("b"), I(2), G.FALSE, G.B(b"b"), S("c")])):
        for x in (G.DT1, G.NONE, S("a"), I(2), G.B(b"b"), G.F1, ("VList", []), G.D1):
            xx = ("VList", [x]) if a_[0] == "AList" else x
            for sig in (False, True):
                out.append(TCase(base, a_, xx, sig, "records"))
    # unions of several arbitrary classes: an instance of any of them conforms
    ca, cb = ("AClass", N(G.C_PLAIN)), ("AClass", N(G.C_UNHASH))
    oa, ob = ("VObj", N(G.C_PLAIN), []), ("VObj", N(G.C_UNHASH), [])
    for a_ in (("AUnion", [ca, cb]), ("AUnion", [cb, ca, ("ANone",)]), ("AList", ("AUnion", [ca, cb])), ("AUnion", [ca, sc("KInt"), cb])):
        for x in (oa, ob, G.NONE, I(1), S("a")):
            xx = ("VList", [x, ob]) if a_[0] == "AList" else x
            for sig in (False, True):
                out.append(TCase(base, a_, xx, sig, "records"))
    # the tuple of no slots, Tuple[()]: only the empty tuple (and, in default mode, the empty list) - bare, as a
    # union variant, as a list item
    e_ = ("ATupleN", [])
    for a_, wrapx in ((e_, lambda v: v), (("AUnion", [e_, sc("KStr")]), lambda v: v), (("AList", e_), lambda v: ("VList", [v])),
                      (("ATupleN", [e_, sc("KInt")]), lambda v: ("VTuple", [v, I(1)]))):
        for x in (("VTuple", []), ("VTuple", [I(1), S("a")]), ("VList", []), ("VList", [I(1)]), S("a"), ("VTuple", [("VTuple", [])])):
            for sig in (False, True):
                out.append(TCase(base, a_, wrapx(x), sig, "records"))
    # declared defaults are used as they are, on trust - also when they would not pass their own field's validator
    # (None for an int, a str for a date, a list for a tuple): a mapping that omits the key is accepted
    for kind, rk in (("named", "RkNamed"), ("data", "RkData")):
        for fa, dflt in ((sc("KInt"), ("VNone",)), (sc("KDate"), S("2020-01-02")), (("ATupleU", sc("KStr")), ("VList", [])), (sc("KStr"), I(0))):
            fields = [("name", sc("KStr"), None, True), ("extra", fa, dflt, False)]
            classes = base + [{"kind": kind, "fields": fields, "total": True, "hashable": False}]
            cid = len(base)
            a = ("ARecord", (rk,), N(cid), [P(S(n), P(t, r)) for (n, t, _d, r) in fields])
            for x in (("VDict", [P(S("name"), S("bob"))]), ("VDict", [P(S("name"), S("bob")), P(S("extra"), dflt)]), ("VDict", [])):
                for wrap_a, wrap_x in ((lambda t: t, lambda v: v), (lambda t: ("AList", t), lambda v: ("VList", [v]))):
                    out.append(TCase(classes, wrap_a(a), wrap_x(x), False, "untyped-default"))
    # an instance of a subclass (same fields, and with a field of its own) is not a value of the annotated
    # dataclass under the exact-type reading - bare, as a field of another dataclass, in a list, under Optional
    fields = [("x", sc("KInt"), None, True), ("y", sc("KInt"), None, True)]
    for extra in (False, True):
        sub_fields = fields + ([("z", sc("KInt"), I(0), False)] if extra else [])
        classes = base + [{"kind": "data", "fields": fields, "hashable": False},
                          {"kind": "data", "base_cls": len(base), "own": 1 if extra else 0, "fields": sub_fields, "hashable": False}]
        pid, sid, oid = len(base), len(base) + 1, len(base) + 2
        pa = ("ARecord", ("RkData",), N(pid), [P(S(n), P(t, r)) for (n, t, _d, r) in fields])
        ofields = [("start", pa, None, True), ("end", pa, None, True)]
        classes = classes + [{"kind": "data", "fields": ofields, "hashable": False}]
        oa = ("ARecord", ("RkData",), N(oid), [P(S(n), P(t, r)) for (n, t, _d, r) in ofields])
        ents = [P(S("x"), I(1)), P(S("y"), I(2))]
        inst = ("VObj", N(pid), ents)
        sub = ("VObj", N(sid), ents + ([P(S("z"), I(3))] if extra else []))
        for x in (inst, sub):
            for a, xx in ((pa, x), (("AList", pa), ("VList", [inst, x])), (("AUnion", [pa, ("ANone",)]), x),
                          (oa, ("VObj", N(oid), [P(S("start"), inst), P(S("end"), x)]))):
                for sig in (False, True):
                    out.append(TCase(classes, a, xx, sig, "records"))
    return out


def gen_cases(rng: random.Random, n: int) -> List[TCase]:
    """The explicit families, a stream that is the same on every run (private generator: what it exhibits does not
    depend on how many draws the families above happen to consume), and n cases from the run's own seed."""
    out: List[TCase] = literal_cases(rng) + wrapper_cases(rng) + record_cases(rng) + naked_cases(rng)
    out += random_cases(random.Random(70907), 700)
    return out + random_cases(rng, n)


def random_cases(rng: random.Random, n: int) -> List[TCase]:
    out: List[TCase] = []
    while len(out) < n:
        g = Gen(rng)
        a = g.ann(rng.choice([0, 1, 1, 2, 2, 3]))
        sig = rng.random() < 0.35
        for _ in range(rng.choice([2, 3, 4])):
            try:
                x = g.value(a)
            except HarnessError:
                continue
            r = rng.random()
            tag = "conform"
            if r < 0.45:
                x, tag = corrupt_value(x, rng, g), "corrupt"
            elif r < 0.6:
                x, tag = rng.choice(G.HOSTILE), "arbitrary"
            out.append(TCase(g.classes, a, x, sig, tag))
        if rng.random() < 0.12:
            c = gen_lookalike_case(rng, rng.random() < 0.6)
            if c is not None:
                out.append(c)
    return out


def run(tier: str, rng: random.Random, proof_ok: bool) -> dict:
    t0 = time.time()
    n = 1200 if tier == "quick" else 40000
    if not proof_ok:
        n *= 2
    cases = gen_cases(rng, n)
    good: List[TCase] = []
    herr = 0
    herr_first = ""
    violations: List[dict] = []
    seen: set = set()
    for c in cases:
        try:
            observe(c, rng)
            good.append(c)
        except HarnessError as e:
            herr += 1
            herr_first = herr_first or str(e)
            if getattr(c, "derive_exc", None) is not None and "C07:derivation-raised" not in seen:
                seen.add("C07:derivation-raised")
                violations.append({"kind": "oracle", "signature": "C07:derivation-raised",
                                   "what": f"deriving a validator for a supported annotation raised {c.derive_exc!r}", "replay_case": c.to_json()})
        except Exception as e:  # noqa
            herr += 1
            herr_first = herr_first or repr(e)
    flagged: set = set()
    for c in good:
        r = oracle(c)
        if r:
            flagged.add(id(c))
            if r["signature"] not in seen:
                seen.add(r["signature"])
                violations.append({"kind": "oracle", "signature": r["signature"], "what": r["what"], "replay_case": c.to_json(),
                                   "observed": coq(c.obs)[:500]})
    # model: derive, has_type, run
    per = 150
    files = []
    os.makedirs(GEN, exist_ok=True)
    for k in range(0, len(good), per):
        chunk = good[k:k + per]
        orc = Oracles()
        body = []
        flags: List[str] = []
        for i, c in enumerate(chunk):
            acc: list = []
            subvalues(c.x_seen, acc)
            subvalues(c.obs, acc)
            subvalues(c.b.vterm, acc)
            seen_v = set()
            for t in acc:
                fz = freeze(t)
                if fz not in seen_v:
                    seen_v.add(fz)
                    orc.add_value(t, c.ct)
            orc.harvest_logs(c)
            classes = coq(c.ct.coq())
            env = f"(mk_env {classes} [] oracle_tbl re_tbl email_tbl case_tbl)"
            sig = "true" if c.sig else "false"
            body.append(f"  chk_eq {4 * i}%nat (derive {sig} {coq(c.a)}) (Ok {coq(c.b.vterm)} : pres validator).\n")
            body.append(f"  chk_eq {4 * i + 1}%nat (has_type {coq(c.a)} {coq(c.x_seen)}) {coq(c.typed)}.\n")
            body.append(f"  chk {4 * i + 2}%nat {env} Sync 80%nat {coq(c.b.vterm)} {coq(c.x_seen)} {coq(c.obs)}.\n")
            # the soundness theorem's premise holds of every generated annotation without user validators
            body.append(f"  chk_eq {4 * i + 3}%nat (okann {env} {coq(c.a)}) {coq(not uses_annotated(c.a) and c.tag != 'untyped-default')}.\n")
            # is the case inside the fragment of the completeness theorem of its resolution mode (and of its identity clause)?
            frag = f"cplain {env} {coq(c.a)}" if c.sig else f"dplain {env} {coq(c.a)}"
            ident = "true" if c.sig else f"dident {coq(c.a)}"
            flags.append(f"({sig}, ({frag} && hproper {env} {coq(c.x_seen)}, {ident}))")
        count = ("Definition frag_flags : list (bool * (bool * bool)) := [" + ";\n  ".join(flags) + "].\n"
                 "Definition cnt (p : bool * (bool * bool) -> bool) : nat := length (filter p frag_flags).\n"
                 "Eval vm_compute in (cnt (fun p => fst p), cnt (fun p => fst p && fst (snd p)), "
                 "cnt (fun p => negb (fst p)), cnt (fun p => negb (fst p) && fst (snd p)), "
                 "cnt (fun p => negb (fst p) && fst (snd p) && snd (snd p))).\n")
        path = os.path.join(GEN, f"cases_C07_p{os.getpid()}_{k // per}.v")
        open(path, "w").write("".join([HDR, orc.coq(), "Goal True.\n"] + body + ["exact I. Qed.\n", count]))
        files.append((path, chunk))
    with ThreadPoolExecutor(max_workers=16) as ex:
        results = list(ex.map(lambda fc: run_coq_file(fc[0]), files))
    mism = shown = 0
    what = {0: "the derived validator differs from the model's derivation", 1: "the model's type reading (has_type) differs from the type oracle",
            2: "the derived validator's outcome differs from the model's run",
            3: "the premise of the soundness theorem (okann: record nodes well-formed, no user validator) does not hold of a generated annotation"}
    frag_counts = [0, 0, 0, 0, 0]
    for (path, chunk), (status, mm, raw) in zip(files, results):
        fm = FRAG_RE.search(raw)
        if fm:
            frag_counts = [a + int(b) for a, b in zip(frag_counts, fm.groups())]
        if status != "ok":
            violations.append({"kind": "correspondence", "signature": None,
                               "what": f"correspondence file {os.path.basename(path)} failed to evaluate", "log": raw[-1500:]})
        for idx, model in mm:
            mism += 1
            c = chunk[idx // 4]
            if id(c) in flagged or shown >= 3:
                continue
            shown += 1
            violations.append({"kind": "correspondence", "signature": None,
                               "what": f"correspondence family 'C07-derive' no longer checks: {what[idx % 4]}",
                               "case": c.to_json(), "model_outcome": model[:1200],
                               "observed_outcome": [coq(c.b.vterm), str(c.typed), coq(c.obs), "premise expected"][idx % 4][:1200]})
        if status == "ok" and not mm:
            for ext in (".v", ".vo", ".vok", ".vos", ".glob"):
                try:
                    os.remove(path[:-2] + ext)
                except OSError:
                    pass
            try:
                os.remove(os.path.join(os.path.dirname(path), "." + os.path.basename(path)[:-2] + ".aux"))
            except OSError:
                pass
    if herr > max(5, len(cases) // 5):
        violations.append({"kind": "correspondence", "signature": None, "what": f"harness could not run {herr} of {len(cases)} cases, first: {herr_first}"})
    kinds: Dict[str, int] = {}
    for c in good:
        kinds[c.a[0]] = kinds.get(c.a[0], 0) + 1
    dist: Dict[str, int] = {}
    for c in good:
        k = ("typed" if c.typed else "untyped") + "/" + (c.obs[0][1:] if c.exc is None else "raise")
        dist[k] = dist.get(k, 0) + 1
    cov = {"evaluations": len(good), "distinct_nontrivial": len({(freeze(c.a), freeze(c.x), c.sig) for c in good}),
           "rule": "distinct (annotation incl. generated classes, value, resolution mode) triples",
           "samples": [{"annotation": repr(c.b.T)[:200], "value": repr(c.px)[:120], "is_value": c.typed, "outcome": c.obs[0]}
                       for c in good[:: max(1, len(good) // 4)][:4]],
           "traces_validated_against_impl": 4 * len(good), "mismatches": mism, "harness_errors": herr, "harness_error_first": herr_first[:200],
           "verdicts": dist, "root_annotation_kinds": kinds, "signature_mode": sum(1 for c in good if c.sig),
           "streams": {t: sum(1 for c in good if c.tag == t) for t in ("conform", "corrupt", "arbitrary", "lookalike")},
           "inside_theorem_fragments": {"signature_mode_cases": frag_counts[0], "of_them_in_C07_complete_signature_mode_partial": frag_counts[1],
                                        "default_mode_cases": frag_counts[2], "of_them_in_C07_complete_default_partial": frag_counts[3],
                                        "of_them_with_payload_identity_clause": frag_counts[4],
                                        "note": "premises (cplain / dplain, hproper, dident) evaluated by the model on each generated (annotation, value)"},
           "corr_wall_s": round(time.time() - t0, 1)}
    return {"violations": violations, "coverage": cov}


def replay(path: str) -> int:
    j = json.load(open(path))
    cj = j.get("replay_case") or j.get("case")
    if not cj:
        print("replay file names a broken obligation, no input:", j.get("what"))
        return 1
    c = tcase_from_json(cj)
    try:
        observe(c)
    except HarnessError as e:
        print("derivation / construction failed:", e)
        return 1
    print("annotation:", c.b.T, "| signature mode:", c.sig)
    print("validator:", c.b.vobj)
    print("value:", repr(c.px), "| is a value of the type:", c.typed)
    print("result:", repr(c.raw)[:400] if c.exc is None else repr(c.exc))
    r = oracle(c)
    if r:
        print("property violated on this input:", r["what"])
        return 1
    print("property holds on this input")
    return 0


from ..facts import attach as _attach, typechecks as _typechecks  # noqa: E402
_attach(globals(), _typechecks.obligation("C07"))
