"""Shared machinery for C08 / C09: generated signatures, calls, observation, model lines, spec oracle."""
from __future__ import annotations

import inspect
import json
import os
import random
import typing
from typing import Any, Dict, List, Optional, Tuple

import koda_validate.signature as SG
from koda_validate import Invalid, Valid

from .. import gen as G
from .. import userlib as U
from ..build import Ctx, HarnessError, exn_term, from_py, to_py
from ..corr import HEADER, Oracles, drive, subvalues
from ..lang import N, P, Some, coq, freeze, from_json, to_json

HDR = HEADER.replace("Corr.Check.", "Corr.Check Model.Signature Corr.SigCheck.")
KINDS = ["PosOnly", "PosOrKw", "VarPos", "KwOnly", "VarKw"]
PK = {"PosOnly": inspect.Parameter.POSITIONAL_ONLY, "PosOrKw": inspect.Parameter.POSITIONAL_OR_KEYWORD,
      "VarPos": inspect.Parameter.VAR_POSITIONAL, "KwOnly": inspect.Parameter.KEYWORD_ONLY,
      "VarKw": inspect.Parameter.VAR_KEYWORD}


from decimal import Decimal as _Decimal

PLAIN = {
    "int": (int, ("Scalar", ("KInt",), None, [], [], [])),
    "str": (str, ("Scalar", ("KStr",), None, [], [], [])),
    "bool": (bool, ("Scalar", ("KBool",), None, [], [], [])),
    "none": (None, ("NoneV", None)),
    "decimal": (_Decimal, ("Scalar", ("KDecimal",), None, [], [], [])),          # signature mode: no coercion
    "optint": (typing.Optional[int], ("UnionV", [("Scalar", ("KInt",), None, [], [], []), ("NoneV", None)])),
    "liststr": (typing.List[str], ("ListV", ("Scalar", ("KStr",), None, [], [], []), [], [], None)),
}


class BodyError(Exception):
    def __init__(self, n: int):
        super().__init__(n)
        self.n = n


def pname(i: int) -> str:
    return f"p{i}"


def name_id(s: str) -> int:
    return int(s[1:])


# ------------------------------------------------------------------ generation
S, I = G.S, G.I


def param_validator(rng: random.Random):
    """A validator for one parameter: some transform their input (strip, coercion), some do not."""
    r = rng.random()
    if r < 0.25:
        return ("Scalar", ("KInt",), None, [], [rng.choice([("PMin", I(0), False), ("PMax", I(5), False)])] if rng.random() < 0.6 else [], [])
    if r < 0.45:
        return ("Scalar", ("KStr",), None, [("Strip",)] if rng.random() < 0.6 else [], [("PMinLength", 1)] if rng.random() < 0.5 else [], [])
    if r < 0.6:
        return ("Scalar", ("KDecimal",), Some(("CoDecimal",)), [], [], [])
    if r < 0.7:
        return ("UTupleV", ("Scalar", ("KInt",), None, [], [], []), [], [], Some(("CoTupleOrList",)))
    if r < 0.8:
        return ("ListV", ("Scalar", ("KStr",), None, [("Upper",)], [], []), [], [], None)
    if r < 0.87:
        return ("OptionalV", ("NoneV", None), ("Scalar", ("KInt",), None, [], [], []))
    if r < 0.92:
        # a mapping with keys of several types (error messages list them; they cannot be sorted against each other)
        KI = ("Scalar", ("KInt",), None, [], [], [])
        return ("DictAnyV", [P(I(1), KI), P(S("name"), KI), P(("VTuple", [S("t"), I(1)]), ("KeyNotRequired", KI))], None, None, rng.random() < 0.5)
    return G.gen_validator(rng, rng.choice([0, 1]), allow_async=False)


def value_for(v, rng: random.Random):
    r = rng.random()
    x = G.valid_input(v, rng, [])
    if v[0] == "DictAnyV" and any(p_.a[0] == "VInt" for p_ in v[1]) and rng.random() < 0.5:
        return ("VDict", [P(p_.a, S("bad")) for p_ in v[1]])          # every key fails
    if r < 0.3:
        return G.corrupt(x, rng)
    if r < 0.4:
        return rng.choice(G.HOSTILE)
    if v[0] == "Scalar" and v[1][0] == "KStr" and rng.random() < 0.5:
        return S(" ab ")
    if v[0] == "Scalar" and v[1][0] == "KDecimal" and rng.random() < 0.5:
        return S("1.5")
    return x


def gen_deco(rng: random.Random):
    """params (kinds in Python's order), ignore set, return annotation / override, ignore_return."""
    n_po, n_pk, n_ko = rng.choice([0, 0, 1, 2, 3]), rng.choice([0, 1, 1, 2, 3]), rng.choice([0, 0, 1, 2, 3])
    kinds = ["PosOnly"] * n_po + ["PosOrKw"] * n_pk + (["VarPos"] if rng.random() < 0.5 else []) + ["KwOnly"] * n_ko \
        + (["VarKw"] if rng.random() < 0.5 else [])
    params = []
    for i, k in enumerate(kinds):
        ann = Some(param_validator(rng)) if rng.random() < 0.65 else None
        plain = None
        if ann is not None and rng.random() < 0.3:      # a plain type hint, resolved by the library itself
            plain = rng.choice(sorted(PLAIN))
            ann = Some(PLAIN[plain][1])
        ovr = Some(param_validator(rng)) if rng.random() < 0.2 else None
        has_default = k in ("PosOnly", "PosOrKw", "KwOnly") and rng.random() < 0.35
        params.append({"name": i, "kind": k, "ann": ann, "ovr": ovr, "default": has_default, "plain": plain,
                       "default_none": rng.random() < 0.5})        # the default object is None (a singleton a caller can pass explicitly)
    # defaults: once a positional parameter has one, the following positionals need one too
    seen = False
    for p in params:
        if p["kind"] in ("PosOnly", "PosOrKw"):
            seen = seen or p["default"]
            p["default"] = seen
    ignore = [p["name"] for p in params if rng.random() < 0.15]
    if rng.random() < 0.3:
        ignore.append(50 + rng.randrange(3))            # a name that can only be a **kwargs key
    ret_ann = Some(param_validator(rng)) if rng.random() < 0.5 else None
    ret_plain = None
    if ret_ann is not None and rng.random() < 0.35:
        ret_plain = rng.choice(sorted(PLAIN))
        ret_ann = Some(PLAIN[ret_plain][1])
    ret_ovr = Some(param_validator(rng)) if rng.random() < 0.15 else None
    return {"params": params, "ignore": ignore, "ignore_return": rng.random() < 0.2, "ret_ann": ret_ann, "ret_ovr": ret_ovr,
            "is_async": rng.random() < 0.4, "ret_plain": ret_plain}


def checked_validator(deco, p):
    if p["name"] in deco["ignore"]:
        return None
    v = p["ovr"] or p["ann"]
    return v.x if v is not None else None


def gen_call(deco, rng: random.Random):
    """A legal call: which parameters are passed positionally / by keyword / omitted, extras."""
    args, kwargs = [], []
    ps = deco["params"]

    def val(p):
        if p.get("default") and p.get("default_none") and rng.random() < 0.2:
            return G.NONE                   # the declared default, passed explicitly: an argument like any other
        v = checked_validator(deco, p) or ((p["ovr"] or p["ann"]).x if (p["ovr"] or p["ann"]) else None)
        return value_for(v, rng) if v is not None else rng.choice(G.HOSTILE[:40])
    positional = [p for p in ps if p["kind"] in ("PosOnly", "PosOrKw")]
    stop = False
    npos = 0
    for p in positional:
        if stop:
            break
        by_pos = p["kind"] == "PosOnly" or rng.random() < 0.6
        if p["default"] and rng.random() < 0.3:
            stop = True
            continue
        if not by_pos:
            stop = True
            continue
        args.append(val(p))
        npos += 1
    for p in positional[npos:]:
        if p["kind"] == "PosOrKw":
            if p["default"] and rng.random() < 0.4:
                continue
            kwargs.append(P(N(p["name"]), val(p)))
        elif not p["default"]:
            return None            # a positional-only parameter without default cannot be skipped
    varpos = next((p for p in ps if p["kind"] == "VarPos"), None)
    if varpos is not None and npos == len(positional):
        for _ in range(rng.choice([0, 0, 1, 2, 3])):
            args.append(val(varpos))
    for p in ps:
        if p["kind"] == "KwOnly":
            if p["default"] and rng.random() < 0.4:
                continue
            kwargs.append(P(N(p["name"]), val(p)))
    varkw = next((p for p in ps if p["kind"] == "VarKw"), None)
    if varkw is not None:
        extra = [50, 51, 52] + [p["name"] for p in ps if p["kind"] in ("PosOnly", "VarPos", "VarKw")]
        for k in rng.sample(extra, rng.choice([0, 0, 1, 2])):
            kwargs.append(P(N(k), val(varkw)))
    rng.shuffle(kwargs)
    return args, kwargs


class SigCase:
    def __init__(self, deco, args, kwargs, body, tag=""):
        self.deco, self.args, self.kwargs, self.body, self.tag = deco, args, kwargs, body, tag
        self.mode = "async" if deco["is_async"] else "sync"

    def to_json(self) -> dict:
        d = dict(self.deco)
        d["params"] = [{**p, "ann": to_json(p["ann"]), "ovr": to_json(p["ovr"])} for p in self.deco["params"]]
        d["ret_ann"], d["ret_ovr"] = to_json(d["ret_ann"]), to_json(d["ret_ovr"])
        return {"deco": d, "args": to_json(self.args), "kwargs": to_json(self.kwargs), "body": to_json(self.body), "tag": self.tag}


def sigcase_from_json(j: dict) -> SigCase:
    d = dict(j["deco"])
    d["params"] = [{**p, "ann": from_json(p["ann"]), "ovr": from_json(p["ovr"])} for p in d["params"]]
    d["ret_ann"], d["ret_ovr"] = from_json(d["ret_ann"]), from_json(d["ret_ovr"])
    return SigCase(d, from_json(j["args"]), from_json(j["kwargs"]), from_json(j["body"]), j.get("tag", ""))


def gen_case(rng: random.Random) -> Optional[SigCase]:
    deco = gen_deco(rng)
    call = gen_call(deco, rng)
    if call is None:
        return None
    rv = deco["ret_ovr"] or deco["ret_ann"]
    if rng.random() < 0.12:
        body = ("BRaise", N(rng.randrange(3)))
    else:
        body = ("BReturn", value_for(rv.x, rng) if rv is not None else rng.choice(G.HOSTILE[:40]))
    return SigCase(deco, call[0], call[1], body)


# ------------------------------------------------------------------ building the decorated function
def _annotated(base, vo, k: int):
    """Annotated[base, <validator>] in the spellings programs use: the validator alone, after other metadata, and
    layered on an alias that already is Annotated (typing flattens it: the validator comes last). Which spelling is a
    function of the parameter's position only - nothing is drawn from the run's generator."""
    if k % 3 == 0:
        return typing.Annotated[base, vo]
    if k % 3 == 1:
        return typing.Annotated[base, "a description", vo]
    alias = typing.Annotated[base, "unit: EUR", 42]
    return typing.Annotated[alias, vo]


def build(c: SigCase, rng=None):
    ctx = Ctx(G.STD_CLASSES, [], rng)
    deco = c.deco
    rec: list = []
    overrides: Dict[Any, Any] = {}
    vobjs: Dict[Tuple[int, str], Any] = {}
    plist = []
    for p in deco["params"]:
        ann = inspect.Parameter.empty
        if p["ann"] is not None and p.get("plain"):
            ann = PLAIN[p["plain"]][0]
            vobjs[(p["name"], "ann")] = ctx.validator(p["ann"].x)      # an equal validator, for the specification only
        elif p["ann"] is not None:
            vo = ctx.validator(p["ann"].x)
            vobjs[(p["name"], "ann")] = vo
            ann = _annotated(typing.Any, vo, len(plist))
        if p["ovr"] is not None:
            vo = ctx.validator(p["ovr"].x)
            vobjs[(p["name"], "ovr")] = vo
            overrides[pname(p["name"])] = vo
        default = inspect.Parameter.empty if not p["default"] else (None if p.get("default_none") else ("default", p["name"]))
        plist.append(inspect.Parameter(pname(p["name"]), PK[p["kind"]], annotation=ann, default=default))
    ret = inspect.Signature.empty
    ret_spec = None
    if deco["ret_ann"] is not None and deco.get("ret_plain"):
        ret = PLAIN[deco["ret_plain"]][0]
        ret_spec = ctx.validator(deco["ret_ann"].x)
    elif deco["ret_ann"] is not None:
        ret = _annotated(typing.Any, ctx.validator(deco["ret_ann"].x), len(plist) + 1)
    if deco["ret_ovr"] is not None:
        overrides[SG.RETURN_OVERRIDE_KEY] = ctx.validator(deco["ret_ovr"].x)
    sig = inspect.Signature(plist, return_annotation=ret)

    def finish(a, k):
        rec.append((a, k))
        if c.body[0] == "BRaise":
            raise BodyError(c.body[1].k)
        return c.ret_obj
    if deco["is_async"]:
        async def raw(*a, **k):
            "the original docstring"
            return finish(a, k)
    else:
        def raw(*a, **k):
            "the original docstring"
            return finish(a, k)
    raw.__signature__ = sig
    raw.__name__ = raw.__qualname__ = "original_name"
    c.ret_obj = to_py(c.body[1], ctx.ct) if c.body[0] == "BReturn" else None
    wrapped = SG.validate_signature(raw, ignore_args={pname(i) for i in deco["ignore"]},
                                    ignore_return=deco["ignore_return"], overrides=overrides)
    c.vmap = vobjs
    c.ret_v = overrides.get(SG.RETURN_OVERRIDE_KEY) or ret_spec or (typing.get_args(ret)[1] if ret is not inspect.Signature.empty else None)
    if deco["ignore_return"]:
        c.ret_v = None
    return ctx, sig, raw, wrapped, rec


def install_who_fallback(ctx) -> None:
    """Validators the resolver derived from plain hints are not the case's own objects: read them back as terms."""
    from . import C07
    reader = object.__new__(C07.Built)
    reader.ctx, reader.ct = ctx, ctx.ct
    ctx.who_fallback = reader.obj_term


def observe(c: SigCase, rng=None) -> None:
    ctx, sig, raw, wrapped, rec = build(c, rng)
    install_who_fallback(ctx)
    c.ctx, c.sig, c.raw, c.wrapped, c.rec = ctx, sig, raw, wrapped, rec
    c.pargs = [to_py(a, ctx.ct) for a in c.args]
    c.pkwargs = {pname(p.a.k): to_py(p.b, ctx.ct) for p in c.kwargs}
    try:
        sig.bind(*c.pargs, **c.pkwargs)
    except TypeError as e:
        raise HarnessError(f"illegal call: {e}")
    U.reset_logs()
    c.result = c.exc = None
    try:
        if c.deco["is_async"]:
            c.result = drive(wrapped(*c.pargs, **c.pkwargs))
        else:
            c.result = wrapped(*c.pargs, **c.pkwargs)
    except RecursionError:
        raise HarnessError("recursion limit")
    except BaseException as e:  # noqa
        c.exc = e
    c.re_log, c.email_log = list(U.RE_LOG), list(U.EMAIL_LOG)
    c.ran = len(rec)
    # observed term
    if c.ran > 1:
        raise HarnessError("body ran twice")
    trace = None
    if c.ran == 1:
        a, k = rec[0]
        trace = Some(P([from_py(x, ctx.ct) for x in a], [P(N(name_id(n)), from_py(x, ctx.ct)) for n, x in k.items()]))
    e = c.exc
    if e is None:
        res = ("WReturn", from_py(c.result, ctx.ct))
    elif type(e) is SG.InvalidArgsError:
        res = ("WArgsErr", [P(N(name_id(n)), ctx.invalid(inv)) for n, inv in e.errs.items()])
    elif type(e) is SG.InvalidReturnError:
        res = ("WRetErr", ctx.invalid(e.err))
    elif type(e) is BodyError:
        res = ("WRaise", N(e.n))
    elif type(e) is AssertionError:
        res = ("WAbort", ("OAssert",))
    else:
        res = ("WAbort", ("ORaise", exn_term(e)))
    c.obs = P(trace, res)
    c.args_seen = [from_py(x, ctx.ct) for x in c.pargs]
    c.body_seen = ("BReturn", from_py(c.ret_obj, ctx.ct)) if c.body[0] == "BReturn" else c.body
    c.kwargs_seen = [P(p.a, from_py(c.pkwargs[pname(p.a.k)], ctx.ct)) for p in c.kwargs]


def deco_term(c: SigCase):
    d = c.deco
    ps = [("Build_param", N(p["name"]), (p["kind"],), p["ann"], p["ovr"]) for p in d["params"]]
    return ("Build_deco", ps, [N(i) for i in d["ignore"]], d["ignore_return"], d["ret_ann"], d["ret_ovr"])


def model_line(c: SigCase) -> Tuple[str, str]:
    classes = coq(c.ctx.ct.coq())
    env = f"(mk_env {classes} [] oracle_tbl re_tbl email_tbl case_tbl)"
    m = "Async" if c.deco["is_async"] else "Sync"
    lhs = f"(canon_trace (wrap_trace (run {env} {m} 80%nat) (mk_tables {coq(deco_term(c))}) {coq(c.body_seen)} {coq(c.args_seen)} {coq(c.kwargs_seen)}))"
    return lhs, f"(canon_trace ({coq(c.obs)} : option (list pyval * list (nat * pyval)) * wres))"


def oracles_for(chunk: List[SigCase]) -> Oracles:
    orc = Oracles()
    for c in chunk:
        acc: list = []
        subvalues(c.args_seen, acc)
        subvalues(c.kwargs_seen, acc)
        subvalues(c.obs, acc)
        subvalues(deco_term(c), acc)
        subvalues(c.body_seen, acc)
        seen = set()
        for t in acc:
            fz = freeze(t)
            if fz not in seen:
                seen.add(fz)
                orc.add_value(t, c.ctx.ct)
        orc.harvest_logs(c)
    return orc


# ------------------------------------------------------------------ the specification, computed independently
def run_validator(c: SigCase, vobj, x):
    if c.deco["is_async"]:
        return drive(vobj.validate_async(x))
    return vobj(x)


def spec(c: SigCase) -> dict:
    """What the statement says should happen, from inspect's own binding of the call."""
    d = c.deco
    ctx = c.ctx
    by_name = {pname(p["name"]): p for p in d["params"]}
    ignore = {pname(i) for i in d["ignore"]}

    def validator_of(p):
        if pname(p["name"]) in ignore:
            return None
        t = p["ovr"] or p["ann"]
        if t is None:
            return None
        # the same objects the decorator was given
        return c.vmap[(p["name"], "ovr" if p["ovr"] is not None else "ann")]
    ba = c.sig.bind(*c.pargs, **c.pkwargs)
    failing: List[str] = []
    exp_args = list(c.pargs)
    exp_kwargs = dict(c.pkwargs)
    positional = [p for p in d["params"] if p["kind"] in ("PosOnly", "PosOrKw")]
    varpos = next((p for p in d["params"] if p["kind"] == "VarPos"), None)
    varkw = next((p for p in d["params"] if p["kind"] == "VarKw"), None)
    abort = None
    for i, a in enumerate(c.pargs):
        p = positional[i] if i < len(positional) else varpos
        v = validator_of(p) if p is not None else None
        if v is None:
            continue
        try:
            r = run_validator(c, v, a)
        except BaseException:  # noqa
            return {"abort": True}
        if type(r) is Valid:
            exp_args[i] = r.val
        else:
            if pname(p["name"]) not in failing:
                failing.append(pname(p["name"]))
    for k, a in c.pkwargs.items():
        p = by_name.get(k)
        if p is not None and p["kind"] in ("PosOrKw", "KwOnly"):
            v = validator_of(p)
        else:
            v = validator_of(varkw) if (varkw is not None and k not in ignore) else None
        if v is None:
            continue
        try:
            r = run_validator(c, v, a)
        except BaseException:  # noqa
            return {"abort": True}
        if type(r) is Valid:
            exp_kwargs[k] = r.val
        elif k not in failing:
            failing.append(k)
    return {"abort": False, "failing": failing, "args": exp_args, "kwargs": exp_kwargs}


# ------------------------------------------------------------------ overlapping calls of one decorated coroutine function
def summary(res: Any, exc: Any, ctx) -> Any:
    if exc is None:
        return ("returned", repr(res))
    if type(exc) is SG.InvalidArgsError:
        return ("InvalidArgsError", [(k, coq(ctx.invalid(v))) for k, v in exc.errs.items()])
    if type(exc) is SG.InvalidReturnError:
        return ("InvalidReturnError", coq(ctx.invalid(exc.err)))
    return (type(exc).__name__, str(exc)[:80])


def concurrent_pair(c1: SigCase, c2: SigCase) -> Optional[dict]:
    """Two overlapping calls of the same decorated coroutine function must each behave as they do alone."""
    import asyncio
    alone = []
    for c in (c1, c2):
        observe(c)
        alone.append(summary(c.result, c.exc, c.ctx))
    ctx, sig, raw, wrapped, rec = build(c1)
    a1 = [to_py(a, ctx.ct) for a in c1.args]
    k1 = {pname(p.a.k): to_py(p.b, ctx.ct) for p in c1.kwargs}
    a2 = [to_py(a, ctx.ct) for a in c2.args]
    k2 = {pname(p.a.k): to_py(p.b, ctx.ct) for p in c2.kwargs}

    async def both():
        return await asyncio.gather(wrapped(*a1, **k1), wrapped(*a2, **k2), return_exceptions=True)
    rs = drive(both())
    together = []
    for r in rs:
        if isinstance(r, BaseException):
            together.append(summary(None, r, ctx))
        else:
            together.append(summary(r, None, ctx))
    if together != alone:
        return {"signature": "C08:concurrent-calls-interfere",
                "what": f"two overlapping calls of one decorated coroutine function: alone they end as {alone}, overlapped as {together}"}
    return None


def gen_async_varargs_pair(rng: random.Random):
    """A coroutine function with a checked *args whose validator really suspends; two calls with different failing items."""
    slow = ("Scalar", ("KInt",), None, [], [("PMin", I(0), False)], [("APred", N(rng.choice([0, 1, 2])))])
    deco = {"params": [{"name": 0, "kind": "PosOnly", "ann": Some(slow) if rng.random() < 0.5 else None, "ovr": None, "default": False},
                       {"name": 1, "kind": "VarPos", "ann": Some(slow), "ovr": None, "default": False},
                       {"name": 2, "kind": "VarKw", "ann": Some(slow) if rng.random() < 0.5 else None, "ovr": None, "default": False}],
            "ignore": [], "ignore_return": True, "ret_ann": None, "ret_ovr": None, "is_async": True}
    vals = [I(1), I(-1), I(5), S("x"), I(-7), I(2)]

    def call():
        args = [rng.choice(vals) for _ in range(rng.choice([1, 2, 3, 4]))]
        kwargs = [P(N(50 + i), rng.choice(vals)) for i in range(rng.choice([0, 1]))]
        return SigCase(deco, args, kwargs, ("BReturn", I(0)))
    return call(), call()
