"""C12 - error rendering is total and faithful for every error the library can produce."""
from __future__ import annotations

import json
import os
import random
import time
from concurrent.futures import ThreadPoolExecutor
from typing import Any, List, Optional, Tuple

from koda_validate import Invalid
from koda_validate import errors as KE
from koda_validate.serialization import to_serializable_errs
from koda_validate.signature import InvalidArgsError, InvalidReturnError, _get_arg_fail_message

from .. import gen as G
from ..build import Ctx, HarnessError, from_py, to_py
from ..corr import GEN, HEADER, Case, observe, run_coq_file
from ..lang import N, P, Some, coq, freeze, from_json, to_json
from .common import std_case

ASSUMPTIONS = [
    "keys of key / map errors have distinct str() forms (keys are rendered with str)",
    "the theorem's premise (every node renderable) is discharged per case by the harness: trees are built from built-in validators and predicates; user predicates / non-serialisable custom errors are outside the claim",
    "leaf message texts are abstract in the model; they are checked to be str and json.dumps-able on the implementation",
]
JSON_TYPES = (str, int, float, bool, type(None))


def json_only(x: Any) -> bool:
    if type(x) in JSON_TYPES:
        return True
    if type(x) is list:
        return all(json_only(i) for i in x)
    if type(x) is dict:
        return all(type(k) is str and json_only(v) for k, v in x.items())
    return False


def edit_rendering(o: Any, depth: int = 0) -> None:
    """A caller post-processing a rendering in place (adding a hint, a field, dropping an entry)."""
    if depth > 40:
        return
    if type(o) is list:
        for x in list(o):
            edit_rendering(x, depth + 1)
        o.append("<hint added by the caller>")
    elif isinstance(o, dict):
        for x in list(o.values()):
            edit_rendering(x, depth + 1)
        o["<field added by the caller>"] = ["x"]


def has_serializable_err(inv: Any, depth: int = 0) -> bool:
    from koda_validate.serialization import SerializableErr
    if type(inv) is not Invalid or depth > 40:
        return False
    if isinstance(inv.err_type, SerializableErr):
        return True
    return any(has_serializable_err(k, depth + 1) for k in children(inv.err_type))


def strip_user(t):
    """Replace user predicates by built-in ones and drop async predicates (outside the claim)."""
    if isinstance(t, tuple):
        if t and t[0] == "PUser":
            return ("PNotBlank",) if False else ("PChoices", [])
        if t and t[0] == "Scalar":
            return ("Scalar", t[1], t[2], t[3], [strip_user(p) for p in t[4]], [])
        if t and t[0] in ("ListV", "SetV", "UTupleV"):
            return (t[0], strip_user(t[1]), [strip_user(p) for p in t[2]], [], t[4])
        if t and t[0] == "MapV":
            return (t[0], strip_user(t[1]), strip_user(t[2]), [strip_user(p) for p in t[3]], [], t[5])
        if t and t[0] == "UserV":
            return ("Scalar", ("KInt",), None, [], [], [])
        if t and t[0] in ("RecordV",):
            return (t[0], strip_user(t[1]), t[2], _obj(t[3]), None, t[5])
        if t and t[0] == "DictAnyV":
            return (t[0], strip_user(t[1]), _obj(t[2]), None, t[4])
        if t and t[0] == "ClassV":
            return (t[0], t[1], t[2], strip_user(t[3]), _obj(t[4]), None, t[6], t[7])
        if t and t[0] == "NTupleV":
            return (t[0], strip_user(t[1]), _obj(t[2]), t[3])
        return tuple(strip_user(x) for x in t)
    if isinstance(t, list):
        return [strip_user(x) for x in t]
    if isinstance(t, P):
        return P(strip_user(t.a), strip_user(t.b))
    if isinstance(t, Some):
        return Some(strip_user(t.x))
    return t


def _obj(o):
    return None if o is None else Some(N(3))      # object checks fail with a SerializableErr


def choice_fix(t):
    """PChoices [] from strip_user is typed for nothing in particular; keep it (empty choices always fail)."""
    return t


def rnode_of(ctx, inv: Any, out: Any, child_term) -> Any:
    """Read the observed rendering of one level back into the model's rnode, guided by the error."""
    e = inv.err_type
    bad = ("RBad",)
    if isinstance(e, (KE.TypeErr, KE.CoercionErr)):
        if type(out) is list and all(type(s) is str for s in out):
            return ("RMsgs", N(len(out)))
        if type(out) is dict and list(out) == ["__container__"]:
            return ("RContainerMsg",)
        return bad
    if type(e).__name__ == "SerializableErr":
        return ("RCustom", N(100)) if out == e.obj else bad
    if isinstance(e, KE.ExtraKeysErr):
        return ("RUnknownKeys",) if type(out) is dict and list(out) == ["__unknown_keys__"] and type(out["__unknown_keys__"]) is str else bad
    if isinstance(e, KE.PredicateErrs):
        return ("RMsgs", N(len(out))) if type(out) is list and all(type(s) is str for s in out) else bad
    if isinstance(e, KE.MissingKeyErr):
        return ("RMsgs", N(len(out))) if type(out) is list else bad
    if isinstance(e, KE.IndexErrs):
        if type(out) is not list or any(type(p) is not list or len(p) != 2 for p in out):
            return bad
        return ("RIndex", [P(N(p[0]), child_term(p[1])) for p in out])
    if isinstance(e, KE.KeyErrs):
        if type(out) is not dict or list(out) != [str(k) for k in e.keys]:
            return bad
        return ("RKeys", [P(from_py(k, ctx.ct), child_term(out[str(k)])) for k in e.keys])
    if isinstance(e, KE.MapErr):
        if type(out) is not dict or list(out) != [str(k) for k in e.keys]:
            return bad
        rows = []
        for k, kv in e.keys.items():
            d = out[str(k)]
            if type(d) is not dict or set(d) - {"key", "value"}:
                return bad
            if ("key" in d) != (kv.key is not None) or ("value" in d) != (kv.val is not None):
                return bad
            rows.append(P(from_py(k, ctx.ct), P(Some(child_term(d["key"])) if "key" in d else None,
                                                Some(child_term(d["value"])) if "value" in d else None)))
        return ("RMap", rows)
    if isinstance(e, KE.SetErrs):
        if type(out) is not dict or list(out) != ["member_errors"]:
            return bad
        return ("RMembers", [child_term(c) for c in out["member_errors"]])
    if isinstance(e, KE.UnionErrs):
        if type(out) is not dict or list(out) != ["variants"]:
            return bad
        return ("RVariants", [child_term(c) for c in out["variants"]])
    if isinstance(e, KE.ContainerErr):
        return ("RChild", child_term(out))
    return bad


def children(e: Any) -> List[Any]:
    from .C14 import direct_children
    return direct_children(e)


def full_tree(ctx, inv: Any, out: Any) -> Any:
    """The default rendering read back as the model's rtree (children located structurally)."""
    kids = children(inv.err_type)
    it = iter(kids)

    def child_term(sub_out):
        try:
            ch = next(it)
        except StopIteration:
            return ("RTRaise", ("ExOther",))
        return full_tree(ctx, ch, sub_out)
    r = rnode_of(ctx, inv, out, child_term)
    return ("RT", r)


def expected_type_forms() -> Optional[dict]:
    """"expected types that are classes, unions and generic aliases": a TypeValidator / a coercer may name any of them
    (also the `int | str` form, which has no __name__); both renderers answer, the first with JSON."""
    import typing
    from koda_validate import Coercer, IntValidator, ListValidator, always_valid
    from koda_validate.errors import CoercionErr, TypeErr
    from koda_validate.is_type import TypeValidator
    from koda import nothing

    class Plain:
        pass
    forms = [("int | str", int | str), ("typing.Union[int, str]", typing.Union[int, str]), ("typing.Optional[int]", typing.Optional[int]),
             ("int | None", int | None), ("typing.List[int]", typing.List[int]), ("list[int]", list[int]), ("typing.Dict[str, int]", typing.Dict[str, int]),
             ("dict[str, list[int]]", dict[str, list[int]]), ("NoneType", type(None)), ("a class", Plain), ("typing.Tuple[int, ...]", typing.Tuple[int, ...]),
             ("typing.Any", typing.Any)]
    for label, T in forms:
        invs = [("TypeValidator(%s) rejecting a value" % label, lambda: TypeValidator(T)(object())),
                ("a list of them", lambda: ListValidator(TypeValidator(T))([object()])),
                ("a TypeErr naming it", lambda: Invalid(TypeErr(T), 1, always_valid)),
                ("a coercer declaring it compatible", lambda: IntValidator(coerce=Coercer(lambda v: nothing, {T, bytes}))("x")),
                ("a CoercionErr towards it", lambda: Invalid(CoercionErr({str}, T), 1, always_valid))]
        for what, mk in invs:
            try:
                inv = mk()
            except Exception:  # noqa - building the situation failed: not the renderer's business
                continue
            if type(inv) is not Invalid:
                continue
            try:
                out = to_serializable_errs(inv)
                if not json_only(out):
                    return {"signature": "C12:not-json", "what": f"{what} ({label}): the rendering {out!r} is not made of JSON types"}
                json.dumps(out, allow_nan=False)
                msg = _get_arg_fail_message(inv)
                if type(msg) is not str or type(str(InvalidArgsError({"a": inv}))) is not str:
                    return {"signature": "C12:message-not-str", "what": f"{what} ({label}): the message renderer returned {msg!r}"}
            except Exception as e:  # noqa
                return {"signature": "C12:render-raised", "what": f"{what} ({label}): rendering {inv!r} raised {e!r}"}
    return None


def run(tier: str, rng: random.Random, proof_ok: bool) -> dict:
    t0 = time.time()
    violations: List[dict] = []
    seen = set()
    lines = []
    n_inv = n_user = 0
    kinds: dict = {}
    samples = []

    def report(sig, what, case):
        if sig not in seen:
            seen.add(sig)
            violations.append({"kind": "oracle", "signature": sig, "what": what,
                               "replay_case": case.to_json() if case is not None else None})

    etf = expected_type_forms()
    if etf:
        seen.add(etf["signature"])
        violations.append({"kind": "oracle", **etf, "replay_case": {"expected_type_forms": True}})
    n = 1500 if tier == "quick" else 30000
    G.WF_ONLY[0] = True
    cases: List[Case] = []
    try:
        for _ in range(n):
            lazy = [strip_user(G.gen_validator(rng, rng.choice([0, 1]), allow_async=False))]
            keep_user = rng.random() < 0.04
            v = G.gen_validator(rng, rng.choice([0, 1, 2, 2, 3]), allow_async=False, lazy_n=1)
            if not keep_user:
                v = strip_user(v)
            x = G.valid_input(v, rng, lazy)
            r = rng.random()
            if r < 0.65:
                x = G.corrupt(x, rng)
            elif r < 0.85:
                x = rng.choice(G.HOSTILE)
            cases.append(std_case(v, x, "sync", lazy=lazy, tag="user" if keep_user else "builtin"))
    finally:
        G.WF_ONLY[0] = False
    # failing members / keys / values that are long and alike (renderers abbreviate what they show)
    LONG = [G.S("https://example.org/a/rather/long/path/%d" % i) for i in range(4)]
    SHORT3 = ("Scalar", ("KStr",), None, [], [("PMaxLength", 3), ("PStartsWith", G.S("x"))], [])
    for v, x in [(("SetV", SHORT3, [], [], None), ("VSet", LONG[:3])),
                 (("ListV", SHORT3, [], [], None), ("VList", LONG[:2] + LONG[:1])),
                 (("MapV", SHORT3, SHORT3, [], [], None), ("VDict", [P(LONG[0], LONG[1]), P(LONG[2], LONG[3])])),
                 (("ListV", ("SetV", SHORT3, [], [], None), [], [], None), ("VList", [("VSet", LONG[:2]), ("VSet", LONG[1:4])])),
                 (("DictAnyV", [P(LONG[0], SHORT3), P(LONG[1], SHORT3)], None, None, True), ("VDict", [P(LONG[0], LONG[2]), P(LONG[1], LONG[3])])),
                 (("DictAnyV", [P(LONG[0], SHORT3), P(LONG[1], SHORT3)], None, None, True), ("VDict", [P(LONG[2], LONG[2])])),
                 (("UnionV", [SHORT3, ("SetV", SHORT3, [], [], None), ("NoneV", None)]), ("VSet", LONG[1:4]))]:
        cases.append(std_case(v, x, "sync", tag="builtin"))
    # long values outside ASCII (messages show a shortened repr of the value: shortened by characters, not bytes)
    for ch in ("é", "日", "\U0001f600", "a\u0301"):
        for ln in (29, 30, 31, 59, 60, 61, 100):
            xs_ = G.S("x" + ch * ln)
            cases.append(std_case(("Scalar", ("KInt",), None, [], [], []), xs_, "sync", tag="builtin"))
            cases.append(std_case(("SetV", ("Scalar", ("KInt",), None, [], [], []), [], [], None), ("VSet", [xs_, G.S(ch * ln)]), "sync", tag="builtin"))
    # failures far below the root (renderers that indent or abbreviate by depth must cope with any depth)
    INTV = ("Scalar", ("KInt",), None, [], [("PMin", G.I(0), False)], [])
    deep_inner = [(("SetV", INTV, [], [], None), ("VSet", [G.S("x"), G.I(-1)])),
                  (("ListV", INTV, [], [], None), ("VList", [G.I(1), G.S("x")])),
                  (("MapV", INTV, INTV, [], [], None), ("VDict", [P(G.S("k"), G.I(-2))])),
                  (("DictAnyV", [P(G.S("a"), INTV)], None, None, True), ("VDict", [P(G.S("b"), G.I(1))])),
                  (("UnionV", [INTV, ("NoneV", None)]), G.S("x")),
                  (("MaybeV", ("SetV", INTV, [], [], None)), ("VJust", ("VSet", [G.S("y")])))]
    for v0, x0 in deep_inner:
        for depth in (5, 6, 7, 9, 12):
            v, x = v0, x0
            for i in range(depth):
                if i % 3 == 2:
                    v, x = ("DictAnyV", [P(G.S("k"), v)], None, None, False), ("VDict", [P(G.S("k"), x)])
                else:
                    v, x = ("ListV", v, [], [], None), ("VList", [x])
            cases.append(std_case(v, x, "sync", tag="builtin", fuel=4 * depth + 20))
    # record keys that are tuples / share their str() form with another key kind
    KI = ("Scalar", ("KInt",), None, [], [], [])
    for keys in ([("VTuple", [G.I(1), G.S("x")]), G.S("a")], [("VTuple", []), G.I(1)], [("VTuple", [G.S("a")]), G.S("b")], [G.I(1), G.S("name")]):
        v = ("DictAnyV", [P(k, KI) for k in keys], None, None, False)
        cases.append(std_case(v, ("VDict", [P(k, G.S("bad")) for k in keys]), "sync", tag="builtin"))
        cases.append(std_case(v, ("VDict", [P(keys[0], G.S("bad")), P(keys[1], G.I(1))]), "sync", tag="builtin"))
        cases.append(std_case(("MapV", ("AlwaysValid",), KI, [], [], None), ("VDict", [P(k, G.S("bad")) for k in keys]), "sync", tag="builtin"))
    # choice sets whose members cannot be ordered against each other (the message lists the members)
    for kind, members, bad in ((("KDecimal",), [G.DNAN, G.D1], G.D15), (("KFloat",), [G.NAN, G.F1], G.F0),
                               (("KInt",), [G.I(1), G.S("a")], G.I(5)), (("KStr",), [G.S("a"), G.NONE], G.S("zz")),
                               (("KStr",), [G.S("a"), G.B(b"a"), G.I(0)], G.S("zz")), (("KInt",), [G.I(2), G.NONE, G.S("")], G.I(5))):
        cv = ("Scalar", kind, None, [], [("PChoices", members)], [])
        cases.append(std_case(cv, bad, "sync", tag="builtin"))
        cases.append(std_case(("ListV", cv, [], [], None), ("VList", [bad, bad]), "sync", tag="builtin"))
        cases.append(std_case(("DictAnyV", [P(G.S("k"), cv)], None, None, False), ("VDict", [P(G.S("k"), bad)]), "sync", tag="builtin"))
    for c in cases:
        try:
            observe(c)
        except HarnessError:
            continue
        if c.exc is not None or type(c.raw) is not Invalid:
            continue
        inv, ctx = c.raw, c.ctx
        try:
            inv_t = ctx.invalid(inv)
        except HarnessError:
            continue
        n_inv += 1
        kinds[type(inv.err_type).__name__] = kinds.get(type(inv.err_type).__name__, 0) + 1
        # (a) default rendering: total, JSON only, json.dumps
        try:
            out = to_serializable_errs(inv)
            exc = None
        except Exception as e:  # noqa
            out, exc = None, e
        if c.tag == "user":
            n_user += 1
        if exc is not None:
            if c.tag == "builtin":
                report("C12:render-raised", f"to_serializable_errs raised {exc!r} on {inv!r}", c)
            # an exception anywhere in the tree propagates: the model's tree contains an RTRaise
            lines.append((f"(KV.Proofs.RenderP.raises (render_all {coq(inv_t)}))", "true", c))
        else:
            if not json_only(out):
                report("C12:not-json", f"rendering contains non-JSON values: {out!r}", c)
            else:
                try:
                    json.dumps(out, allow_nan=False)
                except Exception as e:  # noqa
                    report("C12:json-dumps", f"json.dumps refuses the rendering: {e!r}", c)
            try:
                lines.append((f"(render_all {coq(inv_t)})", coq(full_tree(ctx, inv, out)), c))
            except HarnessError:
                pass
            # the rendering belongs to the caller: editing it in place changes no later rendering
            # (a SerializableErr hands out the user's own object - that one is the user's to share)
            try:
                import copy
                if has_serializable_err(inv):
                    raise HarnessError("user-supplied rendering")
                snap = copy.deepcopy(out)
                edit_rendering(out)
                again = to_serializable_errs(inv)
                if again != snap or not json_only(again):
                    report("C12:rendering-shared", f"after the caller edited a rendering in place, rendering the same error again gives {again!r}; "
                                                   f"the first rendering was {snap!r}", c)
            except HarnessError:
                pass
            except Exception as e:  # noqa
                if c.tag == "builtin":
                    report("C12:render-raised", f"to_serializable_errs raised {e!r} when asked again after the caller edited the first rendering", c)
        # (b) tagging callback: applied to every direct child, in order, to nothing else
        kids = children(inv.err_type)
        called: List[int] = []

        def nl(child, kids=kids, called=called):
            # the k-th call must receive the k-th direct child (a cache may hand out one Invalid object twice,
            # so children are told apart by position, not by identity)
            k = len(called)
            ok = k < len(kids) and kids[k] is child
            called.append(k if ok else -1)
            return {"__tag__": k if ok else -1}
        try:
            out2 = to_serializable_errs(inv, nl)
            if called != list(range(len(kids))):
                report("C12:callback-children",
                       f"next_level must be applied to every direct child once and in order; it saw {called} of {len(kids)} children for {type(inv.err_type).__name__}", c)
            else:
                kid_terms = [ctx.invalid(k) for k in kids]

                def child_term(sub, kid_terms=kid_terms):
                    if type(sub) is dict and list(sub) == ["__tag__"] and 0 <= sub["__tag__"] < len(kid_terms):
                        return kid_terms[sub["__tag__"]]
                    raise HarnessError("child slot does not hold the callback's result")
                try:
                    rn = rnode_of(ctx, inv, out2, child_term)
                    lines.append((f"(render1 invalid (fun c => c) {coq(inv_t)})", f"(Ok {coq(rn)} : pres (rnode invalid))", c))
                except HarnessError as he:
                    report("C12:callback-ignored", f"the custom next_level result is not what the rendering holds at a child position: {out2!r}", c)
        except Exception as e:  # noqa
            if c.tag == "builtin":
                report("C12:render-raised", f"to_serializable_errs(inv, next_level) raised {e!r}", c)
        # (b') a callback whose results are falsy JSON values: every child slot still holds its result
        FALSY = [0, None, "", [], False, {}, 0.0]
        rets: List[Any] = []

        def nl0(child, rets=rets):
            rets.append(FALSY[len(rets) % len(FALSY)])
            return rets[-1]
        try:
            out3 = to_serializable_errs(inv, nl0)
            if kids:
                slots: List[Any] = []
                try:
                    rnode_of(ctx, inv, out3, lambda sub, slots=slots: (slots.append(sub), ("RMsgs", N(0)))[1])
                except HarnessError:
                    slots = None  # type: ignore
                if slots is None or len(slots) != len(kids) or any(type(a_) is not type(b_) or a_ != b_ for a_, b_ in zip(slots, rets)):
                    report("C12:callback-result-dropped",
                           f"next_level returned {rets!r} for the {len(kids)} children of a {type(inv.err_type).__name__}; the rendering holds {slots!r} at the child positions: {out3!r}", c)
        except Exception as e:  # noqa
            if c.tag == "builtin":
                report("C12:render-raised", f"to_serializable_errs(inv, falsy next_level) raised {e!r}", c)
        # (b'') a callback object that is itself falsy (an empty mapping of renderers with a __call__): still the callback
        if kids:
            class _Renderers(dict):
                def __call__(self, child):
                    return {"__by__": "custom"}
            try:
                out4 = to_serializable_errs(inv, _Renderers())
                slots4: List[Any] = []
                try:
                    rnode_of(ctx, inv, out4, lambda sub, slots4=slots4: (slots4.append(sub), ("RMsgs", N(0)))[1])
                except HarnessError:
                    slots4 = None  # type: ignore
                if slots4 is None or len(slots4) != len(kids) or any(s_ != {"__by__": "custom"} for s_ in slots4):
                    report("C12:callback-ignored",
                           f"a custom next_level that is a falsy object (an empty dict subclass with __call__) was not applied to the {len(kids)} children of a {type(inv.err_type).__name__}: {out4!r}", c)
            except Exception as e:  # noqa
                if c.tag == "builtin":
                    report("C12:render-raised", f"to_serializable_errs(inv, falsy callable) raised {e!r}", c)
        # (c) the InvalidArgsError / InvalidReturnError message renderer
        try:
            m1 = _get_arg_fail_message(inv)
            e1 = InvalidArgsError({"arg": inv})
            e2 = InvalidReturnError(inv)
            if type(m1) is not str or type(str(e1)) is not str or type(str(e2)) is not str:
                report("C12:message-not-str", "message renderer did not return a string", c)
            else:
                # line structure (indentation level of every line, in order) against the model's msg_levels
                levels = [(len(ln) - len(ln.lstrip(" "))) // 4 for ln in m1.split("\n")]
                lines.append((f"(msg_levels 0%nat {coq(inv_t)})", "[" + "; ".join(f"{k}%nat" for k in levels) + "]", c))
            if type(m1) is str:
                # every keyed entry keeps its label, in order (a line may carry more than its label; values shown in
                # it are shortened, so only line starts are read)
                starts = [ln.lstrip(" ") for ln in m1.split("\n")]
                pos, lost = 0, None
                for lab in message_labels(inv):
                    nxt = next((j for j in range(pos, len(starts)) if lab in starts[j]), None)   # (a nested entry's line may repeat its parent's label first)
                    if nxt is None:
                        lost = lab
                        break
                    pos = nxt + 1
                if lost is not None and not any("\n" in repr(k_) for k_ in [m1[:0]]):
                    report("C12:message-labels", f"the message does not label the entry {lost!r} of its container (labels in order: {message_labels(inv)!r}): {m1!r}", c)
            if type(m1) is str and len(m1.split("\n")) != message_lines(inv):
                report("C12:message-entries", f"the message has {len(m1.split(chr(10)))} lines for an error tree with {message_lines(inv)} "
                                              f"entries (one per failing key, index, pair, member, variant and predicate): {m1!r}", c)
        except Exception as e:  # noqa
            report("C12:message-raised", f"the signature message renderer raised {e!r} on {inv!r}", c)
        if len(samples) < 3 and exc is None and kids:
            samples.append({"error": type(inv.err_type).__name__, "rendered": json.dumps(out)[:300]})
    mism = model_compare(lines, violations)
    cov = {"evaluations": n_inv, "distinct_nontrivial": len({l[0] for l in lines}),
           "rule": "every Invalid produced by generated trees of built-in validators and predicates (a small share keeps user predicates to validate the model's error branch); rendered with the default and with a tagging next_level callback; distinct rendered error trees",
           "error_kinds": kinds, "with_user_predicates": n_user, "model_renderings_compared": len(lines), "mismatches": mism,
           "samples": samples or [{"note": "see rule"}], "traces_validated_against_impl": len(lines),
           "corr_wall_s": round(time.time() - t0, 1)}
    return {"violations": violations, "coverage": cov}


def message_labels(inv: Any, depth: int = 0) -> List[str]:
    """The labels the message gives the entries of the keyed containers, in order: repr of a record key, the index of
    a list / tuple position, the key of a map pair with its side - at whatever depth the container sits."""
    from koda_validate import errors as KE
    if type(inv) is not Invalid or depth > 60:
        return []
    e = inv.err_type
    out: List[str] = []
    if isinstance(e, KE.KeyErrs):
        for k, ch in e.keys.items():
            out.append(f"{k!r}: ")
            out += message_labels(ch, depth + 1)
    elif isinstance(e, KE.IndexErrs):
        for i, ch in e.indexes.items():
            out.append(f"{i}: ")
            out += message_labels(ch, depth + 1)
    elif isinstance(e, KE.MapErr):
        for k, kv in e.keys.items():
            for side, ch in (("key", kv.key), ("val", kv.val)):
                if ch is not None:
                    out.append(f"{k!r} ({side}): ")
                    out += message_labels(ch, depth + 1)
    elif isinstance(e, KE.UnionErrs):
        for ch in e.variants:
            out += message_labels(ch, depth + 1)
    elif isinstance(e, KE.SetErrs):
        for ch in e.item_errs:
            out += message_labels(ch, depth + 1)
    elif isinstance(e, KE.ContainerErr):
        out += message_labels(e.child, depth + 1)
    return out


def message_lines(inv: Any) -> int:
    """Lines the message must have: a header per container error and one line per failure below it."""
    from koda_validate import errors as KE
    e = inv.err_type
    many = lambda kids: 1 + (sum(message_lines(k) for k in kids) if kids else 1)
    if isinstance(e, KE.PredicateErrs):
        return 1 + (len(e.predicates) or 1)
    if isinstance(e, KE.ContainerErr):
        return message_lines(e.child)
    if isinstance(e, KE.UnionErrs):
        return 1 + sum(message_lines(k) for k in e.variants)
    if isinstance(e, KE.KeyErrs):
        return many(list(e.keys.values()))
    if isinstance(e, KE.IndexErrs):
        return many(list(e.indexes.values()))
    if isinstance(e, KE.SetErrs):
        return many(list(e.item_errs))
    if isinstance(e, KE.ExtraKeysErr):
        return 2
    if isinstance(e, KE.MapErr):
        return 1 + sum(message_lines(k) for kv in e.keys.values() for k in (kv.key, kv.val) if k)
    return 1


def model_compare(lines, violations) -> int:
    if not lines:
        return 0
    os.makedirs(GEN, exist_ok=True)
    per = 300
    files = []
    hdr = HEADER.replace("Corr.Check.", "Corr.Check Model.Render Proofs.RenderP.")
    for k in range(0, len(lines), per):
        chunk = lines[k:k + per]
        path = os.path.join(GEN, f"cases_C12_p{os.getpid()}_{k // per}.v")
        body = [hdr, "Goal True.\n"] + [f"  chk_eq {i}%nat {lhs} {rhs}.\n" for i, (lhs, rhs, _) in enumerate(chunk)] + ["exact I. Qed.\n"]
        open(path, "w").write("".join(body))
        files.append((path, chunk))
    with ThreadPoolExecutor(max_workers=16) as ex:
        results = list(ex.map(lambda fc: run_coq_file(fc[0]), files))
    mism = 0
    for (path, chunk), (status, mm, raw) in zip(files, results):
        if status != "ok":
            violations.append({"kind": "correspondence", "signature": None,
                               "what": f"correspondence file {os.path.basename(path)} failed to evaluate", "log": raw[-1500:]})
        for idx, model in mm:
            mism += 1
            if mism <= 3:
                violations.append({"kind": "correspondence", "signature": None,
                                   "what": "correspondence family 'C12-render' no longer checks: model and implementation render an error differently",
                                   "case": chunk[idx][2].to_json(), "model_outcome": model[:1500], "observed_outcome": chunk[idx][1][:1500]})
        if status == "ok" and not mm:
            for ext in (".v", ".vo", ".vok", ".vos", ".glob"):
                try:
                    os.remove(path[:-2] + ext)
                except OSError:
                    pass
    return mism


def replay(path: str) -> int:
    from .common import case_from_json
    j = json.load(open(path))
    cj = j.get("replay_case") or j.get("case")
    if not cj:
        print("no input in replay file:", j.get("what"))
        return 1
    if cj.get("expected_type_forms"):
        r = expected_type_forms()
        print("property violated: " + r["what"] if r else "property holds for expected types of every form")
        return 1 if r else 0
    c = case_from_json(cj)
    observe(c)
    inv = c.raw
    print("invalid:", inv)
    try:
        out = to_serializable_errs(inv)
        print("rendered:", out, "| json only:", json_only(out))
        json.dumps(out, allow_nan=False)
        print("message:", _get_arg_fail_message(inv)[:300])
        return 0 if json_only(out) else 1
    except Exception as e:  # noqa
        print("raised:", repr(e))
        return 1


from ..facts import attach as _attach, typechecks as _typechecks  # noqa: E402
_attach(globals(), _typechecks.obligation("C12"))
