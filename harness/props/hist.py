"""Shared-instance histories, re-entrant and overlapping calls: helpers used by several properties.

A property that quantifies over all inputs of a validator holds of the validator *object* the user
keeps, whatever that object did before and whatever else it is doing: every call on a used or busy
instance is compared with the same call on a freshly built one."""
from __future__ import annotations

from typing import Any, Callable, List, Optional, Tuple

from .. import gen as G
from ..build import Ctx, HarnessError, to_py
from ..corr import drive
from ..lang import from_json, to_json


def _alone(vt, lazy, xt, mode):
    from .C13 import run_alone
    return run_alone(vt, lazy, xt, mode)


def _same(ctx_a, a, ctx_b, b) -> bool:
    from .C13 import same
    return same(ctx_a, a, ctx_b, b)


def history_diff(vt, lazy, ops) -> Optional[dict]:
    """One shared instance, a history of (mode, input) calls; first call that differs from the fresh-instance call."""
    ctx = Ctx(G.STD_CLASSES, lazy)
    v = ctx.validator(vt)
    for i, (mode, xt) in enumerate(ops):
        x = to_py(xt, ctx.ct)
        try:
            r = v(x) if mode == "sync" else drive(v.validate_async(x))
        except RecursionError:
            raise HarnessError("recursion limit")
        except Exception as e:  # noqa
            r = e
        actx, alone = _alone(vt, lazy, xt, mode)
        if not _same(ctx, r, actx, alone):
            return {"i": i, "mode": mode, "x": x, "got": r, "alone": alone}
    return None


def history_violation(prefix: str, vt, lazy, ops, what: str = "",
                      judge: Optional[Callable[[dict], bool]] = None) -> Optional[dict]:
    """[judge] narrows the differences that count for the property at hand (default: any)."""
    try:
        d = history_diff(vt, lazy, ops)
    except HarnessError:
        return None
    if d is None or (judge is not None and not judge(d)):
        return None
    kind = "raised" if isinstance(d["got"], Exception) else "returned"
    return {"kind": "oracle", "signature": f"{prefix}:history",
            "what": f"{what}call {d['i']} ({d['mode']}, {d['x']!r}) on an instance with {d['i']} earlier calls {kind} {d['got']!r}; "
                    f"a fresh instance gives {d['alone']!r}",
            "replay_case": {"history": True, "v": to_json(vt), "lazy": to_json(lazy),
                            "ops": [[m, to_json(x)] for m, x in ops]}}


def overlap_violation(prefix: str, vt, lazy, xts, limit: int) -> Tuple[Optional[dict], int]:
    """All interleavings (at their real suspension points) of async calls sharing one instance."""
    from .C13 import check_interleavings
    try:
        r, n = check_interleavings(vt, lazy, list(xts), limit)
    except HarnessError:
        return None, 0
    if r is None:
        return None, n
    return ({"kind": "oracle", "signature": f"{prefix}:overlapping-calls", "what": r["what"],
             "replay_case": {"overlap": True, "v": to_json(vt), "lazy": to_json(lazy),
                             "inputs": [to_json(x) for x in xts]}}, n)


def raised(d: dict) -> bool:
    """the call on the used instance raised although the fresh instance answers"""
    return isinstance(d["got"], Exception) and not isinstance(d["alone"], Exception)


def replay_special(rc: dict, prefix: str, judge: Optional[Callable[[dict], bool]] = None) -> Optional[int]:
    """Replay of the two special case shapes; None when rc is an ordinary case."""
    if rc.get("scribble"):
        v, n = scribble_violation(prefix)
        print("property violated: " + v["what"] if v else f"property holds on {n} histories in which the caller edits its results")
        return 1 if v else 0
    if rc.get("other_uses"):
        v, n = other_uses_violation(prefix)
        print("property violated: " + v["what"] if v else f"property holds on {n} histories in which the validator is also described, printed, compared and its errors rendered")
        return 1 if v else 0
    if rc.get("odd_equality"):
        v = odd_equality_violation(prefix)
        print("property violated: " + v["what"] if v else "property holds for values with unusual equality")
        return 1 if v else 0
    if rc.get("history"):
        ops = [(m, from_json(x)) for m, x in rc["ops"]]
        v = history_violation(prefix, from_json(rc["v"]), from_json(rc.get("lazy", [])), ops, judge=judge)
        print("property violated on this history: " + v["what"] if v else "property holds on this history")
        return 1 if v else 0
    if rc.get("overlap"):
        v, n = overlap_violation(prefix, from_json(rc["v"]), from_json(rc.get("lazy", [])),
                                 [from_json(x) for x in rc["inputs"]], 200000)
        print("property violated under this schedule: " + v["what"] if v else f"property holds under all {n} schedules")
        return 1 if v else 0
    return None


# ------------------------------------------------------------------ values with unusual (but legal) equality
class _AlwaysEqual:
    """equal to everything (like unittest.mock.ANY)"""
    def __eq__(self, other):
        return True
    def __ne__(self, other):
        return False
    def __hash__(self):
        return 7
    def __repr__(self):
        return "<always-equal>"


class _EqRaises:
    """comparing it raises (array-likes with ambiguous truth values do)"""
    def __eq__(self, other):
        raise ValueError("the truth value of this comparison is ambiguous")
    __hash__ = None  # type: ignore
    def __repr__(self):
        return "<eq-raises>"


class _EqNotBool:
    """== answers with a non-empty list (element-wise comparison)"""
    def __eq__(self, other):
        return [False, True]
    __hash__ = None  # type: ignore
    def __repr__(self):
        return "<eq-gives-a-list>"


def odd_equality_violation(prefix: str) -> Optional[dict]:
    """None, `nothing` and Just are recognised by what they *are*, not by what a value claims to equal: a value whose
    __eq__ says yes to everything (or raises, or answers with a list) is neither None nor a Maybe nor an int - the
    None / Optional / Maybe validators reject it with an Invalid about that very object, both ways of calling them
    agree, and nothing raises."""
    from koda_validate import (DictValidatorAny, IntValidator, Invalid, ListValidator, NoneValidator,
                               OptionalValidator, UnionValidator)
    from koda_validate.maybe import MaybeValidator
    mk = [("NoneValidator()", lambda: NoneValidator()),
          ("OptionalValidator(IntValidator())", lambda: OptionalValidator(IntValidator())),
          ("MaybeValidator(IntValidator())", lambda: MaybeValidator(IntValidator())),
          ("UnionValidator.untyped(NoneValidator(), IntValidator())", lambda: UnionValidator.untyped(NoneValidator(), IntValidator())),
          ("OptionalValidator(MaybeValidator(IntValidator()))", lambda: OptionalValidator(MaybeValidator(IntValidator())))]
    for name, make in mk:
        for val in (_AlwaysEqual(), _EqRaises(), _EqNotBool()):
            for shape in ("bare", "list", "dict"):
                v0 = make()
                v = v0 if shape == "bare" else ListValidator(v0) if shape == "list" else DictValidatorAny({"k": v0})
                x = val if shape == "bare" else [val] if shape == "list" else {"k": val}
                outs = []
                for mode in ("sync", "async"):
                    try:
                        r = v(x) if mode == "sync" else drive(v.validate_async(x))
                    except Exception as e:  # noqa
                        return {"kind": "oracle", "signature": f"{prefix}:odd-equality",
                                "what": f"{name} ({shape}, {mode}) given {val!r} raised {e!r}", "replay_case": {"odd_equality": True}}
                    outs.append(r)
                    if type(r) is not Invalid:
                        return {"kind": "oracle", "signature": f"{prefix}:odd-equality",
                                "what": f"{name} ({shape}, {mode}) given {val!r} - which is not None, not a Maybe and not an int - returned {r!r}",
                                "replay_case": {"odd_equality": True}}
                    node = r if shape == "bare" else (list(r.err_type.indexes.values()) + [None])[0] if shape == "list" and hasattr(r.err_type, "indexes") \
                        else (list(r.err_type.keys.values()) + [None])[0] if shape == "dict" and hasattr(r.err_type, "keys") else None
                    if node is None or node.value is not val or node.validator is not v0:
                        return {"kind": "oracle", "signature": f"{prefix}:odd-equality",
                                "what": f"{name} ({shape}, {mode}) given {val!r}: the error is not about that object and this validator: {r!r}",
                                "replay_case": {"odd_equality": True}}
    return None


# ------------------------------------------------------------------ a caller that edits the results it was handed
def scribble(r: Any, depth: int = 0) -> None:
    """What a caller may do with a result it owns: edit, in place, the containers the library built for it - the list
    of failing predicates, the per-key / per-index / per-variant error tables, the set of expected keys, a payload
    list / dict / set. (Renderers that tidy an error tree before showing it do exactly this.)"""
    from koda_validate import Invalid, Valid
    from koda_validate import errors as KE
    if depth > 30:
        return
    if type(r) is Valid:
        p = r.val
        if type(p) is list:
            p.append("<edited>")
        elif type(p) is dict:
            p["<edited>"] = True
        elif type(p) is set:
            p.add("<edited>")
        return
    if type(r) is not Invalid:
        return
    e = r.err_type
    if type(e) is KE.PredicateErrs and type(e.predicates) is list:
        e.predicates.reverse()
        if e.predicates:
            e.predicates.pop()
        e.predicates.append("<edited>")
    elif type(e) is KE.ExtraKeysErr and isinstance(e.expected_keys, set):
        e.expected_keys.clear()
    else:
        kids = []
        for attr in ("keys", "indexes"):
            d = getattr(e, attr, None)
            if type(d) is dict:
                for k in list(d.values()):
                    kids += [k] if type(k) is Invalid else [x for x in (getattr(k, "key", None), getattr(k, "val", None)) if x is not None]
                d.clear()
        for attr in ("variants", "item_errs"):
            l = getattr(e, attr, None)
            if type(l) is list:
                kids += list(l)
                del l[:]
        ch = getattr(e, "child", None)
        if type(ch) is Invalid:
            kids.append(ch)
        for k in kids:
            scribble(k, depth + 1)


def _has_extra_keys_err(r: Any, depth: int = 0) -> bool:
    from koda_validate import Invalid
    from koda_validate import errors as KE
    if type(r) is not Invalid or depth > 30:
        return False
    e = r.err_type
    if type(e) is KE.ExtraKeysErr:
        return True
    kids = []
    for attr in ("keys", "indexes"):
        d = getattr(e, attr, None)
        if type(d) is dict:
            for k in d.values():
                kids += [k] if type(k) is Invalid else [x for x in (getattr(k, "key", None), getattr(k, "val", None)) if x is not None]
    for attr in ("variants", "item_errs"):
        kids += list(getattr(e, attr, None) or [])
    if type(getattr(e, "child", None)) is Invalid:
        kids.append(e.child)
    return any(_has_extra_keys_err(k, depth + 1) for k in kids)


SCRIBBLE_TREES = None


def scribble_trees():
    from ..lang import N, P, Some
    S_, I_ = G.S, G.I
    INT = ("Scalar", ("KInt",), None, [], [], [])
    ALLFAIL = ("Scalar", ("KInt",), None, [], [("PMin", I_(5), False), ("PMax", I_(1), False)], [])
    ALLFAIL_A = ("Scalar", ("KInt",), None, [], [("PMin", I_(5), False), ("PMax", I_(1), False)], [("APred", N(1))])
    STRP = ("Scalar", ("KStr",), None, [("Strip",)], [("PNotBlank",), ("PMaxLength", 3)], [])
    rec_in = [("VDict", [P(S_("a"), I_(1)), P(S_("zz"), I_(2))]), ("VDict", [P(S_("a"), I_(1)), P(S_("b"), I_(2))]),
              ("VDict", [P(S_("a"), S_("no"))]), ("VDict", [P(S_("a"), I_(3))]), ("VDict", [P(S_("zz"), I_(2))])]
    return [
        (ALLFAIL, [I_(3), I_(3), I_(7), I_(0), S_("x")]), (ALLFAIL_A, [I_(3), I_(3), I_(7)]), (STRP, [S_("  "), S_(" abcd "), S_("  "), S_("a")]),
        (("ListV", ALLFAIL, [("PMinItems", 3), ("PMaxItems", 0)], [], None), [("VList", [I_(3)]), ("VList", [I_(3)]), ("VList", [I_(3), I_(3), I_(3)])]),
        (("UnionV", [ALLFAIL, STRP]), [I_(3), S_("  "), I_(3), G.NONE]),
        (("DictAnyV", [P(S_("a"), INT), P(S_("b"), ("KeyNotRequired", INT))], None, None, True), rec_in),
        (("RecordV", [P(S_("a"), INT), P(S_("b"), ("KeyNotRequired", INT))], N(2), None, None, True), rec_in),
        (("ClassV", ("RkData",), N(G.C_DATA), [P(S_("a"), P(INT, True)), P(S_("b"), P(INT, False))], None, None, True, None), rec_in),
        (("ClassV", ("RkTyped",), N(G.C_TYPED), [P(S_("k"), P(INT, True)), P(S_("o"), P(INT, False))], None, None, True, None),
         [("VDict", [P(S_("k"), I_(1)), P(S_("zz"), I_(2))]), ("VDict", [P(S_("k"), I_(1)), P(S_("o"), I_(2))]), ("VDict", [P(S_("k"), I_(3))])]),
        (("ClassV", ("RkNamed",), N(G.C_NAMED), [P(S_("x"), P(INT, True)), P(S_("y"), P(INT, False))], None, None, True, None),
         [("VDict", [P(S_("x"), I_(1)), P(S_("zz"), I_(2))]), ("VDict", [P(S_("x"), I_(1)), P(S_("y"), I_(2))]), ("VDict", [P(S_("x"), I_(3))])]),
        (("MapV", STRP, ALLFAIL, [("PMinKeys", 2)], [], None), [("VDict", [P(S_(" k "), I_(3))]), ("VDict", [P(S_(" k "), I_(3)), P(S_("  "), I_(3))]), ("VDict", [])]),
    ]


def scribble_violation(prefix: str, limit: int = 400) -> Tuple[Optional[dict], int]:
    """Histories on one instance in which the caller edits every result in place before the next call: each call
    still returns what a fresh instance returns. (Calls whose result holds an ExtraKeysErr are used to edit, but not
    compared once an earlier ExtraKeysErr has been edited: that error object is one per validator, by design.)"""
    import itertools
    n = 0
    for vt, alpha in scribble_trees():
        seqs = [list(s) for k in (2, 3) for s in itertools.product(alpha, repeat=k)]
        for xs in seqs[:limit]:
            for modes in (("sync",) * len(xs), ("async",) * len(xs), tuple("sync" if i % 2 == 0 else "async" for i in range(len(xs)))):
                n += 1
                try:
                    ctx = Ctx(G.STD_CLASSES, [])
                    v = ctx.validator(vt)
                except HarnessError:
                    continue
                edited_extra = False
                for i, (mode, xt) in enumerate(zip(modes, xs)):
                    x = to_py(xt, ctx.ct)
                    try:
                        r = v(x) if mode == "sync" else drive(v.validate_async(x))
                    except Exception as e:  # noqa
                        r = e
                    actx, alone = _alone(vt, [], xt, mode)
                    # once an ExtraKeysErr has been edited, two results that both hold one are not compared (the edited
                    # object is handed out again); one that holds it against one that does not is a difference
                    skip = edited_extra and _has_extra_keys_err(r) and _has_extra_keys_err(alone)
                    if not skip and not _same(ctx, r, actx, alone):
                        kind = "raised" if isinstance(r, Exception) else "returned"
                        return ({"kind": "oracle", "signature": f"{prefix}:edited-results",
                                 "what": f"call {i} ({mode}, {x!r}) {kind} {r!r} on an instance whose {i} earlier results the caller had edited in place; "
                                         f"a fresh instance gives {alone!r}",
                                 "replay_case": {"scribble": True}}, n)
                    edited_extra = edited_extra or _has_extra_keys_err(r)
                    scribble(r)
    return None, n



# ------------------------------------------------------------------ histories in which the validator is put to its other uses
def other_uses_trees():
    from ..lang import N, P, Some
    S_, I_ = G.S, G.I
    INT = ("Scalar", ("KInt",), None, [], [], [])
    BOTH = ("Scalar", ("KInt",), None, [], [("PMin", I_(0), False)], [("APred", N(1))])
    STR_BOTH = ("Scalar", ("KStr",), None, [("Strip",)], [("PMaxLength", 3)], [("APred", N(0))])
    lists = [("VList", [I_(1)]), ("VList", [I_(1), I_(2), I_(3)]), ("VList", []), ("VList", [S_("x")]), I_(1)]
    tups = [("VTuple", [I_(1)]), ("VTuple", [I_(1), I_(2), I_(3)]), ("VList", [I_(1), I_(2)]), ("VTuple", [])]
    maps = [("VDict", [P(S_("k"), I_(1))]), ("VDict", [P(S_("k"), I_(1)), P(S_("l"), I_(2)), P(S_("m"), I_(3))]), ("VDict", [])]
    extra = [
        (BOTH, [I_(1), I_(-1), S_("x")]), (STR_BOTH, [S_(" a "), S_("abcd"), I_(1)]),
        (("ListV", INT, [("PMinItems", 1)], [("APred", N(1))], None), lists),
        (("ListV", BOTH, [("PMinItems", 1), ("PMaxItems", 2)], [("APred", N(0)), ("APred", N(1))], None), lists),
        (("UTupleV", INT, [("PMinItems", 1)], [("APred", N(1))], Some(("CoTupleOrList",))), tups),
        (("MapV", ("Scalar", ("KStr",), None, [], [], []), INT, [("PMinKeys", 1)], [("APred", N(1))], None), maps),
        (("ListV", ("ListV", INT, [("PMaxItems", 2)], [("APred", N(1))], None), [("PMinItems", 1)], [], None),
         [("VList", [("VList", [I_(1)])]), ("VList", [("VList", [I_(1), I_(2), I_(3)])]), ("VList", [])]),
        (("OptionalV", ("NoneV", None), ("ListV", INT, [("PMinItems", 1)], [("APred", N(1))], None)), lists + [G.NONE]),
    ]
    return list(scribble_trees()) + extra


def _other_uses(v, v2, r) -> None:
    """What a program does with a validator besides calling it. Nothing here may change what the next call returns;
    whether each of these is itself right is the business of C10 / C12 / C19."""
    from koda_validate.serialization import to_json_schema, to_named_json_schema, to_serializable_errs
    from koda_validate import Invalid
    for f in (lambda: to_json_schema(v), lambda: to_named_json_schema("T", v), lambda: repr(v), lambda: v == v2, lambda: v2 == v,
              lambda: to_serializable_errs(r) if isinstance(r, Invalid) else None, lambda: repr(r)):
        try:
            f()
        except Exception:  # noqa
            pass


def other_uses_violation(prefix: str) -> Tuple[Optional[dict], int]:
    """Histories on one instance in which, between two validations, the validator is described as a JSON Schema,
    printed, compared with an equal validator, and the result of the first call is rendered: the second call still
    returns what a fresh instance returns (also when the description ended in its documented TypeError)."""
    import itertools
    n = 0
    for vt, alpha in other_uses_trees():
        for x1, x2 in itertools.product(alpha, repeat=2):
            for modes in (("sync", "sync"), ("async", "async"), ("sync", "async"), ("async", "sync")):
                n += 1
                try:
                    ctx = Ctx(G.STD_CLASSES, [])
                    v = ctx.validator(vt)
                    v2 = Ctx(G.STD_CLASSES, []).validator(vt)
                except HarnessError:
                    continue
                r = None
                for i, (mode, xt) in enumerate(zip(modes, (x1, x2))):
                    x = to_py(xt, ctx.ct)
                    try:
                        r = v(x) if mode == "sync" else drive(v.validate_async(x))
                    except Exception as e:  # noqa
                        r = e
                    actx, alone = _alone(vt, [], xt, mode)
                    if not _same(ctx, r, actx, alone):
                        kind = "raised" if isinstance(r, Exception) else "returned"
                        return ({"kind": "oracle", "signature": f"{prefix}:other-uses",
                                 "what": f"call {i} ({mode}, {x!r}) {kind} {r!r} on an instance that, after its first call, had been described "
                                         f"(to_json_schema / to_named_json_schema), printed, compared with an equal validator and had its result rendered; "
                                         f"a fresh instance gives {alone!r}; validator {v2!r}",
                                 "replay_case": {"other_uses": True}}, n)
                    _other_uses(v, v2, r)
    return None, n
