"""Shared-instance histories, re-entrant and overlapping calls: helpers used by several properties.

A property that quantifies over all inputs of a validator holds of the validator *object* the user
keeps, whatever that object did before and whatever else it is doing: every call on a used or busy
instance is compared with the same call on a freshly built one."""
from __future__ import annotations

from typing import Any, Callable, List, Optional, Tuple

from .. import gen as G
from ..build import Ctx, HarnessError, to_py
from ..corr import drive
from ..lang import from_json, to_json


def _alone(vt, lazy, xt, mode):
    from .C13 import run_alone
    return run_alone(vt, lazy, xt, mode)


def _same(ctx_a, a, ctx_b, b) -> bool:
    from .C13 import same
    return same(ctx_a, a, ctx_b, b)


def history_diff(vt, lazy, ops) -> Optional[dict]:
    """One shared instance, a history of (mode, input) calls; first call that differs from the fresh-instance call."""
    ctx = Ctx(G.STD_CLASSES, lazy)
    v = ctx.validator(vt)
    for i, (mode, xt) in enumerate(ops):
        x = to_py(xt, ctx.ct)
        try:
            r = v(x) if mode == "sync" else drive(v.validate_async(x))
        except RecursionError:
            raise HarnessError("recursion limit")
        except Exception as e:  # noqa
            r = e
        actx, alone = _alone(vt, lazy, xt, mode)
        if not _same(ctx, r, actx, alone):
            return {"i": i, "mode": mode, "x": x, "got": r, "alone": alone}
    return None


def history_violation(prefix: str, vt, lazy, ops, what: str = "",
                      judge: Optional[Callable[[dict], bool]] = None) -> Optional[dict]:
    """[judge] narrows the differences that count for the property at hand (default: any)."""
    try:
        d = history_diff(vt, lazy, ops)
    except HarnessError:
        return None
    if d is None or (judge is not None and not judge(d)):
        return None
    kind = "raised" if isinstance(d["got"], Exception) else "returned"
    return {"kind": "oracle", "signature": f"{prefix}:history",
            "what": f"{what}call {d['i']} ({d['mode']}, {d['x']!r}) on an instance with {d['i']} earlier calls {kind} {d['got']!r}; "
                    f"a fresh instance gives {d['alone']!r}",
            "replay_case": {"history": True, "v": to_json(vt), "lazy": to_json(lazy),
                            "ops": [[m, to_json(x)] for m, x in ops]}}


def overlap_violation(prefix: str, vt, lazy, xts, limit: int) -> Tuple[Optional[dict], int]:
    """All interleavings (at their real suspension points) of async calls sharing one instance."""
    from .C13 import check_interleavings
    try:
        r, n = check_interleavings(vt, lazy, list(xts), limit)
    except HarnessError:
        return None, 0
    if r is None:
        return None, n
    return ({"kind": "oracle", "signature": f"{prefix}:overlapping-calls", "what": r["what"],
             "replay_case": {"overlap": True, "v": to_json(vt), "lazy": to_json(lazy),
                             "inputs": [to_json(x) for x in xts]}}, n)


def raised(d: dict) -> bool:
    """the call on the used instance raised although the fresh instance answers"""
    return isinstance(d["got"], Exception) and not isinstance(d["alone"], Exception)


def replay_special(rc: dict, prefix: str, judge: Optional[Callable[[dict], bool]] = None) -> Optional[int]:
    """Replay of the two special case shapes; None when rc is an ordinary case."""
    if rc.get("odd_equality"):
        v = odd_equality_violation(prefix)
        print("property violated: " + v["what"] if v else "property holds for values with unusual equality")
        return 1 if v else 0
    if rc.get("history"):
        ops = [(m, from_json(x)) for m, x in rc["ops"]]
        v = history_violation(prefix, from_json(rc["v"]), from_json(rc.get("lazy", [])), ops, judge=judge)
        print("property violated on this history: " + v["what"] if v else "property holds on this history")
        return 1 if v else 0
    if rc.get("overlap"):
        v, n = overlap_violation(prefix, from_json(rc["v"]), from_json(rc.get("lazy", [])),
                                 [from_json(x) for x in rc["inputs"]], 200000)
        print("property violated under this schedule: " + v["what"] if v else f"property holds under all {n} schedules")
        return 1 if v else 0
    return None


# ------------------------------------------------------------------ values with unusual (but legal) equality
class _AlwaysEqual:
    """equal to everything (like unittest.mock.ANY)"""
    def __eq__(self, other):
        return True
    def __ne__(self, other):
        return False
    def __hash__(self):
        return 7
    def __repr__(self):
        return "<always-equal>"


class _EqRaises:
    """comparing it raises (array-likes with ambiguous truth values do)"""
    def __eq__(self, other):
        raise ValueError("the truth value of this comparison is ambiguous")
    __hash__ = None  # type: ignore
    def __repr__(self):
        return "<eq-raises>"


class _EqNotBool:
    """== answers with a non-empty list (element-wise comparison)"""
    def __eq__(self, other):
        return [False, True]
    __hash__ = None  # type: ignore
    def __repr__(self):
        return "<eq-gives-a-list>"


def odd_equality_violation(prefix: str) -> Optional[dict]:
    """None, `nothing` and Just are recognised by what they *are*, not by what a value claims to equal: a value whose
    __eq__ says yes to everything (or raises, or answers with a list) is neither None nor a Maybe nor an int - the
    None / Optional / Maybe validators reject it with an Invalid about that very object, both ways of calling them
    agree, and nothing raises."""
    from koda_validate import (DictValidatorAny, IntValidator, Invalid, ListValidator, NoneValidator,
                               OptionalValidator, UnionValidator)
    from koda_validate.maybe import MaybeValidator
    mk = [("NoneValidator()", lambda: NoneValidator()),
          ("OptionalValidator(IntValidator())", lambda: OptionalValidator(IntValidator())),
          ("MaybeValidator(IntValidator())", lambda: MaybeValidator(IntValidator())),
          ("UnionValidator.untyped(NoneValidator(), IntValidator())", lambda: UnionValidator.untyped(NoneValidator(), IntValidator())),
          ("OptionalValidator(MaybeValidator(IntValidator()))", lambda: OptionalValidator(MaybeValidator(IntValidator())))]
    for name, make in mk:
        for val in (_AlwaysEqual(), _EqRaises(), _EqNotBool()):
            for shape in ("bare", "list", "dict"):
                v0 = make()
                v = v0 if shape == "bare" else ListValidator(v0) if shape == "list" else DictValidatorAny({"k": v0})
                x = val if shape == "bare" else [val] if shape == "list" else {"k": val}
                outs = []
                for mode in ("sync", "async"):
                    try:
                        r = v(x) if mode == "sync" else drive(v.validate_async(x))
                    except Exception as e:  # noqa
                        return {"kind": "oracle", "signature": f"{prefix}:odd-equality",
                                "what": f"{name} ({shape}, {mode}) given {val!r} raised {e!r}", "replay_case": {"odd_equality": True}}
                    outs.append(r)
                    if type(r) is not Invalid:
                        return {"kind": "oracle", "signature": f"{prefix}:odd-equality",
                                "what": f"{name} ({shape}, {mode}) given {val!r} - which is not None, not a Maybe and not an int - returned {r!r}",
                                "replay_case": {"odd_equality": True}}
                    node = r if shape == "bare" else (list(r.err_type.indexes.values()) + [None])[0] if shape == "list" and hasattr(r.err_type, "indexes") \
                        else (list(r.err_type.keys.values()) + [None])[0] if shape == "dict" and hasattr(r.err_type, "keys") else None
                    if node is None or node.value is not val or node.validator is not v0:
                        return {"kind": "oracle", "signature": f"{prefix}:odd-equality",
                                "what": f"{name} ({shape}, {mode}) given {val!r}: the error is not about that object and this validator: {r!r}",
                                "replay_case": {"odd_equality": True}}
    return None
