"""C10 - JSON Schema generation returns a well-formed, serialisable schema or a TypeError."""
from __future__ import annotations

import json
import os
import random
import re
import subprocess
import time
from concurrent.futures import ThreadPoolExecutor
from typing import Any, Dict, List, Optional, Tuple

import importlib

import koda_validate.serialization.json_schema as JS

from .. import gen as G
from ..build import Ctx, HarnessError, exn_term, from_py, to_py
from ..corr import GEN, HEADER, Case, run_coq_file, subvalues
from ..lang import N, P, Some, coq, freeze, from_json, to_json

ROOT = os.path.dirname(os.path.dirname(os.path.dirname(os.path.abspath(__file__))))
from ..rundir import GEN as _GEN  # noqa: E402
ASSUMPTIONS = [
    "length / count parameters are non-negative (the documented domain of MinLength, MaxItems, ...)",
    "record labels with colliding str() forms, zero-field n-tuples and NaN Decimal choices are excluded from the theorem (cfg_ok) and recorded as known findings with their witnesses",
    "str(Decimal), str(UUID), isoformat(), bytes.decode, re.escape on bytes and regex source texts are per-case text tables (quantified in the theorem)",
    "the meta-schema is read structurally for the keywords the generator can emit (Model/SchemaWf.v); the implementation's output is additionally checked with jsonschema's Draft202012Validator.check_schema",
    "choices holding two or more tuples are not generated (the model orders scalars only)",
]
TRUSTED_EXTRA = [
    "harness/jsbridge.py run under python3-vt: jsonschema 4.26 meta-schema check of every schema the implementation returns",
]
EXTRA_PROOF_FILES = ["generated/Facts_effects_C10.v"]
TRUSTED_EXTRA.append("fact translator harness/facts/effects.py (python ast) regenerates coq/generated/Facts_effects_C10.v from /repo on every run: no function of the package (json_schema.py included) stores into objects reachable from its arguments")


def regenerate_facts():
    from ..facts import effects
    try:
        d = effects.emit(os.environ.get("KV_REPO", "/repo"), os.path.join(_GEN, "Facts_effects_C10.v"))
        if d["bad"]:
            return True, "stores to caller-owned state: " + "; ".join(effects.key(w) for w in d["bad"][:4])
        return True, ""
    except Exception as e:
        return False, f"effects extractor failed: {e}"


HDR = HEADER.replace("Corr.Check.", "Corr.Check Model.Schema Corr.SchemaCheck.")
NAMES = ["A", "Tree", "type", "", "né", "a b", "x/y", "a%20b", "%s", "{0}", "100%"]
REFS = ["#/components/schemas/", "#/$defs/", "", "http://x/y#/", "#/components/schemas/My%20Api/", "#/$defs/100%25/", "#/$defs/50%/",
        "#/%s/", "#/%(x)s/", "#/{}/", "#/{0}/{name}/", "#/%%/"]
JSON_TYPES = (str, int, float, bool, type(None))


# ------------------------------------------------------------------ generation
def cross_pool(kind: str, rng: random.Random) -> list:
    if rng.random() < 0.7:
        return G.KIND_POOL[kind]
    return rng.choice([G.STRS, G.INTS, G.FLOATS, G.BYTESS, G.DECS + G.DECS_HOSTILE, G.DATES, G.DTS, G.UUIDS,
                       [G.NONE, G.TRUE, G.FALSE],
                       # tuple parameters: described element by element, at any depth
                       [("VTuple", [G.I(1), G.S("x")]), ("VTuple", [G.D15, G.DATE1]), ("VTuple", [G.B(b"a"), ("VTuple", [G.I(1), G.UUID1])]),
                        ("VTuple", [G.DT1, G.F1]), ("VTuple", [G.NAN]), ("VTuple", [("VTuple", [G.D1])]), ("VTuple", [])],
                       [("VSet", [G.I(1)]), G.OBJ, G.STRSUB, G.INTSUB, G.BIGINT, G.SURR]])


def schema_preds(kind: str, rng: random.Random) -> list:
    pool = cross_pool(kind, rng)
    c = lambda: rng.choice(pool)
    n = lambda: rng.choice([0, 1, 2, 3, 10])
    out = [("PMin", c(), rng.random() < 0.5), ("PMax", c(), rng.random() < 0.5),
           ("PMinLength", n()), ("PMaxLength", n()), ("PExactLength", n()),
           ("PStartsWith", c()), ("PEndsWith", c()), ("PNotBlank",),
           ("PRegex", N(rng.choice([0, 1, 2, 3]))), ("PEmail",), ("PEqualTo", c())]
    k = min(len(pool), rng.choice([0, 1, 1, 2, 3]))
    cs = rng.sample(pool, k)
    if sum(1 for x in cs if x[0] == "VTuple") < 2:
        out.append(("PChoices", cs))
    if rng.random() < 0.12:
        nz = [p for p in G.KIND_POOL["KInt"] if p != G.I(0)]
        out += [("PMultipleOf", rng.choice(nz)), ("PUser", N(rng.choice([0, 1])))]
    return out


def gen_scalar(rng: random.Random):
    kind = rng.choice(G.KINDS)
    co = Some((G.DEFAULT_CO[kind],)) if kind in G.DEFAULT_CO and rng.random() < 0.5 else None
    ps = [rng.choice(schema_preds(kind, rng)) for _ in range(rng.choice([0, 1, 1, 2, 3]))]
    aps = [("APred", N(0))] if rng.random() < 0.04 else []
    pre = [("Strip",)] if kind in ("KStr", "KBytes") and rng.random() < 0.2 else []
    return ("Scalar", (kind,), co, pre, ps, aps)


LABELS = G.LEAF_KEYS + [G.S("1"), G.S(""), G.S("é"), G.TRUE]


def gen_tree(rng: random.Random, depth: int, lazy_ok: bool):
    if depth <= 0:
        r = rng.random()
        if r < 0.75:
            return gen_scalar(rng)
        if r < 0.85:
            return ("EqualsV", rng.choice(G.ATOMS_HASHABLE + G.FLOATS + G.BYTESS + G.DECS_HOSTILE), [])
        if r < 0.90:
            return ("IsDictV",)
        if r < 0.95 and lazy_ok:
            return ("LazyV", N(0), rng.random() < 0.8)
        return rng.choice([("AlwaysValid",), ("NoneV", None), ("UserV", N(0), False),
                           ("Scalar", ("KType", ("TInt",)), None, [], [], [])])
    sub = lambda: gen_tree(rng, depth - 1, lazy_ok)
    n = lambda: rng.choice([0, 1, 2, 3])
    cps = lambda: [rng.choice([("PMinItems", n()), ("PMaxItems", n()), ("PUniqueItems",)] +
                              ([("PExactItemCount", n())] if rng.random() < 0.1 else []))
                   for _ in range(rng.choice([0, 0, 1, 2]))]
    r = rng.random()
    aps = lambda: [("APred", N(rng.choice([0, 1])))] if rng.random() < 0.12 else []
    if r < 0.12:
        return ("ListV", sub(), cps(), aps(), None)
    if r < 0.20:
        return ("UTupleV", sub(), cps(), aps(), rng.choice([None, Some(("CoTupleOrList",))]))
    if r < 0.30:
        k = rng.choice([1, 1, 2, 3]) if rng.random() < 0.93 else 0
        return ("NTupleV", [sub() for _ in range(k)], None, None)
    if r < 0.38:
        mps = [rng.choice([("PMinKeys", n()), ("PMaxKeys", n())]) for _ in range(rng.choice([0, 0, 1, 2]))]
        return ("MapV", ("Scalar", ("KStr",), None, [], [], []), sub(), mps, aps(), None)
    if r < 0.56:
        keys = rng.sample(LABELS, rng.choice([0, 1, 2, 3, 4, 5]))
        if rng.random() < 0.9:     # colliding str() forms (1 / "1" / True -> "True") are a recorded finding: keep them rare
            seen, ks2 = set(), []
            for k in keys:
                s = label_text(k)
                if s not in seen:
                    seen.add(s)
                    ks2.append(k)
            keys = ks2
        ks = [P(k, (("KeyNotRequired", sub()) if rng.random() < 0.35 else sub())) for k in keys]
        if rng.random() < 0.5:
            return ("RecordV", ks, N(rng.choice([0, 1, 2])), None, None, rng.random() < 0.4)
        return ("DictAnyV", ks, None, None, rng.random() < 0.4)
    if r < 0.66:
        return G.gen_classv(rng, sub, lambda: None, lambda has: None)
    if r < 0.78:
        return ("UnionV", [sub() for _ in range(rng.choice([1, 2, 2, 3]))])
    if r < 0.86:
        return ("OptionalV", ("NoneV", None), sub())
    if r < 0.90:
        return ("CacheV", sub())
    if r < 0.95:
        return rng.choice([("SetV", sub(), [], [], None), ("MaybeV", sub())])
    return gen_scalar(rng)


def norm_choices(t):
    """A Python set keeps the first of equal members (0 / -0, 1 / True): make the term say the same."""
    if isinstance(t, tuple):
        if t and t[0] == "PChoices":
            keep, seen = [], []
            for x in t[1]:
                try:
                    px = to_py(x, None)
                    if any(px == y and hash(px) == hash(y) for y in seen):
                        continue
                    seen.append(px)
                except Exception:
                    pass
                keep.append(x)
            return ("PChoices", keep)
        return tuple(norm_choices(x) for x in t)
    if isinstance(t, list):
        return [norm_choices(x) for x in t]
    if isinstance(t, P):
        return P(norm_choices(t.a), norm_choices(t.b))
    if isinstance(t, Some):
        return Some(norm_choices(t.x))
    return t


def label_text(k) -> str:
    return str(to_py(k, None)) if k[0] != "VObj" else repr(k)


# ------------------------------------------------------------------ observation
def json_term(x: Any, ct) -> Any:
    t = type(x)
    if x is None:
        return ("JNull",)
    if t is bool:
        return ("JBool", x)
    if t is int:
        return ("JInt", x)
    if t is float:
        return ("JFloat", from_py(x, ct)[1])
    if t is str:
        return ("JStr", [ord(c) for c in x])
    if t in (list, tuple):
        return ("JArr", [json_term(i, ct) for i in x])
    if t is dict and all(type(k) is str for k in x):
        return ("JObj", [P([ord(c) for c in k], json_term(v, ct)) for k, v in x.items()])
    try:
        return ("JNon", from_py(x, ct))
    except Exception:
        return ("JNon", ("VNone",))


def json_only(x: Any) -> bool:
    if type(x) in JSON_TYPES:
        return True
    if type(x) in (list, tuple):
        return all(json_only(i) for i in x)
    if type(x) is dict:
        return all(type(k) is str and json_only(v) for k, v in x.items())
    return False


def snap(o: Any, seen: Optional[dict] = None, depth: int = 0) -> Any:
    """Structural snapshot of a configured validator (attributes, recursively; callables by identity)."""
    seen = {} if seen is None else seen
    if type(o) in JSON_TYPES or type(o).__module__ in ("decimal", "datetime", "uuid"):
        return (type(o).__name__, repr(o))
    if id(o) in seen or depth > 40:
        return ("ref", seen.get(id(o), -1))
    if type(o) in (list, tuple):
        return (type(o).__name__, [snap(i, seen, depth + 1) for i in o])
    if type(o) in (set, frozenset):
        return (type(o).__name__, sorted(repr(snap(i, seen, depth + 1)) for i in o))
    if type(o) is dict:
        return ("dict", [(snap(k, seen, depth + 1), snap(v, seen, depth + 1)) for k, v in o.items()])
    mod = type(o).__module__ or ""
    if mod.startswith("koda_validate") or mod.startswith("harness"):
        seen[id(o)] = len(seen)
        names = list(getattr(o, "__dict__", {}).keys())
        for klass in type(o).__mro__:
            names += [s for s in getattr(klass, "__slots__", ()) if s not in names]
        return (type(o).__name__, [(n, snap(getattr(o, n, None), seen, depth + 1)) for n in names
                                   if n not in ("_cache",)])
    return ("obj", id(o))


class SCase:
    """One generation case: a validator or predicate term, the mode, and what was observed."""

    def __init__(self, v, named: Optional[Tuple[str, str]], pred_only: bool = False, tag: str = ""):
        self.v, self.named, self.pred_only, self.tag = norm_choices(v), named, pred_only, tag
        self.mode = "schema"

    def to_json(self) -> dict:
        return {"v": to_json(self.v), "named": list(self.named) if self.named else None,
                "pred_only": self.pred_only, "tag": self.tag}


def scase_from_json(j: dict) -> SCase:
    return SCase(from_json(j["v"]), tuple(j["named"]) if j.get("named") else None, j.get("pred_only", False), j.get("tag", ""))


def build(c: SCase, rng: Optional[random.Random] = None):
    lazy = [] if c.pred_only else [c.v]
    from .. import build as B
    B.SHARE[0] = (hash(repr(c.v)) % 2 == 0)     # half of the configurations share equal sub-validators as one instance
    try:
        ctx = Ctx(G.STD_CLASSES, lazy, rng)
        if c.pred_only:
            obj = ctx.predicate(c.v) if c.v[0] != "APred" else ctx.apredicate(c.v)
        else:
            obj = ctx.lazy_objs[0]
    except HarnessError:
        raise
    except Exception as e:  # the configuration cannot be constructed at all (unhashable choice, ...)
        raise HarnessError(f"unbuildable configuration: {e!r}")
    finally:
        B.SHARE[0] = False
    return ctx, obj


def call(c: SCase, obj: Any) -> Any:
    if c.named is None:
        return JS.to_json_schema(obj)
    return JS.to_named_json_schema(c.named[0], obj, c.named[1])


def observe(c: SCase, rng: Optional[random.Random] = None) -> None:
    ctx, obj = build(c, rng)
    c.ctx, c.obj = ctx, obj
    before = snap(obj)
    c.out = c.exc = None
    try:
        c.out = call(c, obj)
    except RecursionError as e:
        c.exc = e
    except BaseException as e:  # noqa
        c.exc = e
    c.unchanged = snap(obj) == before
    c.out2 = c.exc2 = None
    try:
        c.out2 = call(c, obj)
    except BaseException as e:  # noqa
        c.exc2 = e
    if c.exc is not None:
        c.obs = ("Exn", exn_term(c.exc))
    else:
        c.obs = ("Ok", json_term(c.out, ctx.ct))


def text_rows(c: SCase) -> list:
    """The text table of one case: every Python text function the schema may embed."""
    acc: list = []
    subvalues(c.v, acc)
    rows, seen = [], set()

    def add(kind, term, text):
        key = (kind, freeze(term))
        if key in seen:
            return
        seen.add(key)
        rows.append(P((kind,), P(term, None if text is None else Some([ord(ch) for ch in text]))))
    from datetime import date, datetime
    from decimal import Decimal
    from uuid import UUID
    for t in acc:
        try:
            py = to_py(t, c.ctx.ct)
        except Exception:
            continue
        tp = type(py)
        if tp is not str:
            try:
                add("TkStr", t, str(py))
            except Exception:
                pass
        if tp in (date, datetime):
            add("TkIso", t, py.isoformat())
        if tp is bytes:
            try:
                add("TkDecodeUtf8", t, py.decode("utf-8"))
            except UnicodeDecodeError:
                add("TkDecodeUtf8", t, None)
            add("TkPrefixBytes", t, rf"^{re.escape(py)}")
            add("TkSuffixBytes", t, rf"{re.escape(py)}$")
    from .. import userlib as U
    for i, p in U.PATTERNS.items():
        add("TkPattern", ("VInt", i), p)
    for n in range(0, 6):
        add("TkNtuple", ("VInt", n), f'a {n}-tuple of the fields in "prefixItems"')
    return rows


def model_line(c: SCase) -> Tuple[str, str]:
    tbl = coq(text_rows(c))
    tx = f"(text_lookup {tbl})"
    if c.pred_only:
        if c.v[0] == "APred":
            lhs = "(Exn ExType : pres json)"
        else:
            lhs = f"(pred_to_schema {tx} {coq(c.v)})"
            if c.named is not None:
                lhs = f"(pbind {lhs} (fun j => Ok (JObj [({coq(cps(c.named[0]))}, j)])))"
    elif c.named is None:
        lhs = f"(to_schema {tx} None {coq(c.v)})"
    else:
        lhs = f"(to_named_schema {tx} {coq(cps(c.named[0]))} {coq(cps(c.named[1]))} {coq(c.v)})"
    return lhs, f"({coq(c.obs)} : pres json)"


def cps(s: str) -> list:
    return [ord(ch) for ch in s]


# ------------------------------------------------------------------ the property on the implementation alone
def oracle_local(c: SCase) -> Optional[dict]:
    """Everything except the meta-schema check (done in one batch by the bridge)."""
    if isinstance(c.exc, RecursionError):
        return {"signature": "C10:recursion", "what": "schema generation did not terminate on a recursive validator (RecursionError)"}
    if c.exc is not None:
        if not isinstance(c.exc, TypeError):
            return {"signature": f"C10:raises:{type(c.exc).__name__}",
                    "what": f"schema generation raised {type(c.exc).__name__} ({c.exc!s:.120}) - only TypeError is allowed"}
        ok_cfg = supported_pred(c.v) if (c.pred_only and c.v[0] != "APred") else (not c.pred_only and supported(c.v, c.named is not None))
        if ok_cfg:
            return {"signature": "C10:typeerror-on-supported",
                    "what": f"TypeError ({c.exc!s:.120}) for a configuration made only of supported validators, predicates and parameter types"}
        if type(c.exc2) is not type(c.exc):
            return {"signature": "C10:nondeterministic", "what": f"second call behaved differently: {c.exc2!r} vs {c.exc!r}"}
        if not c.unchanged:
            return {"signature": "C10:validator-modified", "what": "the validator's configuration changed during schema generation"}
        return None
    if not json_only(c.out):
        return {"signature": "C10:non-json", "what": f"the schema holds non-JSON objects: {c.out!r:.300}"}
    try:
        s = json.dumps(c.out, allow_nan=False)
        back = json.loads(s)
    except Exception as e:  # noqa
        return {"signature": "C10:not-strict-json", "what": f"json.dumps(allow_nan=False) refuses the schema: {e!r}"}
    if c.exc2 is not None or c.out2 != c.out or json.dumps(c.out2, allow_nan=False) != s:
        return {"signature": "C10:nondeterministic", "what": "two calls on the same validator returned different schemas"}
    if not c.unchanged:
        return {"signature": "C10:validator-modified", "what": "the validator's configuration changed during schema generation"}
    if c.named is not None:
        if type(c.out) is not dict or list(c.out) != [c.named[0]]:
            return {"signature": "C10:named-root", "what": f"the named schema's root must have the schema name as its only key: {list(c.out)!r}"}
    if not c.pred_only and has_recurrent_lazy(c.v) and c.named is not None:
        want = c.named[1] + c.named[0]
        if want not in refs_of(c.out):
            return {"signature": "C10:no-ref", "what": f"a recurrent Lazy must be rendered as a $ref to {want!r}; refs found: {refs_of(c.out)!r}"}
    return None


# the documented support table, independent of the model: TypeError is for what is *not* in it
def convertible(x) -> bool:
    c = x[0]
    if c in ("VStr", "VInt", "VNone", "VBool", "VDate", "VDatetime", "VUuid"):
        return True
    if c == "VFloat":
        return x[1][0] == "FFin"
    if c == "VDecimal":
        return True
    if c == "VBytes":
        try:
            bytes(x[1]).decode("utf-8")
            return True
        except UnicodeDecodeError:
            return False
    if c == "VTuple":
        return all(convertible(y) for y in x[1])
    return False


def family(x) -> str:
    c = x[0]
    if c in ("VInt", "VBool", "VFloat", "VDecimal"):
        return "num"
    if c == "VDatetime":
        return "dt-aware" if x[2] is not None else "dt-naive"
    return c


def supported_pred(p) -> bool:
    c = p[0]
    if c in ("PMin", "PMax"):
        return p[1][0] in ("VInt", "VDecimal", "VDate", "VDatetime") or (p[1][0] == "VFloat" and p[1][1][0] == "FFin")
    if c == "PChoices":
        xs = p[1]
        if not all(convertible(x) for x in xs):
            return False
        if any(x[0] == "VDecimal" and x[1][0] == "DNan" for x in xs) and len(xs) > 1:
            return False      # sorted() raises InvalidOperation: the recorded finding, not a TypeError case
        return len(xs) <= 1 or (len({family(x) for x in xs}) == 1 and xs[0][0] not in ("VNone", "VTuple"))
    if c == "PEqualTo":
        return convertible(p[1])
    if c in ("PStartsWith", "PEndsWith"):
        return p[1][0] in ("VStr", "VBytes") or (p[1][0] == "VSub" and p[1][2][0] == "VStr")
    return c not in ("PMultipleOf", "PExactItemCount", "PUser")


def supported(v, named: bool) -> bool:
    c = v[0]
    ps = lambda l: all(supported_pred(p) for p in l)
    if c == "Scalar":
        return v[1][0] != "KType" and ps(v[4]) and not v[5]
    if c in ("ListV", "UTupleV"):
        return supported(v[1], named) and ps(v[2]) and not v[3]
    if c == "MapV":
        return supported(v[2], named) and ps(v[3]) and not v[4]
    if c == "NTupleV":
        return all(supported(x, named) for x in v[1])
    if c in ("RecordV", "DictAnyV"):
        return all(supported(p.b, named) for p in v[1])
    if c == "ClassV":
        return all(supported(p.b.a, named) for p in v[3])
    if c == "UnionV":
        return all(supported(x, named) for x in v[1])
    if c == "OptionalV":
        return supported(v[2], named)
    if c in ("KeyNotRequired", "CacheV"):
        return supported(v[1], named)
    if c == "IsDictV":
        return True
    if c == "LazyV":
        return named
    if c == "EqualsV":
        return v[1][0] in ("VStr", "VBytes", "VInt", "VDecimal", "VFloat", "VDate", "VDatetime", "VBool", "VUuid") and convertible(v[1])
    return False


def has_recurrent_lazy(v) -> bool:
    """A recurrent Lazy reached without passing an unsupported validator first is rendered (cheap over-approximation: any)."""
    if isinstance(v, tuple):
        if v and v[0] == "LazyV":
            return bool(v[2])
        return any(has_recurrent_lazy(x) for x in v[1:])
    if isinstance(v, list):
        # record keys whose str() forms collide share one 'properties' entry (recorded finding C10:required-duplicates):
        # the later key's schema is the one that stays, an earlier Lazy under the same label is not in the output
        def label(k):
            if isinstance(k, tuple) and k and k[0] == "VStr":
                return "".join(map(chr, k[1]))
            if isinstance(k, tuple) and k and k[0] in ("VInt", "VBool", "VNone"):
                return str(k[1]) if k[0] != "VNone" else "None"
            return None
        labels = [label(x.a) if isinstance(x, P) else None for x in v]
        live = [x for i, x in enumerate(v) if labels[i] is None or labels[i] not in labels[i + 1:]]
        return any(has_recurrent_lazy(x) for x in live)
    if isinstance(v, P):
        return has_recurrent_lazy(v.a) or has_recurrent_lazy(v.b)
    if isinstance(v, Some):
        return has_recurrent_lazy(v.x)
    return False


def refs_of(x: Any) -> list:
    out = []
    if type(x) is dict:
        for k, v in x.items():
            if k == "$ref":
                out.append(v)
            out += refs_of(v)
    elif type(x) in (list, tuple):
        for i in x:
            out += refs_of(i)
    return out


def recall(c: SCase):
    try:
        _ctx, obj = build(c)
        return ("ok", call(c, obj))
    except BaseException as e:  # noqa
        return ("exc", type(e).__name__)


def fresh_module() -> None:
    """Reset any module-level state of the generator."""
    importlib.reload(JS)


def history_differs(h: list) -> bool:
    """Does the last case of the history return something else than it does on its own?"""
    fresh_module()
    alone = recall(h[-1])
    fresh_module()
    for x in h[:-1]:
        recall(x)
    after = recall(h[-1])
    fresh_module()
    return alone != after


def find_history(victim: SCase, pool: list) -> Optional[list]:
    for p in pool[:600]:
        if p is victim or p.exc is not None:
            continue
        if history_differs([p, victim]):
            return [p, victim]
    return None


def bridge(jobs: list) -> list:
    p = subprocess.run(["python3-vt", os.path.join(ROOT, "harness", "jsbridge.py")], input=json.dumps(jobs),
                       capture_output=True, text=True, timeout=1800,
                       env={k: v for k, v in os.environ.items() if k not in ("PYTHONPATH", "PYTHONHOME")})
    if p.returncode != 0:
        raise HarnessError("jsonschema bridge failed: " + p.stderr[-500:])
    return json.loads(p.stdout)


def metaschema_sig(err: dict) -> Tuple[str, str]:
    path = [p for p in err["path"] if not p.isdigit()]
    last = path[-1] if path else ""
    kw = err["keyword"]
    if last == "required" and kw == "uniqueItems":
        return "C10:required-duplicates", "record labels with the same str() form are listed twice under 'required' (and share one 'properties' entry): not a valid schema"
    if last == "prefixItems" and kw == "minItems":
        return "C10:empty-prefixItems", "an n-tuple validator without fields is rendered with 'prefixItems': [], which the 2020-12 meta-schema rejects"
    return f"C10:metaschema:{last}:{kw}", f"the returned schema is not a valid Draft 2020-12 schema: at {'/'.join(err['path'])}: {err['message']}"


def inner_schema(c: SCase) -> Any:
    return c.out[c.named[0]] if c.named is not None else c.out


# ------------------------------------------------------------------ run
def named_recursive_cases() -> List[SCase]:
    """Every schema name x every ref location (percent-encoded fragments, braces, format directives included) around
    recurrent and non-recurrent self-references: the reference is ref_location + name, character for character."""
    _INT = ("Scalar", ("KInt",), None, [], [], [])
    out: List[SCase] = []
    for nm in NAMES:
        for ref in REFS:
            for rec_ in (True, False):
                lz = ("LazyV", N(0), rec_)
                for t in (("ListV", lz, [], [], None), ("OptionalV", ("NoneV", None), ("DictAnyV", [P(G.S("next"), ("KeyNotRequired", lz)), P(G.S("v"), _INT)], None, None, False))):
                    out.append(SCase(t, (nm, ref), False, "named-recursive"))
    return out


def gen_cases(rng: random.Random, n: int) -> List[SCase]:
    cases: List[SCase] = named_recursive_cases()
    for i in range(n):
        named = None
        if rng.random() < 0.45:
            named = (rng.choice(NAMES), rng.choice(REFS))
        r = rng.random()
        if r < 0.12:
            kind = rng.choice(G.KINDS)
            p = rng.choice(schema_preds(kind, rng) + [("PMinItems", 2), ("PMaxItems", 0), ("PUniqueItems",),
                                                     ("PMinKeys", 1), ("PMaxKeys", 3), ("PExactItemCount", 1)])
            cases.append(SCase(p, named, True, "predicate"))
        elif r < 0.14:
            cases.append(SCase(("APred", N(0)), named, True, "predicate"))
        elif r < 0.30:
            cases.append(SCase(gen_scalar(rng), named, False, "scalar"))
        elif r < 0.40:
            cases.append(SCase(G.gen_validator(rng, rng.choice([0, 1, 2]), lazy_n=1), named, False, "any"))
        else:
            cases.append(SCase(gen_tree(rng, rng.choice([1, 1, 2, 2, 3]), named is not None or rng.random() < 0.3), named, False, "tree"))
    return cases


def run(tier: str, rng: random.Random, proof_ok: bool) -> dict:
    t0 = time.time()
    n = 2500 if tier == "quick" else 40000
    if not proof_ok:
        n *= 2
    cases = gen_cases(rng, n)
    violations: List[dict] = []
    seen_sig = set()
    good: List[SCase] = []
    herr = 0
    for c in cases:
        try:
            observe(c, rng)
            good.append(c)
        except HarnessError:
            herr += 1

    def report(sig, what, c):
        if sig in seen_sig:
            return
        seen_sig.add(sig)
        violations.append({"kind": "oracle", "signature": sig, "what": what, "replay_case": c.to_json(),
                           "observed": (repr(c.exc) if c.exc is not None else json.dumps(c.out, default=repr)[:600])})
    flagged = set()
    for c in good:
        r = oracle_local(c)
        if r:
            flagged.add(id(c))
            report(r["signature"], r["what"], c)
    # determinism across histories: the same configuration, rebuilt and described again after everything
    # else has been described, yields the same schema
    for c in good:
        if c.exc is not None or id(c) in flagged or "C10:history-dependent" in seen_sig:
            continue
        fresh_module()
        if recall(c) != ("ok", c.out):
            h = find_history(c, good)
            flagged.add(id(c))
            seen_sig.add("C10:history-dependent")
            violations.append({"kind": "oracle", "signature": "C10:history-dependent",
                               "what": "the schema returned for a configuration depends on which schemas were generated before it",
                               "replay_case": {"history": [x.to_json() for x in h]} if h else None,
                               "observed": json.dumps(c.out, default=repr)[:400]})
    fresh_module()
    # meta-schema check of every returned schema, in one batch
    jobs = [{"id": i, "schema": inner_schema(c), "instances": []} for i, c in enumerate(good)
            if c.exc is None and id(c) not in flagged]
    meta_bad = 0
    for r in bridge(jobs):
        if r["schema_error"]:
            meta_bad += 1
            c = good[r["id"]]
            flagged.add(id(c))
            sig, what = metaschema_sig(r["schema_error"])
            report(sig, what, c)
    # correspondence with the model
    lines = []
    for c in good:
        try:
            lhs, rhs = model_line(c)
            lines.append((lhs, rhs, c))
        except Exception:
            herr += 1
    mism = compare_lines("C10", HDR, lines, violations, flagged,
                         "correspondence family 'C10-schema' no longer checks: model and implementation produce different schemas")
    if herr > max(5, len(cases) // 10):
        violations.append({"kind": "correspondence", "signature": None, "what": f"harness could not represent {herr} of {len(cases)} cases"})
    outc: Dict[str, int] = {}
    for c in good:
        k = "schema" if c.exc is None else type(c.exc).__name__
        outc[k] = outc.get(k, 0) + 1
    kinds: Dict[str, int] = {}
    for c in good:
        kinds[c.v[0]] = kinds.get(c.v[0], 0) + 1
    samples = [{"validator": coq(c.v)[:300], "named": c.named, "schema": json.dumps(c.out, default=repr)[:300]}
               for c in good if c.exc is None][:: max(1, len(good) // 4)][:4]
    cov = {"evaluations": len(good), "distinct_nontrivial": len({(freeze(c.v), c.named) for c in good if c.exc is None}),
           "rule": "distinct (validator or predicate tree, schema name / ref location) pairs for which a schema was returned",
           "samples": samples, "traces_validated_against_impl": len(lines), "mismatches": mism, "harness_errors": herr,
           "outcome_distribution": outc, "root_kinds": kinds, "streams": count_by(good, lambda c: c.tag),
           "named_mode": sum(1 for c in good if c.named), "metaschema_checked": len(jobs), "metaschema_rejected": meta_bad,
           "corr_wall_s": round(time.time() - t0, 1)}
    return {"violations": violations, "coverage": cov}


def count_by(xs, f) -> dict:
    d: Dict[str, int] = {}
    for x in xs:
        d[f(x)] = d.get(f(x), 0) + 1
    return d


def compare_lines(name: str, hdr: str, lines: list, violations: list, flagged: set, what: str, per: int = 250) -> int:
    if not lines:
        return 0
    os.makedirs(GEN, exist_ok=True)
    files = []
    for k in range(0, len(lines), per):
        chunk = lines[k:k + per]
        path = os.path.join(GEN, f"cases_{name}_p{os.getpid()}_{k // per}.v")
        body = [hdr, "Goal True.\n"] + [f"  chk_eq {i}%nat {lhs} {rhs}.\n" for i, (lhs, rhs, _) in enumerate(chunk)] + ["exact I. Qed.\n"]
        open(path, "w").write("".join(body))
        files.append((path, chunk))
    with ThreadPoolExecutor(max_workers=16) as ex:
        results = list(ex.map(lambda fc: run_coq_file(fc[0]), files))
    mism = shown = 0
    for (path, chunk), (status, mm, raw) in zip(files, results):
        if status != "ok":
            violations.append({"kind": "correspondence", "signature": None,
                               "what": f"correspondence file {os.path.basename(path)} failed to evaluate", "log": raw[-1500:]})
        for idx, model in mm:
            mism += 1
            c = chunk[idx][2]
            if id(c) in flagged or shown >= 3:
                continue
            shown += 1
            violations.append({"kind": "correspondence", "signature": None, "what": what,
                               "case": c.to_json(), "model_outcome": model[:1500], "observed_outcome": chunk[idx][1][:1500]})
        if status == "ok" and not mm:
            for ext in (".v", ".vo", ".vok", ".vos", ".glob"):
                try:
                    os.remove(path[:-2] + ext)
                except OSError:
                    pass
            try:
                os.remove(os.path.join(os.path.dirname(path), "." + os.path.basename(path)[:-2] + ".aux"))
            except OSError:
                pass
    return mism


def check_one(c: SCase) -> Optional[dict]:
    observe(c)
    r = oracle_local(c)
    if r:
        return r
    if c.exc is None:
        res = bridge([{"id": 0, "schema": inner_schema(c), "instances": []}])[0]
        if res["schema_error"]:
            sig, what = metaschema_sig(res["schema_error"])
            return {"signature": sig, "what": what}
    return None


def probe_known(k: dict) -> bool:
    w = k.get("witness")
    if not w:
        return False
    try:
        r = check_one(scase_from_json(w))
    except Exception:
        return False
    return bool(r) and r["signature"] == k["signature"]


def replay(path: str) -> int:
    j = json.load(open(path))
    cj = j.get("replay_case") or j.get("case") or j.get("witness")
    if not cj:
        print("replay file names a broken obligation, no input:", j.get("what"))
        return 1
    if "history" in cj:
        h = [scase_from_json(x) for x in cj["history"]]
        for x in h:
            print("describe:", coq(x.v)[:300], "| named:", x.named)
        if history_differs(h):
            print("property violated on this history: the last schema differs from the one returned on a fresh start")
            return 1
        print("property holds on this history")
        return 0
    c = scase_from_json(cj)
    r = check_one(c)
    print("validator:", coq(c.v)[:500], "| named:", c.named)
    print("result:", repr(c.exc) if c.exc is not None else json.dumps(c.out, default=repr)[:800])
    if r:
        print("property violated on this input:", r["what"])
        return 1
    print("property holds on this input")
    return 0


from ..facts import attach as _attach, typechecks as _typechecks  # noqa: E402
_attach(globals(), _typechecks.obligation("C10"))
