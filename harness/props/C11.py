"""C11 - the generated JSON Schema accepts exactly what the validator accepts (JSON data)."""
from __future__ import annotations

import json
import os
import random
import time
from concurrent.futures import ThreadPoolExecutor
from typing import Any, Dict, List, Optional, Tuple

import koda_validate.serialization.json_schema as JS
from koda_validate import Valid

from .. import gen as G
from .. import userlib as U
from ..build import HarnessError, from_py, to_py
from ..corr import GEN, HEADER, Case, Oracles, observe, run_coq_file, subvalues
from ..lang import N, P, Some, coq, freeze, from_json, to_json
from .C10 import bridge, cps, text_rows, SCase

ROOT = os.path.dirname(os.path.dirname(os.path.dirname(os.path.abspath(__file__))))
ASSUMPTIONS = [
    "schema reading: Draft 2020-12 + OpenAPI nullable; 'integer' = Python int, 'number' = Python float, bool is neither; format is annotation only; patterns are unanchored searches with ECMA-262 `$` (end of input) and `.` (no line terminator)",
    "the theorem covers the non-recursive fragment (Proofs/SatP.v frag) incl. unions whose variants accept pairwise different JSON kinds; overlapping unions, not-blank, user regexes and uniqueness are refuted in Coq and recorded as known findings; named recursive schemas and the rest are tied by three-way differential execution",
    "regex search on literal prefix / suffix patterns is the section hypothesis search_prefix / search_suffix (validated on every case against Python's re)",
    "a disagreement is attributed to a known finding only if the implementation agrees with the schema under exactly one relaxed reading (oneOf as anyOf; dot-all not-blank pattern; user regex anchored at the start; uniqueness of (type, value) pairs as UniqueItems computes it)",
]
TRUSTED_EXTRA = [
    "harness/jsbridge.py under python3-vt: jsonschema 4.26 as the independent evaluator of the implementation's schema (custom type checker and pattern keyword for the stated reading)",
]
HDR = HEADER.replace("Corr.Check.", "Corr.Check Model.Schema Model.SchemaSat Corr.SchemaCheck.")
import itertools as _it
RELAX1 = ["anyof", "notblank", "anchored", "pyunique"]
RELAX = ["+".join(c) for r in (1, 2, 3, 4) for c in _it.combinations(RELAX1, r)]     # singles first, then combinations
KNOWN_SIG = {"anyof": "C11:oneOf-overlap", "notblank": "C11:notblank-line-terminator",
             "anchored": "C11:regex-unanchored", "pyunique": "C11:unique-typed"}

S, I, F = G.S, G.I, G.F
JSTRS = [S(""), S("a"), S(" a "), S("ab"), S("abc"), S("\n"), S(" \t"), S("\na"), S("aB"), S("12"), S("b"),
         S("abcd"), S("a\n"), S("\U0001F600"), S("ba"), S("aab"), S("é"), S("a.b"), S("x123")]
JINTS = [I(z) for z in (-3, -1, 0, 1, 2, 3, 4, 7, 10)]
JFLOATS = [G.F0, G.F1, G.F15, G.F2, F(True, 1, 0), F(False, 5, -1), F(False, 7, 0)]
JBOOLS = [G.TRUE, G.FALSE]
ATOMS = JSTRS + JINTS + JFLOATS + JBOOLS + [G.NONE]
KEYS = ["a", "b", "c", "k", "o", "x", "y", "1", "é", ""]


# ------------------------------------------------------------------ fragment generator
def frag_scalar(rng: random.Random):
    kind = rng.choice(["KStr", "KStr", "KInt", "KInt", "KFloat", "KBool"])
    n = lambda: rng.choice([0, 1, 2, 3])
    if kind == "KStr":
        c = lambda: rng.choice(JSTRS)
        pool = [("PMinLength", n()), ("PMaxLength", n()), ("PExactLength", n()), ("PStartsWith", c()),
                ("PEndsWith", c()), ("PNotBlank",), ("PRegex", N(rng.choice([0, 1, 2, 3]))),
                ("PChoices", rng.sample(JSTRS, rng.choice([1, 2, 3]))), ("PEqualTo", c())]
    elif kind == "KInt":
        b = lambda: rng.choice(JINTS + JFLOATS[:4])
        pool = [("PMin", b(), rng.random() < 0.5), ("PMax", b(), rng.random() < 0.5),
                ("PChoices", rng.sample(JINTS, rng.choice([1, 2, 3]))), ("PEqualTo", rng.choice(JINTS))]
    elif kind == "KFloat":
        b = lambda: rng.choice(JINTS + JFLOATS)
        pool = [("PMin", b(), rng.random() < 0.5), ("PMax", b(), rng.random() < 0.5),
                ("PChoices", rng.sample(JFLOATS, rng.choice([1, 2, 3]))), ("PEqualTo", rng.choice(JFLOATS))]
    else:
        pool = [("PEqualTo", rng.choice(JBOOLS)), ("PChoices", rng.sample(JBOOLS, rng.choice([1, 2])))]
    ps = [rng.choice(pool) for _ in range(rng.choice([0, 1, 1, 2, 3]))]
    return ("Scalar", (kind,), None, [], ps, [])


POOL: list = []


def G_has_lazy(t) -> bool:
    from .C10 import has_recurrent_lazy
    return has_recurrent_lazy(t)


def frag(rng: random.Random, depth: int, lazy_ok: bool, guarded: bool = False):
    """guarded: a container that consumes input lies between the root and here - only then may the
    definition refer to itself (Union[int, Lazy(self)] recurses forever in validator and schema alike)."""
    if depth <= 0:
        r = rng.random()
        if r < 0.8:
            return frag_scalar(rng)
        if r < 0.9:
            return ("EqualsV", rng.choice(JSTRS + JINTS + JFLOATS + JBOOLS), [])
        if r < 0.95 or not (lazy_ok and guarded):
            return ("IsDictV",)
        return ("LazyV", N(0), True)
    def sub_(g):
        # reuse an earlier subtree now and then: with instance sharing on, the same validator object
        # then occurs at several positions (bare and under Optional, as item and as field, ...)
        ok = [t for t in POOL if g or not G_has_lazy(t)]
        if ok and rng.random() < 0.25:
            return rng.choice(ok)
        t = frag(rng, depth - 1, lazy_ok, g)
        POOL.append(t)
        return t
    sub = lambda: sub_(True)
    n = lambda: rng.choice([0, 1, 2, 3])
    cps_ = lambda: [rng.choice([("PMinItems", n()), ("PMaxItems", n()), ("PUniqueItems",)])
                    for _ in range(rng.choice([0, 0, 1, 2]))]
    r = rng.random()
    if r < 0.14:
        return ("ListV", sub(), cps_(), [], None)
    if r < 0.20:
        return ("UTupleV", sub(), cps_(), [], Some(("CoTupleOrList",)))
    if r < 0.30:
        return ("NTupleV", [sub() for _ in range(rng.choice([1, 2, 3]))], None, Some(("CoTupleOrList",)))
    if r < 0.38:
        mps = [rng.choice([("PMinKeys", n()), ("PMaxKeys", n())]) for _ in range(rng.choice([0, 0, 1, 2]))]
        return ("MapV", ("Scalar", ("KStr",), None, [], [], []), sub(), mps, [], None)
    if r < 0.58:
        keys = rng.sample(KEYS, rng.choice([0, 1, 2, 3, 4]))
        ks = [P(S(k), (("KeyNotRequired", sub()) if rng.random() < 0.4 else sub())) for k in keys]
        if len(ks) >= 2 and rng.random() < 0.3:
            # the same configuration optional under one key and bare under another
            t = ks[1].b[1] if ks[1].b[0] == "KeyNotRequired" else ks[1].b
            ks[0] = P(ks[0].a, ("OptionalV", ("NoneV", None), t))
        if rng.random() < 0.5:
            return ("RecordV", ks, N(0), None, None, rng.random() < 0.5)
        return ("DictAnyV", ks, None, None, rng.random() < 0.5)
    if r < 0.68:
        return G.gen_classv(rng, sub, lambda: None, lambda has: None,
                            cid=rng.choice([G.C_DATA, G.C_NAMED, G.C_NAMED2, G.C_TYPED, G.C_TYPED2, G.C_BASE2, G.C_TYPED_ALLREQ, G.C_FACTORY]))[:7] + (None,)
    if r < 0.80:
        return ("UnionV", [sub_(guarded) for _ in range(rng.choice([1, 2, 2, 3]))])
    if r < 0.90:
        return ("OptionalV", ("NoneV", None), sub_(guarded))
    if r < 0.93:
        return ("CacheV", sub_(guarded))
    return frag_scalar(rng)


# ------------------------------------------------------------------ JSON values
def candidates(v) -> list:
    """Values suggested by a scalar's own parameters."""
    out = []
    for p in v[4]:
        c = p[0]
        if c in ("PChoices",):
            out += p[1]
        elif c == "PEqualTo":
            out.append(p[1])
        elif c in ("PStartsWith",):
            out += [("VStr", p[1][1] + [ord("z")]), p[1]]
        elif c in ("PEndsWith",):
            out += [("VStr", [ord("z")] + p[1][1]), p[1]]
        elif c in ("PMinLength", "PMaxLength", "PExactLength"):
            out += [S("a" * p[1]), S("ab" * p[1])]
        elif c in ("PMin", "PMax") and p[1][0] == "VInt":
            n_ = p[1][1]
            out += [I(n_), I(n_ + 1), I(n_ - 1), F(n_ < 0, abs(n_), 0),
                    F(2 * n_ + 1 < 0, abs(2 * n_ + 1), -1), F(2 * n_ - 1 < 0, abs(2 * n_ - 1), -1)]   # n + 0.5, n - 0.5 (m * 2^e)
        elif c in ("PMin", "PMax"):
            out.append(p[1])
        elif c == "PRegex":
            out += [S("aaa"), S("123"), S("ab"), S("a b ")]
    return out


def conform(v, rng: random.Random, depth: int = 5):
    c = v[0]
    if c == "Scalar":
        pool = {"KStr": JSTRS, "KInt": JINTS, "KFloat": JFLOATS, "KBool": JBOOLS}[v[1][0]]
        cand = [x for x in candidates(v) if x[0] == pool[0][0]]
        return rng.choice(cand if cand and rng.random() < 0.7 else pool)
    if c == "EqualsV":
        return v[1]
    if c == "IsDictV":
        return ("VDict", [P(S("z"), I(1))] if rng.random() < 0.5 else [])
    if c in ("ListV", "UTupleV"):
        lo = max([p[1] for p in v[2] if p[0] == "PMinItems"] + [0])
        k = rng.choice([lo, lo, lo + 1, 2])
        return ("VList", [conform(v[1], rng, depth - 1) for _ in range(min(k, 4))])
    if c == "NTupleV":
        return ("VList", [conform(f, rng, depth - 1) for f in v[1]])
    if c == "MapV":
        lo = max([p[1] for p in v[3] if p[0] == "PMinKeys"] + [0])
        ks = rng.sample(KEYS, min(len(KEYS), rng.choice([lo, lo + 1, 1])))
        return ("VDict", [P(S(k), conform(v[2], rng, depth - 1)) for k in ks])
    if c in ("RecordV", "DictAnyV"):
        out = []
        for p in v[1]:
            inner = p.b
            if inner[0] == "KeyNotRequired":
                if rng.random() < 0.5:
                    continue
                inner = inner[1]
            out.append(P(p.a, conform(inner, rng, depth - 1)))
        if not v[-1] and rng.random() < 0.3:
            out.append(P(S("extra"), rng.choice(ATOMS)))
        return ("VDict", out)
    if c == "ClassV":
        out = []
        for p in v[3]:
            if not p.b.b and rng.random() < 0.5:
                continue
            out.append(P(p.a, conform(p.b.a, rng, depth - 1)))
        if not v[6] and rng.random() < 0.3:
            out.append(P(S("extra"), rng.choice(ATOMS)))
        return ("VDict", out)
    if c == "UnionV":
        return conform(rng.choice(v[1]), rng, depth - 1)
    if c == "OptionalV":
        return G.NONE if rng.random() < 0.35 else conform(v[2], rng, depth - 1)
    if c in ("CacheV", "KeyNotRequired"):
        return conform(v[1], rng, depth - 1)
    if c == "LazyV":
        return G.NONE if depth <= 0 else ("@lazy",)
    return G.NONE


def resolve_lazy(x, root, rng, depth):
    """Replace the @lazy placeholders by conforming values of the root definition."""
    if isinstance(x, tuple):
        if x == ("@lazy",):
            if depth <= 0:
                return G.NONE
            return resolve_lazy(conform(root, rng, depth), root, rng, depth - 1)
        return tuple(resolve_lazy(y, root, rng, depth) for y in x)
    if isinstance(x, list):
        return [resolve_lazy(y, root, rng, depth) for y in x]
    if isinstance(x, P):
        return P(resolve_lazy(x.a, root, rng, depth), resolve_lazy(x.b, root, rng, depth))
    return x


def arbitrary(rng: random.Random, depth: int):
    r = rng.random()
    if depth <= 0 or r < 0.5:
        return rng.choice(ATOMS)
    if r < 0.75:
        return ("VList", [arbitrary(rng, depth - 1) for _ in range(rng.choice([0, 1, 2, 3]))])
    ks = rng.sample(KEYS, rng.choice([0, 1, 2, 3]))
    return ("VDict", [P(S(k), arbitrary(rng, depth - 1)) for k in ks])


def corrupt(x, rng: random.Random):
    """Change the value at one random position."""
    paths: list = []

    def walk(t, path):
        paths.append(path)
        if t[0] == "VList":
            for i, y in enumerate(t[1]):
                walk(y, path + [i])
        elif t[0] == "VDict":
            for i, p in enumerate(t[1]):
                walk(p.b, path + [i])
    walk(x, [])
    target = rng.choice(paths)

    def edit(t):
        r = rng.random()
        if rng.random() < 0.15:
            return G.NONE
        if t[0] == "VList" and r < 0.5:
            xs = list(t[1])
            if xs and rng.random() < 0.5:
                xs.pop(rng.randrange(len(xs)))
            else:
                xs.append(rng.choice(ATOMS + xs))
            return ("VList", xs)
        if t[0] == "VDict" and r < 0.6:
            kvs = list(t[1])
            if kvs and rng.random() < 0.5:
                kvs.pop(rng.randrange(len(kvs)))
            else:
                k = rng.choice(KEYS)
                if all(p.a != S(k) for p in kvs):
                    kvs.append(P(S(k), rng.choice(ATOMS)))
            return ("VDict", kvs)
        # neighbouring atoms: same type different value, look-alikes of another type
        if t[0] == "VInt" and r < 0.8:
            return rng.choice([I(t[1] + 1), I(t[1] - 1), F(t[1] < 0, abs(t[1]), 0), G.TRUE, S(str(t[1]))])
        if t[0] == "VStr" and r < 0.8:
            return rng.choice([("VStr", t[1] + [ord("x")]), ("VStr", t[1][1:]), ("VStr", [10] + t[1]), ("VStr", t[1] + [10]), G.NONE])
        return rng.choice(ATOMS)

    def rebuild(t, path):
        if not path:
            return edit(t)
        i = path[0]
        if t[0] == "VList":
            xs = list(t[1])
            xs[i] = rebuild(xs[i], path[1:])
            return ("VList", xs)
        kvs = list(t[1])
        kvs[i] = P(kvs[i].a, rebuild(kvs[i].b, path[1:]))
        return ("VDict", kvs)
    return rebuild(x, target)


def has_lazy(v) -> bool:
    from .C10 import has_recurrent_lazy
    return has_recurrent_lazy(v)


# ------------------------------------------------------------------ one case
class JCase:
    def __init__(self, v, x, named: Optional[Tuple[str, str]], tag: str):
        self.v, self.x, self.named, self.tag = v, x, named, tag
        self.mode = "sync"

    def to_json(self) -> dict:
        return {"v": to_json(self.v), "x": to_json(self.x), "named": list(self.named) if self.named else None, "tag": self.tag,
                "share": getattr(self, "share", False)}


def jcase_from_json(j: dict) -> JCase:
    c = JCase(from_json(j["v"]), from_json(j["x"]), tuple(j["named"]) if j.get("named") else None, j.get("tag", ""))
    c.share = j.get("share", False)
    return c


def strings_in(py: Any, acc: set) -> None:
    if type(py) is str:
        acc.add(py)
    elif type(py) is list:
        for i in py:
            strings_in(i, acc)
    elif type(py) is dict:
        for k, i in py.items():
            strings_in(i, acc)


def patterns_in(s: Any, acc: set) -> None:
    if type(s) is dict:
        for k, v in s.items():
            if k == "pattern" and type(v) is str:
                acc.add(v)
            patterns_in(v, acc)
    elif type(s) is list:
        for i in s:
            patterns_in(i, acc)


def run_impl(c: JCase, rng=None) -> None:
    from .. import build as B
    k = Case(c.v, c.x, "sync", classes=G.STD_CLASSES, lazy=[c.v], fuel=60, tag=c.tag)
    B.SHARE[0] = getattr(c, "share", False)
    try:
        observe(k, rng)
    finally:
        B.SHARE[0] = False
    c.k = k
    if k.exc is not None:
        raise HarnessError(f"validator raised {k.exc!r}")
    c.accepts = type(k.raw) is Valid
    c.px = k.px
    try:
        if c.named is None:
            c.schema = JS.to_json_schema(k.vobj)
        else:
            c.schema = JS.to_named_json_schema(c.named[0], k.vobj, c.named[1])[c.named[0]]
        c.schema_exc = None
    except TypeError as e:
        c.schema, c.schema_exc = None, e


KW = {"PChoices": "enum", "PEqualTo": "enum", "PMinLength": "minLength", "PMaxLength": "maxLength",
      "PStartsWith": "pattern", "PEndsWith": "pattern", "PNotBlank": "pattern", "PRegex": "pattern",
      "PMinItems": "minItems", "PMaxItems": "maxItems", "PUniqueItems": "uniqueItems",
      "PMinKeys": "minProperties", "PMaxKeys": "maxProperties"}


def pred_kw(p) -> str:
    if p[0] in ("PMin", "PMax"):
        return ("exclusive" if p[2] else "") + p[0][1:]
    return KW.get(p[0], p[0])


def lastwins_preds(ps: list) -> list:
    flat = []
    for p in ps:
        flat += [("PMinLength", p[1]), ("PMaxLength", p[1])] if p[0] == "PExactLength" else [p]
    return [p for i, p in enumerate(flat) if all(pred_kw(q) != pred_kw(p) for q in flat[i + 1:])]


def lastwins(t):
    """The configuration as the schema reads it: of several predicates emitting one keyword the last wins."""
    if isinstance(t, tuple):
        if t and t[0] == "Scalar":
            return ("Scalar", t[1], t[2], t[3], lastwins_preds(t[4]), t[5])
        if t and t[0] in ("ListV", "UTupleV"):
            return (t[0], lastwins(t[1]), lastwins_preds(t[2]), t[3], t[4])
        if t and t[0] == "MapV":
            return (t[0], t[1], lastwins(t[2]), lastwins_preds(t[3]), t[4], t[5])
        return tuple(lastwins(x) for x in t)
    if isinstance(t, list):
        return [lastwins(x) for x in t]
    if isinstance(t, P):
        return P(lastwins(t.a), lastwins(t.b))
    if isinstance(t, Some):
        return Some(lastwins(t.x))
    return t


def accepts_lastwins(c: JCase) -> Optional[bool]:
    v2 = lastwins(c.v)
    if v2 == c.v:
        return None
    k = Case(v2, c.x, "sync", classes=G.STD_CLASSES, lazy=[v2], fuel=60)
    try:
        observe(k)
    except HarnessError:
        return None
    return None if k.exc is not None else type(k.raw) is Valid


def classify(c: JCase, res: dict) -> Optional[dict]:
    """The property on the implementation: evaluator verdict == validator verdict."""
    b = res["variants"]["strict"][0]
    if type(b) is not bool:
        return {"signature": "C11:evaluator-error", "what": f"the schema could not be evaluated: {b}"}
    if b == c.accepts:
        return None
    fixes = [h for h in RELAX if res["variants"].get(h, [None])[0] == c.accepts]
    direction = "accepts" if c.accepts else "rejects"
    if len(fixes) >= 1:
        h = fixes[0]            # the smallest set of relaxed readings that explains the disagreement
        return {"signature": KNOWN_SIG[h.split("+")[0]],
                "what": f"validator {direction} the value, the schema does not; they agree when the schema is read with relaxation '{h}'"
                        + (" (several recorded divergences meet in this case)" if "+" in h else "")}
    a2 = accepts_lastwins(c)
    if a2 is not None and (a2 == b or any(res["variants"].get(h, [None])[0] == a2 for h in RELAX)):
        return {"signature": "C11:keyword-overwritten",
                "what": f"validator {direction} the value, the schema does not: two predicates of one validator emit the same keyword and the later one overwrites the earlier (the schema agrees with the validator that keeps only the last)"}
    return {"signature": f"C11:disagree:{direction}",
            "what": f"the validator {direction} the value but the generated schema says the opposite"}


def coq_line(c: JCase, re_rows: list) -> Tuple[str, str]:
    sc = SCase(c.v, c.named)
    sc.ctx = c.k.ctx
    tbl = coq(text_rows(sc))
    classes = coq(c.k.ct.coq())
    env = f"(mk_env {classes} {coq([c.v])} oracle_tbl re_tbl email_tbl case_tbl)"
    named = "None" if c.named is None else f"(Some ({coq(cps(c.named[0]))}, {coq(cps(c.named[1]))}))"
    lhs = f"(c11_eval {env} (text_lookup {tbl}) (re_tbl_search {coq(re_rows)}) {named} 60%nat {coq(c.v)} {coq(c.k.x_seen)})"
    b = "None" if c.schema is None else f"(Some {coq(c.sat)})"
    return lhs, f"({b}, {coq(c.accepts)})"


def gen_recursive(rng: random.Random):
    """The usual recursive shapes: linked lists, trees, maps of self, tuples with an optional tail."""
    lazy = ("LazyV", N(0), True)
    opt = ("OptionalV", ("NoneV", None), lazy)
    sc = lambda: frag(rng, rng.choice([0, 0, 1]), False)
    r = rng.random()
    if r < 0.35:
        ks = [P(S("val"), sc()), P(S("next"), opt if rng.random() < 0.7 else ("KeyNotRequired", lazy))]
        rng.shuffle(ks)
        return rng.choice([("RecordV", ks, N(0), None, None, rng.random() < 0.5), ("DictAnyV", ks, None, None, rng.random() < 0.5)])
    if r < 0.6:
        ks = [P(S("v"), sc()), P(S("children"), ("ListV", lazy, [], [], None))]
        return ("DictAnyV", ks, None, None, rng.random() < 0.5)
    if r < 0.75:
        return ("NTupleV", [sc(), opt], None, Some(("CoTupleOrList",)))
    if r < 0.9:
        return ("UnionV", [sc(), ("ListV", lazy, [], [], None)])
    return ("MapV", ("Scalar", ("KStr",), None, [], [], []), ("UnionV", [sc(), lazy]), [], [], None)


def sharing_cases(rng: random.Random) -> List[JCase]:
    """One validator object at two positions of one tree, bare at one and under Optional at the other
    (either order): null is accepted at the Optional position only, in validator and schema alike."""
    out: List[JCase] = []
    kids = [frag_scalar(rng) for _ in range(3)]
    kids += [("ListV", frag_scalar(rng), [], [], None), ("DictAnyV", [P(S("a"), frag_scalar(rng))], None, None, False),
             ("EqualsV", S("x"), [])]
    NULL = ("VNone",)
    for t in kids:
        opt = ("OptionalV", ("NoneV", None), t)
        for order in (0, 1):
            ks = [P(S("used"), t), P(S("limit"), opt)]
            tup = [t, opt]
            if order:
                ks.reverse()
                tup.reverse()
            shapes = [("DictAnyV", ks, None, None, True), ("RecordV", ks, N(0), None, None, False),
                      ("NTupleV", tup, None, Some(("CoTupleOrList",))), ("ListV", ("UnionV", [opt]), [], [], None)]
            for v in shapes:
                good = conform(t, rng)
                if v[0] in ("DictAnyV", "RecordV"):
                    mk = lambda a, b: ("VDict", [P(S("used"), a), P(S("limit"), b)])
                elif v[0] == "NTupleV":
                    mk = lambda a, b, o=order: ("VList", [b, a] if o else [a, b])
                else:
                    mk = lambda a, b: ("VList", [a, b])
                for x in (mk(good, good), mk(NULL, good), mk(good, NULL), mk(NULL, NULL)):
                    c = JCase(v, x, None, "sharing")
                    c.share = True
                    out.append(c)
    return out


def unique_cases(rng: random.Random) -> List[JCase]:
    """uniqueItems over arrays of objects / arrays: two members that are equal although they were written
    differently (keys in another order) are duplicates for validator and schema alike."""
    out: List[JCase] = []
    d1 = [P(S("x"), I(1)), P(S("y"), I(2))]
    d2 = [P(S("x"), I(1)), P(S("y"), I(3))]
    deep = [P(S("x"), ("VDict", d1)), P(S("y"), ("VList", [I(1)]))]
    deep_p = [P(S("y"), ("VList", [I(1)])), P(S("x"), ("VDict", list(reversed(d1))))]
    items = [("IsDictV",), ("MapV", ("Scalar", ("KStr",), None, [], [], []), ("Scalar", ("KInt",), None, [], [], []), [], [], None)]
    xs = [[("VDict", d1), ("VDict", list(reversed(d1)))], [("VDict", d1), ("VDict", d1)], [("VDict", d1), ("VDict", d2)],
          [("VDict", d1), ("VDict", d2), ("VDict", list(reversed(d2)))], [("VDict", [])], []]
    for it in items:
        for x in xs:
            c = JCase(("ListV", it, [("PUniqueItems",)], [], None), ("VList", x), None, "unique")
            out.append(c)
    for x in ([("VDict", deep), ("VDict", deep_p)], [("VDict", deep), ("VDict", deep)], [("VDict", deep), ("VDict", d1)]):
        out.append(JCase(("ListV", ("IsDictV",), [("PUniqueItems",)], [], None), ("VList", x), None, "unique"))
    INTL = ("ListV", ("Scalar", ("KInt",), None, [], [], []), [], [], None)
    for x in ([("VList", [I(1), I(2)]), ("VList", [I(1), I(2)])], [("VList", [I(1), I(2)]), ("VList", [I(2), I(1)])], [("VList", []), ("VList", [])]):
        out.append(JCase(("ListV", INTL, [("PUniqueItems",)], [], None), ("VList", x), None, "unique"))
    return out


def record_null_cases(rng: random.Random) -> List[JCase]:
    """Record-shaped validators of every kind: a member that is present with the value null is present;
    an unknown member is unknown whatever other records declare; uniqueness looks at the items as given."""
    out: List[JCase] = []
    INTV = ("Scalar", ("KInt",), None, [], [], [])
    STRV = ("Scalar", ("KStr",), None, [], [], [])
    NULL = ("VNone",)
    OPTI = ("OptionalV", ("NoneV", None), INTV)
    typed = lambda cid, a, b, strict: ("ClassV", ("RkTyped",), N(cid), [P(S(n), P(v, r)) for (n, r), v in zip(G.CLASS_SCHEMAS[cid][1], (a, b))], None, None, strict, None)
    data = lambda cid, a, b, strict: ("ClassV", (G.CLASS_SCHEMAS[cid][0],), N(cid), [P(S(n), P(v, r)) for (n, r), v in zip(G.CLASS_SCHEMAS[cid][1], (a, b))], None, None, strict, None)
    shapes = []
    for strict in (False, True):
        shapes += [(typed(G.C_TYPED, OPTI, STRV, strict), ("k", "o")), (typed(G.C_TYPED, INTV, OPTI, strict), ("k", "o")),
                   (typed(G.C_TYPED2, OPTI, INTV, strict), ("r", "n")), (typed(G.C_TYPED2, STRV, OPTI, strict), ("r", "n")),
                   (data(G.C_DATA, OPTI, OPTI, strict), ("a", "b")), (data(G.C_NAMED, OPTI, STRV, strict), ("x", "y")),
                   (("DictAnyV", [P(S("a"), OPTI), P(S("b"), ("KeyNotRequired", OPTI))], None, None, strict), ("a", "b")),
                   (("RecordV", [P(S("a"), OPTI), P(S("b"), ("KeyNotRequired", INTV))], N(0), None, None, strict), ("a", "b"))]
    for v, (k1, k2) in shapes:
        for kv in ([P(S(k1), NULL)], [P(S(k1), NULL), P(S(k2), NULL)], [P(S(k2), NULL)], [P(S(k1), I(1)), P(S(k2), NULL)],
                   [P(S(k1), I(1))], [P(S(k1), S("s")), P(S(k2), S("t"))], []):
            out.append(JCase(v, ("VDict", kv), None, "record-null"))
            out.append(JCase(("ListV", v, [], [], None), ("VList", [("VDict", kv)]), None, "record-null"))
    # a strict record next to / around another record that declares other names
    inner = ("DictAnyV", [P(S("city"), STRV), P(S("zip"), ("KeyNotRequired", INTV))], None, None, True)
    outer = ("DictAnyV", [P(S("name"), STRV), P(S("addr"), inner)], None, None, True)
    addr = ("VDict", [P(S("city"), S("x"))])
    for kv in ([P(S("name"), S("n")), P(S("addr"), addr)], [P(S("name"), S("n")), P(S("addr"), addr), P(S("city"), S("y"))],
               [P(S("name"), S("n")), P(S("addr"), addr), P(S("zip"), I(1))],
               [P(S("name"), S("n")), P(S("addr"), ("VDict", [P(S("city"), S("x")), P(S("name"), S("z"))]))]):
        out.append(JCase(outer, ("VDict", kv), None, "record-null"))
    # unique items over records that drop unknown members: the items as given decide
    loose = ("DictAnyV", [P(S("x"), INTV), P(S("y"), INTV)], None, None, False)
    mk = lambda lab: ("VDict", [P(S("x"), I(1)), P(S("y"), I(2)), P(S("label"), S(lab))])
    for xs in ([mk("a"), mk("b")], [mk("a"), mk("a")], [mk("a")]):
        out.append(JCase(("ListV", loose, [("PUniqueItems",)], [], None), ("VList", xs), None, "record-null"))
    return out


def float_neighbour_cases(rng: random.Random) -> List[JCase]:
    """Float constants in equality / membership / bounds, against the constant itself, its two neighbouring
    floats and values a relative 1e-10 away: validator and schema agree on exactly which of them pass."""
    import math
    from ..build import from_py
    out: List[JCase] = []
    for c in (0.3, 1.0, 2.5, 0.1, 1e21, -7.25):
        ct = from_py(c, None)
        near = [c, math.nextafter(c, math.inf), math.nextafter(c, -math.inf), c * (1 + 1e-10), c * (1 - 1e-10), float(int(c)) if abs(c) < 1e15 else c]
        vs = [("EqualsV", ct, []),
              ("Scalar", ("KFloat",), None, [], [("PEqualTo", ct)], []),
              ("Scalar", ("KFloat",), None, [], [("PChoices", [ct])], []),
              ("Scalar", ("KFloat",), None, [], [("PMin", ct, False)], []), ("Scalar", ("KFloat",), None, [], [("PMin", ct, True)], []),
              ("Scalar", ("KFloat",), None, [], [("PMax", ct, False)], []), ("Scalar", ("KFloat",), None, [], [("PMax", ct, True)], [])]
        for v in vs:
            for x in near:
                out.append(JCase(v, from_py(x, None), None, "float-neighbours"))
            out.append(JCase(("ListV", v, [], [], None), ("VList", [from_py(x, None) for x in near[:3]]), None, "float-neighbours"))
    return out


def blank_cases(rng: random.Random) -> List[JCase]:
    """not-blank over strings made only of white space that is not ASCII (no-break space, em space, ideographic
    space, line separator): blank for validator and schema alike."""
    out: List[JCase] = []
    NB = ("Scalar", ("KStr",), None, [], [("PNotBlank",)], [])
    NB_STRIP = ("Scalar", ("KStr",), None, [("Strip",)], [("PNotBlank",)], [])
    for st in ("\u00a0", "\u2003", "\u3000", "\u2028", " \u00a0\t", "\u00a0\u00a0", "\u2003 \u3000", "\u00a0a", "a\u3000", "", " ", "\t\n", "x"):
        for v in (NB, NB_STRIP, ("ListV", NB, [], [], None), ("DictAnyV", [P(S("k"), NB)], None, None, False)):
            x = S(st)
            x = ("VList", [x, S("ok")]) if v[0] == "ListV" else ("VDict", [P(S("k"), x)]) if v[0] == "DictAnyV" else x
            out.append(JCase(v, x, None, "blank"))
    return out


def affix_cases(rng: random.Random) -> List[JCase]:
    """Every prefix / suffix of a small set (the empty one, single characters, a regex metacharacter, a line feed)
    against every string of a small set, bare, inside a list and as a record member."""
    out: List[JCase] = []
    affixes = ["", "a", "ab", "b", ".", "a.b", "\n", " ", "abc", "$", "^a"]
    strs = ["", "a", "ab", "ba", "abc", "a.b", "aXb", "\n", "a\n", "b", " a", "a ", ".", "$", "^a", "xab"]
    for kind in ("PStartsWith", "PEndsWith"):
        for af in affixes:
            v = ("Scalar", ("KStr",), None, [], [(kind, S(af))], [])
            for st in strs:
                out.append(JCase(v, S(st), None, "affix"))
            out.append(JCase(("ListV", v, [], [], None), ("VList", [S(st_) for st_ in strs[:6]]), None, "affix"))
            out.append(JCase(("ListV", v, [], [], None), ("VList", [S(af + "x" + af)]), None, "affix"))
            out.append(JCase(("DictAnyV", [P(S("k"), v)], None, None, False), ("VDict", [P(S("k"), S(af + "x" + af))]), None, "affix"))
    return out


def gen_cases(rng: random.Random, n: int) -> List[JCase]:
    """The explicit families, a stream that is the same on every run (private generator), and n cases from the
    run's own seed - how many explicit cases there are never shortens the generated part."""
    out: List[JCase] = sharing_cases(rng) + unique_cases(rng) + record_null_cases(rng) + float_neighbour_cases(rng) + blank_cases(rng) + affix_cases(rng)
    return out + random_cases(random.Random(110911), 500) + random_cases(rng, n)


def random_cases(rng: random.Random, n: int) -> List[JCase]:
    out: List[JCase] = []
    while len(out) < n:
        rec = rng.random() < 0.15
        del POOL[:]
        v = gen_recursive(rng) if rng.random() < 0.12 else frag(rng, rng.choice([0, 1, 1, 2, 2, 3]), rec)
        share = rng.random() < 0.5
        named = None
        if has_lazy(v):
            named = (rng.choice(["T", "Node", "a b"]), rng.choice(["#/components/schemas/", "#/$defs/"]))
        elif rng.random() < 0.1:
            named = ("T", "#/components/schemas/")
        for _ in range(rng.choice([2, 3, 4])):
            r = rng.random()
            x = resolve_lazy(conform(v, rng), v, rng, 3)
            tag = "conform"
            if r < 0.45:
                x, tag = corrupt(x, rng), "corrupt"
            elif r < 0.6:
                x, tag = arbitrary(rng, 2), "arbitrary"
            out.append(JCase(v, x, named, tag))
            out[-1].share = share
    return out


def evaluate(cases: List[JCase], rng) -> Tuple[List[JCase], int]:
    good, herr = [], 0
    for c in cases:
        try:
            run_impl(c, rng)
            good.append(c)
        except HarnessError:
            herr += 1
    jobs = []
    for i, c in enumerate(good):
        if c.schema is None:
            continue
        pats: set = set()
        patterns_in(c.schema, pats)
        strs: set = set()
        strings_in(c.px, strs)
        c.searches = [(p, s) for p in sorted(pats) for s in sorted(strs)]
        jobs.append({"id": i, "schema": c.schema, "instances": [c.px], "variants": RELAX,
                     "user_patterns": list(U.PATTERNS.values()), "named": list(c.named) if c.named else None,
                     "searches": c.searches})
    for r in bridge(jobs):
        c = good[r["id"]]
        c.res = r
        c.sat = r["variants"]["strict"][0]
        c.search_res = r.get("searches", [])
    return good, herr


def run(tier: str, rng: random.Random, proof_ok: bool) -> dict:
    t0 = time.time()
    n = 1600 if tier == "quick" else 40000
    if not proof_ok:
        n *= 2
    cases = gen_cases(rng, n)
    good, herr = evaluate(cases, rng)
    violations: List[dict] = []
    seen_sig: set = set()
    flagged: set = set()
    dist: Dict[str, int] = {}
    for c in good:
        if c.schema is None:
            dist["schema-typeerror"] = dist.get("schema-typeerror", 0) + 1
            if "C11:no-schema" not in seen_sig:
                seen_sig.add("C11:no-schema")
                violations.append({"kind": "oracle", "signature": "C11:no-schema",
                                   "what": f"no schema for a validator of the JSON-native fragment: {c.schema_exc!r}",
                                   "replay_case": c.to_json()})
            continue
        key = ("accept" if c.accepts else "reject") + "/" + ("sat" if c.sat is True else "unsat")
        dist[key] = dist.get(key, 0) + 1
        r = classify(c, c.res)
        if r:
            flagged.add(id(c))
            if r["signature"] not in seen_sig:
                seen_sig.add(r["signature"])
                small = shrink(c, r["signature"])
                violations.append({"kind": "oracle", "signature": r["signature"], "what": r["what"],
                                   "replay_case": small.to_json(),
                                   "observed": {"validator_accepts": small.accepts, "schema": json.dumps(small.schema)[:600]}})
    # model: sat (model schema) and run (model validator) against evaluator and implementation
    lines = []
    per = 200
    files = []
    os.makedirs(GEN, exist_ok=True)
    usable = [c for c in good if c.schema is None or type(c.sat) is bool]
    for k in range(0, len(usable), per):
        chunk = usable[k:k + per]
        orc = Oracles()
        body = []
        for i, c in enumerate(chunk):
            acc: list = []
            subvalues(c.k.x_seen, acc)
            subvalues(c.v, acc)
            seen = set()
            for t in acc:
                fz = freeze(t)
                if fz not in seen:
                    seen.add(fz)
                    orc.add_value(t, c.k.ct)
            orc.harvest_logs(c.k)
            re_rows = [P(cps(p), P(cps(s), bool(b))) for (p, s), b in zip(getattr(c, "searches", []), getattr(c, "search_res", []))]
            lhs, rhs = coq_line(c, re_rows)
            body.append(f"  chk_eq {i}%nat {lhs} {rhs}.\n")
        path = os.path.join(GEN, f"cases_C11_p{os.getpid()}_{k // per}.v")
        open(path, "w").write("".join([HDR, orc.coq(), "Goal True.\n"] + body + ["exact I. Qed.\n"]))
        files.append((path, chunk))
    with ThreadPoolExecutor(max_workers=16) as ex:
        results = list(ex.map(lambda fc: run_coq_file(fc[0]), files))
    mism = shown = 0
    for (path, chunk), (status, mm, raw) in zip(files, results):
        if status != "ok":
            violations.append({"kind": "correspondence", "signature": None,
                               "what": f"correspondence file {os.path.basename(path)} failed to evaluate", "log": raw[-1500:]})
        for idx, model in mm:
            mism += 1
            c = chunk[idx]
            if shown >= 3:
                continue
            shown += 1
            violations.append({"kind": "correspondence", "signature": None,
                               "what": "correspondence family 'C11-sat' no longer checks: (model schema evaluated by the model's sat, model validator) differs from (implementation's schema evaluated by jsonschema, implementation's validator)",
                               "case": c.to_json(), "model_outcome": model[:600],
                               "observed_outcome": f"(schema verdict {c.sat if c.schema is not None else None}, validator accepts {c.accepts})"})
        if status == "ok" and not mm:
            for ext in (".v", ".vo", ".vok", ".vos", ".glob"):
                try:
                    os.remove(path[:-2] + ext)
                except OSError:
                    pass
            try:
                os.remove(os.path.join(os.path.dirname(path), "." + os.path.basename(path)[:-2] + ".aux"))
            except OSError:
                pass
    if herr > max(5, len(cases) // 10):
        violations.append({"kind": "correspondence", "signature": None, "what": f"harness could not run {herr} of {len(cases)} cases"})
    kinds: Dict[str, int] = {}
    for c in good:
        kinds[c.v[0]] = kinds.get(c.v[0], 0) + 1
    tags: Dict[str, int] = {}
    for c in good:
        tags[c.tag] = tags.get(c.tag, 0) + 1
    samples = [{"validator": coq(c.v)[:300], "value": json.dumps(c.px)[:120], "accepts": c.accepts, "schema_verdict": c.sat}
               for c in good if c.schema is not None][:: max(1, len(good) // 4)][:4]
    cov = {"evaluations": len(good),
           "distinct_nontrivial": len({(freeze(c.v), freeze(c.x)) for c in good if c.schema is not None}),
           "rule": "distinct (validator tree, JSON value) pairs for which a schema was produced and evaluated",
           "samples": samples, "traces_validated_against_impl": len(usable), "mismatches": mism, "harness_errors": herr,
           "verdicts": dist, "root_kinds": kinds, "streams": tags, "recursive_named": sum(1 for c in good if has_lazy(c.v)),
           "attributed_to_known_findings": len(flagged), "corr_wall_s": round(time.time() - t0, 1)}
    return {"violations": violations, "coverage": cov}


def check_one(c: JCase) -> Optional[dict]:
    good, _ = evaluate([c], None)
    if not good:
        return None
    c = good[0]
    if c.schema is None:
        return {"signature": "C11:no-schema", "what": f"no schema: {c.schema_exc!r}"}
    return classify(c, c.res)


def shrink(c: JCase, sig: str) -> JCase:
    """Greedy: drop list elements / dict entries of the value while the same disagreement remains."""
    best = c
    for _ in range(30):
        progress = False
        x = best.x
        cands = []
        if x[0] in ("VList", "VDict") and x[1]:
            for i in range(len(x[1])):
                cands.append((x[0], x[1][:i] + x[1][i + 1:]))
        for cand in cands:
            c2 = JCase(best.v, cand, best.named, best.tag)
            c2.share = getattr(best, "share", False)
            try:
                r = check_one(c2)
            except Exception:
                r = None
            if r and r["signature"] == sig:
                best, progress = c2, True
                break
        if not progress:
            break
    if not hasattr(best, "schema"):
        evaluate([best], None)
    return best


def probe_known(k: dict) -> bool:
    w = k.get("witness")
    if not w:
        return False
    try:
        r = check_one(jcase_from_json(w))
    except Exception:
        return False
    return bool(r) and r["signature"] == k["signature"]


def replay(path: str) -> int:
    j = json.load(open(path))
    cj = j.get("replay_case") or j.get("case") or j.get("witness")
    if not cj:
        print("replay file names a broken obligation, no input:", j.get("what"))
        return 1
    c = jcase_from_json(cj)
    r = check_one(c)
    print("validator:", coq(c.v)[:500])
    print("value:", json.dumps(getattr(c, "px", None)), "| validator accepts:", getattr(c, "accepts", None))
    print("schema:", json.dumps(getattr(c, "schema", None))[:800], "| schema verdict:", getattr(c, "sat", None))
    if r:
        print("property violated on this input:", r["what"])
        return 1
    print("property holds on this input")
    return 0


from ..facts import attach as _attach, typechecks as _typechecks  # noqa: E402
_attach(globals(), _typechecks.obligation("C11"))
