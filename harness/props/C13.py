"""C13 - validation is pure: no input mutation, no cross-call or cross-task interference."""
from __future__ import annotations

import copy
import os
import random
import sys
import threading
import time
from typing import Any, List, Optional, Tuple

from .. import gen as G
from .. import userlib as U
from ..build import Ctx, HarnessError, from_py, to_py
from ..corr import drive
from ..facts import effects
from ..lang import N, P, Some, coq, freeze, from_json, to_json
from .C03 import _canon
from .C20 import interleavings, same_result_cross, strip_ids

ROOT = os.path.dirname(os.path.dirname(os.path.dirname(os.path.abspath(__file__))))
from ..rundir import GEN as _GEN  # noqa: E402
EXTRA_PROOF_FILES = ["generated/Facts_effects.v"]
ASSUMPTIONS = [
    "G2: the effect summary (python ast) over-approximates stores to shared / caller-owned state; the four singleton __new__ stores are reviewed as write-once",
    "threads: preemptive schedules are only sampled; the theorem covers them through the no-write premise, GIL-level atomicity of reads is assumed",
]
TRUSTED_EXTRA = ["fact translator harness/facts/effects.py (python ast) regenerates coq/generated/Facts_effects.v from /repo on every run"]


def regenerate_facts():
    try:
        d = effects.emit(os.environ.get("KV_REPO", "/repo"), os.path.join(_GEN, "Facts_effects.v"))
        if d["bad"]:
            return True, "stores to shared or caller-owned state on the validation path: " + "; ".join(effects.key(w) for w in d["bad"][:4])
        return True, ""
    except Exception as e:
        return False, f"effects extractor failed: {e}"


def snapshot_validator(v: Any, depth: int = 0) -> Any:
    """A structural dump of the validator's configuration (attributes, recursively)."""
    if depth > 6:
        return "..."
    if isinstance(v, (str, int, float, bool, bytes, type(None))):
        return v
    if isinstance(v, (list, tuple)):
        return [snapshot_validator(x, depth + 1) for x in v]
    if isinstance(v, (set, frozenset)):
        return sorted(repr(x) for x in v)
    if isinstance(v, dict):
        return {repr(k): snapshot_validator(x, depth + 1) for k, x in v.items()}
    if callable(v) and not hasattr(v, "__dict__"):
        return repr(v)
    d = getattr(v, "__dict__", None)
    if d is None:
        return repr(v)
    return {"__class__": type(v).__name__, **{k: snapshot_validator(x, depth + 1) for k, x in sorted(d.items())
                                              if not callable(x) or hasattr(x, "__dict__")}}


def run_alone(vt, lazy, xt, mode):
    ctx = Ctx(G.STD_CLASSES, lazy)
    v = ctx.validator(vt)
    x = to_py(xt, ctx.ct)
    try:
        r = v(x) if mode == "sync" else drive(v.validate_async(x))
    except Exception as e:  # noqa
        r = e
    return ctx, r


def same(ctx_a, a, ctx_b, b) -> bool:
    if isinstance(a, Exception) or isinstance(b, Exception):
        return type(a) is type(b)
    return same_result_cross(ctx_a, a, ctx_b, b)


def ambient() -> dict:
    """State outside the validator and its input that validations read: the thread's decimal context (without
    its sticky flags, which arithmetic sets by design), interpreter limits, locale."""
    import decimal
    import locale
    import sys
    c = decimal.getcontext()
    return {"decimal.prec": c.prec, "decimal.rounding": c.rounding, "decimal.Emin": c.Emin, "decimal.Emax": c.Emax,
            "decimal.capitals": c.capitals, "decimal.clamp": c.clamp,
            "decimal.traps": tuple(sorted(k.__name__ for k, on in c.traps.items() if on)),
            "recursionlimit": sys.getrecursionlimit(), "int_max_str_digits": sys.get_int_max_str_digits(),
            "locale": locale.setlocale(locale.LC_ALL)}


def check_history(vt, lazy, ops) -> Optional[dict]:
    """One shared instance, a history of calls; every call equals the fresh-instance result;
    inputs and the validator's configuration are never modified."""
    ctx = Ctx(G.STD_CLASSES, lazy)
    v = ctx.validator(vt)
    cfg0 = snapshot_validator(v)
    rep0 = repr(v)
    for i, (mode, xt) in enumerate(ops):
        x = to_py(xt, ctx.ct)
        before = freeze(strip_ids(from_py(x, ctx.ct)))
        import decimal
        with decimal.localcontext():        # whatever a call does to the arithmetic context stays in here
            amb0 = ambient()
            try:
                r = v(x) if mode == "sync" else drive(v.validate_async(x))
            except Exception as e:  # noqa
                r = e
            amb1 = ambient()
        if amb1 != amb0:
            diff = {k: (amb0[k], amb1[k]) for k in amb0 if amb0[k] != amb1[k]}
            return {"signature": "C13:ambient-state-modified",
                    "what": f"call {i} ({mode}, {x!r}) changed process / thread state that later validations read: {diff!r}"}
        try:
            after = freeze(strip_ids(from_py(x, ctx.ct)))
        except HarnessError:
            after = None
        if after != before:
            return {"signature": "C13:input-mutated", "what": f"call {i} ({mode}) changed its input: before {to_py(xt, ctx.ct)!r}, after {x!r}"}
        actx, alone = run_alone(vt, lazy, xt, mode)
        # run_alone rebuilt the object registry: compare structurally across builds
        if not same(ctx, r, actx, alone):
            return {"signature": "C13:history-dependent",
                    "what": f"call {i} ({mode}, {x!r}) returned {r!r} after {i} earlier calls; a fresh instance returns {alone!r}"}
    # (a cache wrapper's store is state by design - its transparency is C20's subject)
    if not G.contains(vt, "CacheV") and (snapshot_validator(v) != cfg0 or repr(v) != rep0):
        return {"signature": "C13:validator-modified", "what": "the validator's attributes changed during validation"}
    return None


def check_interleavings(vt, lazy, xts, limit: int) -> Tuple[Optional[dict], int]:
    """All interleavings of async validations sharing one instance, at their await points."""
    alone, steps = [], []
    for xt in xts:
        ctx = Ctx(G.STD_CLASSES, lazy)
        v = ctx.validator(vt)
        co = v.validate_async(to_py(xt, ctx.ct))
        n = 0
        try:
            while True:
                co.send(None)
                n += 1
        except StopIteration as s:
            alone.append((ctx, s.value))
        except Exception as e:  # noqa
            alone.append((ctx, e))
        steps.append(n + 1)
    count = 0
    for sc in interleavings(steps):
        count += 1
        if count > limit:
            break
        ctx = Ctx(G.STD_CLASSES, lazy)
        v = ctx.validator(vt)
        xs = [to_py(xt, ctx.ct) for xt in xts]
        cos = [v.validate_async(x) for x in xs]
        res: List[Any] = [None] * len(cos)
        done = [False] * len(cos)
        order = list(sc)
        for i in order:
            if done[i]:
                continue
            try:
                cos[i].send(None)
            except StopIteration as s:
                res[i], done[i] = s.value, True
            except Exception as e:  # noqa
                res[i], done[i] = e, True
        for i, co in enumerate(cos):
            while not done[i]:
                try:
                    co.send(None)
                except StopIteration as s:
                    res[i], done[i] = s.value, True
                except Exception as e:  # noqa
                    res[i], done[i] = e, True
        for i, (r, (actx, a)) in enumerate(zip(res, alone)):
            if not same(ctx, r, actx, a):
                return ({"signature": "C13:task-interference",
                         "what": f"schedule {sc}: the validation of {xs[i]!r} returned {r!r}; alone it returns {a!r}"}, count)
    return None, count


def check_threads(vt, lazy, xts, iters: int) -> Optional[dict]:
    ctx = Ctx(G.STD_CLASSES, lazy)
    v = ctx.validator(vt)
    xs = [to_py(xt, ctx.ct) for xt in xts]
    expected = []
    for x in xs:
        try:
            expected.append(ctx.result(v(x)))
        except Exception as e:  # noqa
            expected.append(type(e).__name__)
    expected = [freeze(_canon(e)) if not isinstance(e, str) else e for e in expected]
    bad: List[str] = []
    old = sys.getswitchinterval()
    sys.setswitchinterval(1e-6)

    def work(k: int) -> None:
        for j in range(iters):
            i = (k + j) % len(xs)
            try:
                r = freeze(_canon(ctx.result(v(xs[i]))))
            except HarnessError:
                continue
            except Exception as e:  # noqa
                r = type(e).__name__
            if r != expected[i] and not bad:
                bad.append(f"thread {k}: validating {xs[i]!r} gave a different result than alone")
    ts = [threading.Thread(target=work, args=(k,)) for k in range(4)]
    try:
        for t in ts:
            t.start()
        for t in ts:
            t.join()
    finally:
        sys.setswitchinterval(old)
    return {"signature": "C13:thread-interference", "what": bad[0]} if bad else None


def run(tier: str, rng: random.Random, proof_ok: bool) -> dict:
    t0 = time.time()
    violations: List[dict] = []
    seen = set()
    n_hist = n_inter = n_sched = n_thr = 0
    samples = []

    def report(r, rc):
        if r and r["signature"] not in seen:
            seen.add(r["signature"])
            violations.append({"kind": "oracle", **r, "replay_case": rc})

    STRIP = ("Scalar", ("KStr",), None, [("Strip",)], [("PNotBlank",)], [])
    DEC = ("Scalar", ("KDecimal",), Some(("CoDecimal",)), [], [], [])
    INT = ("Scalar", ("KInt",), None, [], [], [])
    AINT = ("Scalar", ("KInt",), None, [], [("PMin", G.I(0), False)], [("APred", N(2)), ("APred", N(3))])
    fixed = [
        (("ListV", STRIP, [], [], None), [("VList", [G.S(" a "), G.S("b ")]), ("VList", [G.S("  ")]), ("VList", [])]),
        (("ListV", DEC, [], [], None), [("VList", [G.S("1.5"), G.I(2)]), ("VList", [G.D1])]),
        (("MapV", STRIP, DEC, [("PMaxKeys", 2)], [], None), [("VDict", [P(G.S(" k"), G.S("1"))]), ("VDict", [P(G.S("a"), G.I(1)), P(G.S("b"), G.I(2)), P(G.S("c"), G.I(3))])]),
        (DEC, [G.I(1), G.F1, G.TRUE, G.D1, G.S("1")]),
        # sources with more digits than the arithmetic context's precision
        (("Scalar", ("KDecimal",), Some(("CoDecimal",)), [], [("PMultipleOf", G.D1)], []), [G.S("1" + "0" * 40), G.I(10 ** 40), G.S("1e28"), G.S("1.5")]),
        (("ListV", DEC, [], [], None), [("VList", [G.S("123456789012345678901234567890123.5"), G.I(3)]), ("VList", [G.S("0.1")])]),
        (INT, [G.I(1), G.TRUE, G.F1, G.D1]),
        (("Scalar", ("KStr",), None, [], [], []), [G.I(1), G.TRUE, G.F1, G.S("1")]),
        (("UnionV", [("Scalar", ("KDatetime",), Some(("CoDatetime",)), [], [], []), ("Scalar", ("KStr",), None, [], [], [])]),
         [G.S("abc"), G.S("2024-02-29T12:30:00"), G.I(1)]),
        (("UnionV", [INT, DEC]), [G.S("7"), G.I(7), G.D1]),
        (("ClassV", ("RkData",), N(G.C_DATA), [P(G.S("a"), P(STRIP, True)), P(G.S("b"), P(INT, False))], None, None, False, None),
         [("VDict", [P(G.S("a"), G.S(" x "))]), ("VDict", [P(G.S("a"), G.S(" y ")), P(G.S("b"), G.I(3))]), ("VDict", [])]),
        (("SetV", STRIP, [], [], None), [("VSet", [G.S(" a"), G.S("a ")]), ("VSet", [G.S("b")])]),
        # mappings that are not plain dicts (a read of an absent key may fabricate and *store* a value: look, do not touch)
        (("RecordV", [P(G.S("a"), INT), P(G.S("b"), ("KeyNotRequired", INT))], N(2), None, None, False),
         [("VSub", N(G.C_DICT), ("VDict", [P(G.S("a"), G.I(1))])), ("VSub", N(G.C_DICT), ("VDict", [])),
          ("VSub", N(G.C_DICT), ("VDict", [P(G.S("b"), G.I(2))]))]),
        (("RecordV", [P(G.S("a"), INT)], N(0), None, None, True),
         [("VSub", N(G.C_DICT), ("VDict", [P(G.S("z"), G.I(1))])), ("VSub", N(G.C_DICT), ("VDict", []))]),
        (("ListV", ("IsDictV",), [], [], None), [("VList", [("VSub", N(G.C_DICT), ("VDict", []))])]),
        # a child that hands out one result object for equal inputs (a cache) under wrappers that re-wrap its payload
        (("DictAnyV", [P(G.S("a"), ("KeyNotRequired", ("CacheV", INT))), P(G.S("b"), ("CacheV", INT))], None, None, False),
         [("VDict", [P(G.S("a"), G.I(1)), P(G.S("b"), G.I(1))]), ("VDict", [P(G.S("a"), G.I(1))]), ("VDict", [P(G.S("b"), G.I(2))])]),
        (("RecordV", [P(G.S("a"), ("KeyNotRequired", ("CacheV", STRIP)))], N(2), None, None, False),
         [("VDict", [P(G.S("a"), G.S(" x "))]), ("VDict", [])]),
        (("MaybeV", ("CacheV", INT)), [("VJust", G.I(1)), ("VJust", G.S("s")), G.NOTHING]),
        (("ListV", ("OptionalV", ("NoneV", None), ("CacheV", STRIP)), [], [], None), [("VList", [G.S(" a "), G.NONE, G.S(" a ")])]),
        # every kind that takes both sync and async predicates, configured with both (the two lists stay two lists,
        # of the length they were given, whatever the number of calls)
        (("SetV", INT, [("PMinItems", 1)], [("APred", N(0)), ("APred", N(1))], None), [("VSet", [G.I(1)]), ("VSet", []), ("VSet", [G.I(-1), G.I(2)])]),
        (("ListV", INT, [("PMinItems", 1)], [("APred", N(0)), ("APred", N(1))], None), [("VList", [G.I(1)]), ("VList", []), ("VList", [G.I(-1), G.I(2)])]),
        (("UTupleV", INT, [("PMinItems", 1)], [("APred", N(0)), ("APred", N(1))], Some(("CoTupleOrList",))),
         [("VTuple", [G.I(1)]), ("VList", []), ("VTuple", [G.I(-1), G.I(2)])]),
        (("MapV", INT, INT, [("PMinKeys", 1)], [("APred", N(0)), ("APred", N(1))], None),
         [("VDict", [P(G.I(1), G.I(1))]), ("VDict", []), ("VDict", [P(G.I(-1), G.I(2)), P(G.I(3), G.I(3))])]),
        (("Scalar", ("KInt",), None, [], [("PMin", G.I(0), False)], [("APred", N(0)), ("APred", N(1)), ("APred", N(2))]), [G.I(1), G.I(-1), G.I(7)]),
        (("Scalar", ("KStr",), None, [("Strip",)], [("PNotBlank",)], [("APred", N(0)), ("APred", N(1))]), [G.S(" a "), G.S("  "), G.S("abc")]),
    ]
    # (a) histories on one shared instance
    import itertools
    L = 3 if tier == "quick" else 4
    for vt, alpha in fixed:
        for k in range(1, L + 1):
            hs = list(itertools.product([(m, x) for m in ("sync", "async") for x in alpha], repeat=k))
            if len(hs) > (60 if tier == "quick" else 400):
                hs = rng.sample(hs, 60 if tier == "quick" else 400)
            for ops in hs:
                n_hist += 1
                try:
                    r = check_history(vt, [], list(ops))
                except HarnessError:
                    continue
                report(r, {"v": to_json(vt), "ops": [[m, to_json(x)] for m, x in ops]})
    G.WF_ONLY[0] = True
    try:
        for _ in range(150 if tier == "quick" else 1500):
            lazy = [G.gen_validator(rng, 1)]
            vt = G.gen_validator(rng, rng.choice([0, 1, 2, 2]), lazy_n=1)
            if "CacheV" in coq(vt) or "CacheV" in coq(lazy):
                continue    # a cache wrapper is stateful by design (its transparency is C20)
            alpha = [G.valid_input(vt, rng, lazy), G.corrupt(G.valid_input(vt, rng, lazy), rng), rng.choice(G.HOSTILE)]
            n = rng.choice([2, 3, 5, 8] + ([30] if tier != "quick" else []))
            ops = [(rng.choice(["sync", "async"]), rng.choice(alpha)) for _ in range(n)]
            n_hist += 1
            try:
                r = check_history(vt, lazy, ops)
            except HarnessError:
                continue
            report(r, {"v": to_json(vt), "lazy": to_json(lazy), "ops": [[m, to_json(x)] for m, x in ops]})
            if len(samples) < 3:
                samples.append({"validator": coq(vt)[:200], "history": [[m, coq(x)[:60]] for m, x in ops[:5]]})
    finally:
        G.WF_ONLY[0] = False
    # (b) every interleaving of 2-3 async validations sharing one instance
    inter = [
        (("MapV", INT, INT, [("PMaxKeys", 1)], [("APred", N(2))], None),
         [("VDict", [P(G.I(1), G.I(1))]), ("VDict", [P(G.I(1), G.I(1)), P(G.I(2), G.I(2))]), ("VDict", [])]),
        (("ListV", AINT, [("PMinItems", 1)], [("APred", N(3))], None), [("VList", [G.I(2)]), ("VList", [G.I(3), G.I(-1)]), ("VList", [])]),
        (("ClassV", ("RkData",), N(G.C_DATA), [P(G.S("a"), P(AINT, True)), P(G.S("b"), P(AINT, False))], None, Some(N(2)), False, None),
         [("VDict", [P(G.S("a"), G.I(2))]), ("VDict", [P(G.S("a"), G.I(4)), P(G.S("b"), G.I(6))]), ("VDict", [P(G.S("b"), G.I(3))])]),
        (("RecordV", [P(G.S("a"), AINT), P(G.S("b"), ("KeyNotRequired", AINT))], N(0), None, Some(N(0)), False),
         [("VDict", [P(G.S("a"), G.I(2))]), ("VDict", [P(G.S("a"), G.I(4)), P(G.S("b"), G.I(6))])]),
        (("UnionV", [AINT, ("Scalar", ("KStr",), None, [], [], [("APred", N(0))])]), [G.I(2), G.S("s"), G.I(3)]),
        (("NTupleV", [AINT, AINT], None, Some(("CoTupleOrList",))), [("VList", [G.I(2), G.I(4)]), ("VTuple", [G.I(3), G.I(2)])]),
        (("SetV", AINT, [], [("APred", N(0))], None), [("VSet", [G.I(2)]), ("VSet", [G.I(3), G.I(4)])]),
    ]
    # recursive definitions: overlapping validations enter and leave the same Lazy in every order
    LZ_NODE = ("DictAnyV", [P(G.S("v"), AINT), P(G.S("next"), ("OptionalV", ("NoneV", None), ("LazyV", N(0), True)))], None, None, False)
    node = lambda *vs: (lambda f: f(f, list(vs)))(lambda f, l: ("VDict", [P(G.S("v"), G.I(l[0]))] + ([P(G.S("next"), f(f, l[1:]))] if len(l) > 1 else [])))
    inter_lazy = [(("LazyV", N(0), True), [LZ_NODE], [node(2), node(2, 4), node(3, -1, 2)]),
                  (("ListV", ("LazyV", N(0), False), [], [("APred", N(0))], None), [AINT], [("VList", [G.I(2)]), ("VList", [G.I(3), G.I(-1)])])]
    for vt, lazy_, alpha in [(a_, [], c_) for a_, c_ in inter] + inter_lazy:
        for k in (2, 3):
            for xts in itertools.product(alpha, repeat=k):
                if k == 3 and rng.random() < (0.7 if tier == "quick" else 0.4):
                    continue
                n_inter += 1
                amb0 = ambient()
                try:
                    r, c = check_interleavings(vt, lazy_, list(xts), 600 if tier == "quick" else 6000)
                except HarnessError:
                    continue
                amb1 = ambient()
                n_sched += c
                report(r, {"v": to_json(vt), "lazy": to_json(lazy_), "inputs": [to_json(x) for x in xts], "interleaving": True})
                if amb1 != amb0:
                    import sys as _sys
                    diff = {k_: (amb0[k_], amb1[k_]) for k_ in amb0 if amb0[k_] != amb1[k_]}
                    _sys.setrecursionlimit(amb0["recursionlimit"])
                    report({"signature": "C13:ambient-state-modified",
                            "what": f"after overlapping validations of {[to_py(x, None) for x in xts]!r} on one instance, process / thread state that later validations read has changed: {diff!r}"},
                           {"v": to_json(vt), "lazy": to_json(lazy_), "inputs": [to_json(x) for x in xts], "interleaving": True})
    from .C20 import several_event_loops
    report(several_event_loops("C13"), {"event_loops": True})
    from .C08 import repeated_calls
    report(repeated_calls("C13"), {"repeated_calls": True})
    # what a cache wrapper answers for an input does not depend on calls that produced no result (raised, cancelled)
    from .C20 import cache_variants
    cv_ = cache_variants()
    if cv_:
        report({"signature": "C13:cache-history", "what": cv_["what"]}, {"cache_variants": True})
    # (c) threads (sampled)
    for vt, alpha in fixed[:6]:
        n_thr += 1
        try:
            r = check_threads(vt, [], alpha, 300 if tier == "quick" else 3000)
        except HarnessError:
            continue
        report(r, {"v": to_json(vt), "inputs": [to_json(x) for x in alpha], "threads": True})
    cov = {"evaluations": n_hist + n_sched + n_thr, "distinct_nontrivial": n_hist + n_inter,
           "rule": "histories of calls on one shared instance vs fresh instances (input and configuration snapshots before/after), all interleavings of 2-3 async validations at their await points, 4-thread hammering (sampled)",
           "histories": n_hist, "interleaved_sets": n_inter, "schedules": n_sched, "thread_runs": n_thr,
           "samples": samples or [{"note": "see rule"}], "traces_validated_against_impl": n_hist + n_sched,
           "corr_wall_s": round(time.time() - t0, 1)}
    return {"violations": violations, "coverage": cov}


def replay(path: str) -> int:
    import json
    j = json.load(open(path))
    rc = j.get("replay_case")
    if not rc:
        print("no input in replay file:", j.get("what"))
        return 1
    if rc.get("event_loops"):
        from .C20 import several_event_loops
        r = several_event_loops("C13")
        print("violation:" if r else "property holds under several event loops", r["what"] if r else "")
        return 1 if r else 0
    if rc.get("cache_variants"):
        from .C20 import cache_variants
        r = cache_variants()
        print("violation:" if r else "property holds for cache wrappers after calls without a result", r["what"] if r else "")
        return 1 if r else 0
    if rc.get("repeated_calls"):
        from .C08 import repeated_calls
        r = repeated_calls("C13")
        print("violation:" if r else "property holds for repeated calls of decorated functions", r["what"] if r else "")
        return 1 if r else 0
    vt, lazy = from_json(rc["v"]), from_json(rc.get("lazy", []))
    if rc.get("interleaving"):
        amb0 = ambient()
        r, _ = check_interleavings(vt, lazy, [from_json(x) for x in rc["inputs"]], 100000)
        if r is None and ambient() != amb0:
            r = {"what": f"process / thread state changed: {ambient()!r} (was {amb0!r})"}
    elif rc.get("threads"):
        r = check_threads(vt, lazy, [from_json(x) for x in rc["inputs"]], 3000)
    else:
        r = check_history(vt, lazy, [(m, from_json(x)) for m, x in rc["ops"]])
    print("violation:" if r else "property holds on this replay", r["what"] if r else "")
    return 1 if r else 0
