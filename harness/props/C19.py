"""C19 - validator equality is a behavioural congruence."""
from __future__ import annotations

import os
import random
import time
from concurrent.futures import ThreadPoolExecutor
from typing import Any, List, Optional, Tuple

from .. import gen as G
from ..build import Ctx, HarnessError, to_py
from ..corr import GEN, HEADER, drive, run_coq_file
from ..facts import eqfields
from ..lang import N, P, Some, coq, freeze, from_json, to_json

ROOT = os.path.dirname(os.path.dirname(os.path.dirname(os.path.abspath(__file__))))
from ..rundir import GEN as _GEN  # noqa: E402
EXTRA_PROOF_FILES = ["generated/Facts_eq.v"]
ASSUMPTIONS = [
    "G1: every hand-written __eq__ is a flat conjunction of attribute comparisons (python ast); the mask it yields instantiates Model/Eq.veqb",
    "predicate / choice parameters are changed to non-equal values only (Python compares them through the numeric tower, the model structurally)",
    "repr is deterministic in the sense of DESIGN.md section 7: same object -> same string; independent rebuild by the same construction sequence -> same string",
]
TRUSTED_EXTRA = ["fact translator harness/facts/eqfields.py (python ast) regenerates coq/generated/Facts_eq.v from /repo on every run"]
from ..facts import effects as _effects  # noqa: E402
_FX = _effects.obligation("C19")
EXTRA_PROOF_FILES.append(_FX[0])
TRUSTED_EXTRA.append(_FX[1])


def regenerate_facts():
    ok1, msg1 = _regenerate_eq_facts()
    ok2, msg2 = _FX[2]()
    return ok1 and ok2, "; ".join(m for m in (msg1, msg2) if m)


def _regenerate_eq_facts():
    try:
        d = eqfields.emit(os.environ.get("KV_REPO", "/repo"), os.path.join(_GEN, "Facts_eq.v"))
        msg = "; ".join(d["bad_ops"] + d["problems"])
        return True, msg
    except Exception as e:
        return False, f"eq-fields extractor failed: {e}"


# ------------------------------------------------------------------ one-argument changes


def other(pool, cur, rng):
    c = [x for x in pool if freeze(x) != freeze(cur)]
    return rng.choice(c) if c else None


def mutate_here(v, rng) -> Optional[Any]:
    """Change exactly one constructor argument of the root node."""
    c = v[0]
    if c == "Scalar":
        k = v[1][0]
        w = rng.choice(["kind", "co", "pre", "ps", "aps"])
        if w == "kind":
            if k == "KType":
                return ("Scalar", ("KType", ("TClass", N(G.C_UNHASH))), v[2], v[3], v[4], v[5]) if freeze(v[1][1]) != freeze(("TClass", N(G.C_UNHASH))) else None
            return None      # the scalar classes differ by class: covered by the kind change below
        if w == "co":
            opts = [None, Some(("CoUser", N(0))), Some(("CoUser", N(1)))] + ([Some((G.DEFAULT_CO[k],))] if k in G.DEFAULT_CO else [])
            n = other([o for o in opts], v[2], rng)
            return ("Scalar", v[1], n, v[3], v[4], v[5]) if (n is not None or v[2] is not None) else None
        if w == "pre":
            pre = list(v[3])
            if pre and rng.random() < 0.5:
                pre.pop(rng.randrange(len(pre)))
            else:
                pre.append(("ProcUser", N(rng.choice([0, 1, 2]))))
            return ("Scalar", v[1], v[2], pre, v[4], v[5])
        if w == "ps":
            ps = list(v[4])
            if ps and rng.random() < 0.5:
                ps.pop(rng.randrange(len(ps)))
            else:
                ps.append(("PUser", N(rng.choice([0, 1, 2, 3]))))
            return ("Scalar", v[1], v[2], v[3], ps, v[5])
        aps = list(v[5])
        if aps and rng.random() < 0.5:
            aps.pop()
        else:
            aps.append(("APred", N(rng.choice([0, 1]))))
        return ("Scalar", v[1], v[2], v[3], v[4], aps)
    if c == "NoneV":
        return ("NoneV", None if v[1] is not None else Some(("CoUser", N(1))))
    if c == "EqualsV":
        if rng.random() < 0.5:
            n = other([G.I(1), G.TRUE, G.F1, G.S("a"), G.I(2), G.D1, G.I(0), G.FALSE], v[1], rng)
            return ("EqualsV", n, v[2])
        return ("EqualsV", v[1], v[2] + [("ProcUser", N(0))])
    if c in ("ListV", "SetV", "UTupleV"):
        w = rng.choice(["ps", "aps", "co"])
        if w == "ps":
            return (c, v[1], v[2] + [("PMinItems", 1)] if not v[2] else v[2][:-1], v[3], v[4])
        if w == "aps":
            return (c, v[1], v[2], v[3] + [("APred", N(0))] if not v[3] else [], v[4])
        cos = [None, Some(("CoUser", N(3))), Some(("CoTupleOrList",))]
        return (c, v[1], v[2], v[3], other(cos, v[4], rng))
    if c == "NTupleV":
        w = rng.choice(["vobj", "co", "fields"])
        if w == "vobj":
            return (c, v[1], other([None, Some(N(0)), Some(N(1))], v[2], rng), v[3])
        if w == "co":
            return (c, v[1], v[2], other([None, Some(("CoTupleOrList",)), Some(("CoUser", N(6)))], v[3], rng))
        return (c, v[1] + [("AlwaysValid",)], v[2], v[3])
    if c == "MapV":
        w = rng.choice(["ps", "aps", "co"])
        if w == "ps":
            return (c, v[1], v[2], v[3] + [("PMinKeys", 1)] if not v[3] else v[3][:-1], v[4], v[5])
        if w == "aps":
            return (c, v[1], v[2], v[3], v[4] + [("APred", N(0))] if not v[4] else [], v[5])
        return (c, v[1], v[2], v[3], v[4], other([None, Some(("CoUser", N(5)))], v[5], rng))
    if c == "RecordV":
        w = rng.choice(["into", "vobj", "avobj", "strict", "req", "keys"])
        if w == "into":
            return (c, v[1], N((v[2].k + 1) % 3), v[3], v[4], v[5])
        if w == "vobj" and v[4] is None:
            return (c, v[1], v[2], other([None, Some(N(0)), Some(N(1))], v[3], rng), v[4], v[5])
        if w == "avobj" and v[3] is None:
            return (c, v[1], v[2], v[3], other([None, Some(N(0)), Some(N(1))], v[4], rng), v[5])
        if w == "strict":
            return (c, v[1], v[2], v[3], v[4], not v[5])
        if w == "req" and v[1]:
            ks = list(v[1])
            i = rng.randrange(len(ks))
            ks[i] = P(ks[i].a, ks[i].b[1] if ks[i].b[0] == "KeyNotRequired" else ("KeyNotRequired", ks[i].b))
            return (c, ks, v[2], v[3], v[4], v[5])
        if w == "keys" and v[1]:
            return (c, v[1][:-1], v[2], v[3], v[4], v[5])
        return None
    if c == "DictAnyV":
        w = rng.choice(["vobj", "strict", "req", "keys"])
        if w == "vobj" and v[3] is None:
            return (c, v[1], other([None, Some(N(0)), Some(N(1))], v[2], rng), v[3], v[4])
        if w == "strict":
            return (c, v[1], v[2], v[3], not v[4])
        if w == "req" and v[1]:
            ks = list(v[1])
            i = rng.randrange(len(ks))
            ks[i] = P(ks[i].a, ks[i].b[1] if ks[i].b[0] == "KeyNotRequired" else ("KeyNotRequired", ks[i].b))
            return (c, ks, v[2], v[3], v[4])
        if w == "keys" and v[1]:
            return (c, v[1][:-1], v[2], v[3], v[4])
        return None
    if c == "ClassV":
        w = rng.choice(["strict", "vobj", "co", "class"])
        if w == "strict":
            return (c, v[1], v[2], v[3], v[4], v[5], not v[6], v[7])
        if w == "vobj" and v[5] is None:
            return (c, v[1], v[2], v[3], other([None, Some(N(0)), Some(N(1))], v[4], rng), v[5], v[6], v[7])
        if w == "co":
            return (c, v[1], v[2], v[3], v[4], v[5], v[6], other([None, Some(("CoUser", N(5)))], v[7], rng))
        if w == "class":
            # same field names, another class (and, for TypedDict, another requiredness)
            swap = {G.C_DATA: G.C_SLOTSUB, G.C_SLOTSUB: G.C_DATA, G.C_TYPED: G.C_TYPED_ALLREQ, G.C_TYPED_ALLREQ: G.C_TYPED,
                    G.C_BASE2: G.C_DERIVED2, G.C_DERIVED2: G.C_BASE2}
            cid = v[2].k
            if cid not in swap:
                return None
            rk, flds = G.CLASS_SCHEMAS[swap[cid]]
            schema = [P(p.a, P(p.b.a, req)) for p, (_, req) in zip(v[3], flds)]
            return (c, v[1], N(swap[cid]), schema, v[4], v[5], v[6], v[7])
        return None
    if c == "UnionV":
        if len(v[1]) > 1 and rng.random() < 0.5:
            vs = list(v[1])
            vs[0], vs[-1] = vs[-1], vs[0]
            return (c, vs) if freeze(vs) != freeze(v[1]) else None
        return (c, v[1] + [("AlwaysValid",)])
    if c == "LazyV":
        return (c, v[1], not v[2])
    return None


def mutate_somewhere(v, rng, depth: int = 0) -> Optional[Any]:
    """Change one argument at one node of the tree (KeyNotRequired stays in key position)."""
    kids = child_slots(v)
    if kids and rng.random() < 0.6 and depth < 4:
        path = rng.choice(kids)
        sub = get_at(v, path)
        m = mutate_somewhere(sub, rng, depth + 1)
        if m is not None:
            return set_at(v, path, m)
    return mutate_here(v, rng)


def child_slots(v) -> list:
    c = v[0]
    if c in ("ListV", "SetV", "UTupleV", "MaybeV", "CacheV"):
        return [(1,)]
    if c == "KeyNotRequired":
        return [(1,)]
    if c == "MapV":
        return [(1,), (2,)]
    if c == "OptionalV":
        return [(2,)]
    if c in ("NTupleV", "UnionV"):
        return [(1, i) for i in range(len(v[1]))]
    if c in ("RecordV", "DictAnyV"):
        out = []
        for i, p in enumerate(v[1]):
            out.append((1, i, "b") if p.b[0] != "KeyNotRequired" else (1, i, "b", 1))
        return out
    if c == "ClassV":
        return [(3, i, "b", "a") for i in range(len(v[3]))]
    return []


def get_at(t, path):
    for s in path:
        t = (t.a if s == "a" else t.b) if s in ("a", "b") else t[s]
    return t


def set_at(t, path, new):
    if not path:
        return new
    s = path[0]
    if s == "a":
        return P(set_at(t.a, path[1:], new), t.b)
    if s == "b":
        return P(t.a, set_at(t.b, path[1:], new))
    if isinstance(t, tuple):
        return t[:s] + (set_at(t[s], path[1:], new),) + t[s + 1:]
    return t[:s] + [set_at(t[s], path[1:], new)] + t[s + 1:]


def results_equal(ra, rb) -> bool:
    if isinstance(ra, Exception) or isinstance(rb, Exception):
        return type(ra) is type(rb)
    try:
        return ra == rb
    except Exception:
        return False


def run(tier: str, rng: random.Random, proof_ok: bool) -> dict:
    t0 = time.time()
    violations: List[dict] = []
    seen = set()
    n_pairs = n_rebuild = n_probe = 0
    eq_true = eq_false = 0
    lines = []
    samples = []

    def report(sig, what, rc):
        if sig not in seen:
            seen.add(sig)
            violations.append({"kind": "oracle", "signature": sig, "what": what, "replay_case": rc})

    n = 500 if tier == "quick" else 12000
    # explicit: every wrapper form, recurrent and not, bare and inside each container (a definition's thunk is one
    # object per definition - "the same arguments")
    _INT = ("Scalar", ("KInt",), None, [], [], [])
    _STR = ("Scalar", ("KStr",), None, [], [], [])
    explicit = []
    for rec_ in (False, True):
        lz = ("LazyV", N(0), rec_)
        explicit += [lz, ("ListV", lz, [], [], None), ("OptionalV", ("NoneV", None), lz), ("MapV", _STR, lz, [], [], None),
                     ("UnionV", [_STR, lz]), ("SetV", lz, [], [], None), ("NTupleV", [lz, _INT], None, None), ("MaybeV", lz), ("CacheV", lz),
                     ("DictAnyV", [P(G.S("a"), lz), P(G.S("b"), ("KeyNotRequired", lz))], None, None, False)]
    plan = [([_INT], t_) for t_ in explicit] + [None] * n
    run_rng, explicit_rng = rng, random.Random(1909)     # the explicit part draws from a generator of its own: the generated part is the same stream as before
    for item in plan:
        if item is not None:
            lazy, t = item
            rng = explicit_rng
        else:
            rng = run_rng
            lazy = [G.gen_validator(rng, 0)]
            t = G.gen_validator(rng, rng.choice([0, 1, 2, 2, 3]), lazy_n=1)
        # (1) independent rebuild: equal, same repr, repr stable
        try:
            ctx = Ctx(G.STD_CLASSES, lazy, random.Random(7))
            ctx.rng = random.Random(7)      # same construction sequence (None vs [] for empty lists) for both builds
            a = ctx.validator(t)
            ctx.rng = random.Random(7)
            b = ctx.validator(t)
        except HarnessError:
            continue
        n_rebuild += 1
        if not (a == b):
            report("C19:rebuild-unequal", f"two validators built independently from the same arguments compare unequal: {a!r}",
                   {"t": to_json(t), "lazy": to_json(lazy)})
        ra1, ra2, rb = repr(a), repr(a), repr(b)
        if ra1 != ra2 or (ra1 != rb and "0x" not in ra1):
            report("C19:repr", f"repr is not deterministic: {ra1!r} vs {rb!r}", {"t": to_json(t), "lazy": to_json(lazy)})
        # (2) one argument changed at one node
        t2 = mutate_somewhere(t, rng)
        if t2 is None or freeze(t2) == freeze(t):
            continue
        try:
            ctx.rng = random.Random(7)
            c = ctx.validator(t2)
        except HarnessError:
            continue
        n_pairs += 1
        py_eq = bool(a == c)
        eq_true += py_eq
        eq_false += (not py_eq)
        lines.append((f"(veqb src_mask {coq(t)} {coq(t2)})", "true" if py_eq else "false", (t, t2)))
        if len(samples) < 3:
            samples.append({"t": coq(t)[:200], "t_changed": coq(t2)[:200], "python_eq": py_eq})
        if py_eq:
            # equal validators must behave equally: search for a separating input
            probes = [G.valid_input(t, rng, lazy), G.valid_input(t2, rng, lazy)]
            probes += [G.corrupt(probes[0], rng) for _ in range(3)] + rng.sample(G.HOSTILE, 10)
            for xt in probes:
                for mode in ("sync", "async"):
                    n_probe += 1
                    try:
                        x1, x2 = to_py(xt, ctx.ct), to_py(xt, ctx.ct)
                    except HarnessError:
                        continue
                    try:
                        r1 = a(x1) if mode == "sync" else drive(a.validate_async(x1))
                    except Exception as e:  # noqa
                        r1 = e
                    try:
                        r2 = c(x2) if mode == "sync" else drive(c.validate_async(x2))
                    except Exception as e:  # noqa
                        r2 = e
                    if not results_equal(r1, r2):
                        report("C19:equal-but-different-behaviour",
                               f"{a!r} == {c!r} yet on {x1!r} ({mode}) they return {r1!r} and {r2!r}",
                               {"t": to_json(t), "t2": to_json(t2), "lazy": to_json(lazy), "x": to_json(xt), "mode": mode})
    rng = run_rng
    # (3) equal validators behave equally whatever each has been used for before: one of two equal objects
    #     is first used on a short history, then both are asked about the same input
    overlap = [("UnionV", [("Scalar", ("KDatetime",), Some(("CoDatetime",)), [], [], []), ("Scalar", ("KStr",), None, [], [], [])]),
               ("UnionV", [("Scalar", ("KInt",), None, [], [], []), ("Scalar", ("KDecimal",), Some(("CoDecimal",)), [], [], [])]),
               ("UnionV", [("Scalar", ("KDate",), Some(("CoDate",)), [], [], []), ("Scalar", ("KStr",), None, [("Strip",)], [], [])]),
               ("ListV", ("UnionV", [("Scalar", ("KUuid",), Some(("CoUuid",)), [], [], []), ("Scalar", ("KStr",), None, [], [], [])]), [], [], None),
               ("OptionalV", ("NoneV", None), ("UnionV", [("Scalar", ("KDecimal",), Some(("CoDecimal",)), [], [], []), ("Scalar", ("KStr",), None, [], [], [])]))]
    alpha = [G.S("abc"), G.S("2020-01-02T03:04:05"), G.S("2020-01-02"), G.S("1.5"), G.I(1), G.S("12345678-1234-5678-1234-567812345678"),
             G.NONE, ("VList", [G.S("abc")]), ("VList", [G.S("12345678-1234-5678-1234-567812345678")]), G.D1]
    n_hist = 0
    trees = overlap * (2 if tier == "quick" else 20) + [G.gen_validator(rng, rng.choice([1, 2]), allow_async=False) for _ in range(60 if tier == "quick" else 1500)]
    for t in trees:
        try:
            ctx = Ctx(G.STD_CLASSES, [], random.Random(7))
            ctx.rng = random.Random(7)
            a = ctx.validator(t)
            ctx.rng = random.Random(7)
            b = ctx.validator(t)
        except HarnessError:
            continue
        if not (a == b) or G.contains(t, "CacheV"):
            continue
        hist = [rng.choice(alpha) for _ in range(rng.choice([1, 2, 3]))]
        mode = rng.choice(["sync", "sync", "async"])
        try:
            for h in hist:
                xh = to_py(h, ctx.ct)
                try:
                    a(xh) if mode == "sync" else drive(a.validate_async(xh))
                except Exception:  # noqa
                    pass
            for xt in alpha:
                n_hist += 1
                x1, x2 = to_py(xt, ctx.ct), to_py(xt, ctx.ct)
                try:
                    r1 = a(x1) if mode == "sync" else drive(a.validate_async(x1))
                except Exception as e:  # noqa
                    r1 = e
                ctx.rng = random.Random(7)
                b = ctx.validator(t)              # an equal validator that has never been used
                try:
                    r2 = b(x2) if mode == "sync" else drive(b.validate_async(x2))
                except Exception as e:  # noqa
                    r2 = e
                if not (a == b):
                    continue
                if not results_equal(r1, r2):
                    report("C19:equal-but-history-dependent",
                           f"two equal validators {a!r}: the one used before on {[to_py(h, ctx.ct) for h in hist]!r} returns {r1!r} on {x1!r}, the fresh one {r2!r}",
                           {"t": to_json(t), "history": [to_json(h) for h in hist], "x": to_json(xt), "mode": mode})
                    break
        except HarnessError:
            continue
    # TypeValidator over different types, Equals over equal-valued matches of different types
    tv = lambda t_: ("Scalar", ("KType", t_), None, [], [], [])
    explicit = [(tv(("TInt",)), tv(("TStr",))), (tv(("TClass", N(G.C_PLAIN))), tv(("TClass", N(G.C_UNHASH)))),
                (tv(("TInt",)), tv(("TBool",))), (("EqualsV", G.I(1), []), ("EqualsV", G.TRUE, [])),
                (("EqualsV", G.I(1), []), ("EqualsV", G.F1, [])), (("EqualsV", G.I(0), []), ("EqualsV", G.FALSE, [])),
                (("ListV", tv(("TInt",)), [], [], None), ("ListV", tv(("TStr",)), [], [], None)),
                (("Scalar", ("KDecimal",), Some(("CoDecimal",)), [], [], []), ("Scalar", ("KDecimal",), None, [], [], []))]
    ctx = Ctx(G.STD_CLASSES, [])
    for t, t2 in explicit:
        a, c = ctx.validator(t), ctx.validator(t2)
        n_pairs += 1
        py_eq = bool(a == c)
        lines.append((f"(veqb src_mask {coq(t)} {coq(t2)})", "true" if py_eq else "false", (t, t2)))
        if py_eq:
            for xt in [G.I(1), G.S("a"), G.TRUE, G.F1, G.OBJ, G.UOBJ, ("VList", [G.I(1)]), ("VList", [G.S("a")]), G.I(0), G.FALSE, G.S("1")]:
                x = to_py(xt, ctx.ct)
                r1, r2 = a(x), c(x)
                if not results_equal(r1, r2):
                    report("C19:equal-but-different-behaviour", f"{a!r} == {c!r} yet on {x!r} they return {r1!r} and {r2!r}",
                           {"t": to_json(t), "t2": to_json(t2), "lazy": [], "x": to_json(xt), "mode": "sync"})
                    break
    # scalar kinds pairwise (different classes -> unequal)
    ctx = Ctx(G.STD_CLASSES, [])
    objs = [(k, ctx.validator(("Scalar", (k,), None, [], [], []))) for k in G.KINDS]
    for i, (k1, o1) in enumerate(objs):
        for k2, o2 in objs[i + 1:]:
            n_pairs += 1
            if o1 == o2:
                report("C19:equal-but-different-behaviour", f"{o1!r} == {o2!r}", None)
    # (4) an equal validator that is busy (other calls suspended inside it) behaves like an idle one
    from .hist import overlap_violation
    AINT = ("Scalar", ("KInt",), None, [], [], [("APred", N(2))])
    busy = [(("ListV", AINT, [], [], None), [("VList", [G.I(2), G.I(4)]), ("VList", [G.I(3), G.I(1), G.I(2)]), ("VList", [G.I(2), G.S("x")])]),
            (("UTupleV", AINT, [], [], None), [("VTuple", [G.I(2)]), ("VTuple", [G.I(3), G.I(6)])]),
            (("MapV", AINT, AINT, [], [], None), [("VDict", [P(G.I(2), G.I(4))]), ("VDict", [P(G.I(1), G.I(2)), P(G.I(4), G.I(3))])]),
            (("DictAnyV", [P(G.S("a"), AINT), P(G.S("b"), AINT)], None, None, False),
             [("VDict", [P(G.S("a"), G.I(2)), P(G.S("b"), G.I(3))]), ("VDict", [P(G.S("a"), G.I(1))])])]
    n_busy = 0
    import itertools
    for vt, alpha2 in busy:
        for xts in itertools.product(alpha2, repeat=2):
            v, c = overlap_violation("C19", vt, [], list(xts), 300 if tier == "quick" else 2500)
            n_busy += c
            if v:
                v["what"] = "two equal validators, one of them busy with another call: " + v["what"]
                report("C19:equal-but-busy", v["what"], v["replay_case"])
    # (5) equal validators built at different times: record classes that share a qualified name
    #     (a class factory), other validators built in between
    r = construction_history(tier)
    if r:
        report("C19:equal-but-construction-history", r, {"construction_history": True})
    for sig_, what_ in factory_configurations():
        report(sig_, what_, {"factory_configurations": sig_})
    # model vs implementation on the equality verdicts
    mism = model_verdicts(lines, violations)
    cov = {"evaluations": n_pairs + n_rebuild + n_probe, "distinct_nontrivial": n_pairs,
           "rule": "pairs (t, independent rebuild of t) and (t, t with one constructor argument changed at one node); Python == compared with veqb src_mask; separating-input probes for every pair Python reports equal",
           "pairs": n_pairs, "rebuilds": n_rebuild, "python_equal": eq_true, "python_unequal": eq_false,
           "separating_probes": n_probe, "history_probes": n_hist, "model_verdicts_compared": len(lines), "mismatches": mism,
           "samples": samples or [{"note": "see rule"}], "traces_validated_against_impl": len(lines),
           "corr_wall_s": round(time.time() - t0, 1)}
    return {"violations": violations, "coverage": cov}


def _factory_classes():
    """pairs of distinct classes with one qualified name and different defaults / requiredness"""
    import dataclasses
    from typing import NamedTuple, TypedDict

    def nt(default):
        if default is None:
            class Settings(NamedTuple):
                host: str
                retries: int
        else:
            class Settings(NamedTuple):  # type: ignore  # noqa
                host: str
                retries: int = default
        return Settings

    def dc(default):
        if default is None:
            @dataclasses.dataclass
            class Conf:
                host: str
                retries: int
        else:
            @dataclasses.dataclass
            class Conf:  # type: ignore  # noqa
                host: str
                retries: int = default
        return Conf

    def td(total):
        if total:
            class Opts(TypedDict):
                host: str
                retries: int
        else:
            class Opts(TypedDict, total=False):  # type: ignore  # noqa
                host: str
                retries: int
        return Opts
    return [(nt(3), nt(None), nt(7)), (dc(3), dc(None), dc(7)), (td(True), td(False), td(True))]


def construction_history(tier: str) -> Optional[str]:
    import dataclasses
    from typing import NamedTuple
    from koda_validate import DataclassValidator, NamedTupleValidator, TypedDictValidator
    for fam in _factory_classes():
        mk = NamedTupleValidator if hasattr(fam[0], "_fields") else (DataclassValidator if dataclasses.is_dataclass(fam[0]) else TypedDictValidator)
        first = [mk(k) for k in fam]                  # one after the other, same qualified name
        later = []
        for j, k in enumerate(fam):
            for i in range(140 if tier == "quick" else 600):   # unrelated validators in between
                NamedTupleValidator(NamedTuple("T%d_%d" % (j, i), [("a", int)]))
                DataclassValidator(dataclasses.make_dataclass("D%d_%d" % (j, i), [("a", int)]))
            later.append(mk(k))
        probes = [{"host": "db1"}, {"host": "db1", "retries": 2}, {}, {"retries": 1}, {"host": 1}]
        for k, a, b in zip(fam, first, later):
            if not (a == b):
                continue
            for x in probes + ([k("h", 1)] if mk is not TypedDictValidator else []):
                for mode in ("sync", "async"):
                    try:
                        r1 = a(x) if mode == "sync" else drive(a.validate_async(x))
                    except Exception as e:  # noqa
                        r1 = e
                    try:
                        r2 = b(x) if mode == "sync" else drive(b.validate_async(x))
                    except Exception as e:  # noqa
                        r2 = e
                    if not results_equal(r1, r2):
                        return (f"{a!r} == {b!r} (same class, built before / after other validators for classes of the same "
                                f"qualified name) yet on {x!r} ({mode}) they return {r1!r} and {r2!r}")
    return None


def factory_configurations() -> list:
    """Configuration objects made by one factory with different parameters (coercers, predicates, processors built
    from one function or lambda definition): validators holding them are equal only if they behave equally."""
    from koda import Just, nothing
    from koda_validate import Coercer, IntValidator, ListValidator, OptionalValidator, Predicate, Processor, StringValidator

    def int_in_base(base):
        def fn(v):
            if type(v) is str:
                try:
                    return Just(int(v, base))
                except ValueError:
                    return nothing
            return nothing
        return Coercer(fn, {str})

    def prefixer(p):
        class Pre(Processor):          # type: ignore
            def __call__(self, val):
                return p + val
        return Pre()
    pairs = [(IntValidator(coerce=int_in_base(10)), IntValidator(coerce=int_in_base(16)), ["10", "ff", "7"]),
             (ListValidator(IntValidator(coerce=int_in_base(10))), ListValidator(IntValidator(coerce=int_in_base(16))), [["10"], ["ff"]]),
             (OptionalValidator(IntValidator(coerce=int_in_base(2))), OptionalValidator(IntValidator(coerce=int_in_base(10))), ["10", "2", None]),
             (IntValidator(coerce=Coercer(lambda v: Just(1), {str})), IntValidator(coerce=Coercer(lambda v: Just(2), {str})), ["x"])]
    # parameters that are == although their types differ (1 / 1.0 / True / Decimal(1)): whenever the library calls
    # two such validators equal, they answer alike
    from decimal import Decimal
    from koda_validate import (Choices, DecimalValidator, EqualsValidator, EqualTo, FloatValidator, Max, Min, MultipleOf)
    nums = [1, 1.0, True, Decimal(1), 5, 5.0, Decimal(5), 2, 2.0, 4.0, 4, Decimal("2.0"), 0, False, 0.0, "1"]
    for mk in (lambda p: FloatValidator(p), lambda p: IntValidator(p), lambda p: DecimalValidator(p),
               lambda p: ListValidator(FloatValidator(p))):
        for P_ in (EqualTo, Min, Max, MultipleOf, lambda z: Choices({z}), lambda z: Min(z, exclusive_minimum=True)):
            for z1, z2 in ((1, 1.0), (1, True), (5, Decimal(5)), (2, 2.0), (1.0, Decimal(1)), (0, False), (2, Decimal("2.0"))):
                try:
                    a_, b_ = mk(P_(z1)), mk(P_(z2))
                except Exception:  # noqa
                    continue
                xs_ = [[n_] for n_ in nums] if isinstance(a_, ListValidator) else nums
                pairs.append((a_, b_, xs_))
    # record validators over identical classes / with overrides naming no field: equal (the library says) - then alike
    from typing import NamedTuple as _NT, TypedDict as _TD
    from koda_validate import DataclassValidator, NamedTupleValidator, TypedDictValidator
    import dataclasses as _dc
    only_dicts = Coercer(lambda v: Just(v) if type(v) is dict else nothing, {dict})
    TD1, TD2 = _TD("Settings", {"a": int, "b": str}), _TD("Settings", {"a": int, "b": str})
    NTc = _NT("NTc", [("a", int), ("b", str)])
    DCc = _dc.make_dataclass("DCc", [("a", int), ("b", str)])
    rec_inputs = [5, "x", None, {"a": 1, "b": "s"}, {"a": "no", "b": "s"}, {"a": 1, "b": "s", "zz": "t"}, {"a": 1}, [("a", 1)]]
    pairs += [(TypedDictValidator(TD1, coerce=only_dicts), TypedDictValidator(TD2, coerce=only_dicts), rec_inputs),
              (TypedDictValidator(TD1, fail_on_unknown_keys=True), TypedDictValidator(TD2, fail_on_unknown_keys=True), rec_inputs)]
    for V_, cls_ in ((NamedTupleValidator, NTc), (DataclassValidator, DCc), (TypedDictValidator, TD1)):
        for strict_ in (False, True):
            pairs.append((V_(cls_, overrides={"a": IntValidator()}, fail_on_unknown_keys=strict_),
                          V_(cls_, overrides={"a": IntValidator(), "zz": StringValidator()}, fail_on_unknown_keys=strict_), rec_inputs))
    from koda_validate import DictValidatorAny, KeyNotRequired
    iv, sv = IntValidator(), StringValidator()
    ord_inputs = [{"b": 5}, {"a": "no"}, {"a": "no", "c": 1}, {"c": "x"}, {"a": 1, "b": "s", "c": 2}, {}, {"b": 5, "c": "x"}]
    pairs += [(DictValidatorAny({"a": iv, "b": sv, "c": iv}), DictValidatorAny({"c": iv, "b": sv, "a": iv}), ord_inputs),
              (DictValidatorAny({"a": iv, "b": KeyNotRequired(sv), "c": iv}), DictValidatorAny({"b": KeyNotRequired(sv), "c": iv, "a": iv}), ord_inputs)]
    pairs += [(EqualsValidator(1), EqualsValidator(1.0), nums), (EqualsValidator(1), EqualsValidator(True), nums),
              (EqualsValidator(Decimal(5)), EqualsValidator(5), nums)]
    found: dict = {}
    for a, b, xs in pairs:
        try:
            eq = bool(a == b)
        except Exception:  # noqa
            continue
        if not eq:
            continue
        for x in xs:
            for mode in ("sync", "async"):
                try:
                    r1 = a(x) if mode == "sync" else drive(a.validate_async(x))
                except Exception as e:  # noqa
                    r1 = e
                try:
                    r2 = b(x) if mode == "sync" else drive(b.validate_async(x))
                except Exception as e:  # noqa
                    r2 = e
                v1 = getattr(r1, "val", r1) if getattr(r1, "is_valid", False) else None
                v2 = getattr(r2, "val", r2) if getattr(r2, "is_valid", False) else None
                both_results = hasattr(r1, "is_valid") and hasattr(r2, "is_valid")
                if getattr(r1, "is_valid", None) != getattr(r2, "is_valid", None) or v1 != v2 or (both_results and not results_equal(r1, r2)):
                    what = f"{a!r} == {b!r} (configuration objects from one factory / parameters that are == across types) yet on {x!r} ({mode}) they return {r1!r} and {r2!r}"
                    # one specific way of differing is a recorded finding: a float met a Decimal parameter (or the
                    # other way round) in arithmetic, which Python refuses
                    mixed = any(isinstance(r_, TypeError) and "unsupported operand type(s)" in str(r_) and "Decimal" in str(r_) and "float" in str(r_)
                                for r_ in (r1, r2))
                    sig = "C19:equal-but-mixed-arithmetic-raises" if mixed else "C19:equal-but-different-behaviour"
                    if sig not in found:
                        found[sig] = what
    return [(k, v) for k, v in found.items()]


def probe_known(k: dict) -> bool:
    return any(s_ == k["signature"] for s_, _ in factory_configurations())


def model_verdicts(lines, violations) -> int:
    if not lines:
        return 0
    os.makedirs(GEN, exist_ok=True)
    per = 400
    files = []
    hdr = HEADER.replace("Corr.Check.", "Corr.Check Model.Eq.") + "From KVGen Require Import Facts_eq.\n"
    for k in range(0, len(lines), per):
        chunk = lines[k:k + per]
        path = os.path.join(GEN, f"cases_C19_p{os.getpid()}_{k // per}.v")
        body = [hdr, "Goal True.\n"] + [f"  chk_eq {i}%nat {lhs} {rhs}.\n" for i, (lhs, rhs, _) in enumerate(chunk)] + ["exact I. Qed.\n"]
        open(path, "w").write("".join(body))
        files.append((path, chunk))
    with ThreadPoolExecutor(max_workers=16) as ex:
        results = list(ex.map(lambda fc: run_coq_file(fc[0]), files))
    mism = 0
    for (path, chunk), (status, mm, raw) in zip(files, results):
        if status != "ok":
            violations.append({"kind": "correspondence", "signature": None,
                               "what": f"correspondence file {os.path.basename(path)} failed to evaluate", "log": raw[-1500:]})
        for idx, model in mm:
            mism += 1
            if mism <= 3:
                t, t2 = chunk[idx][2]
                violations.append({"kind": "correspondence", "signature": None,
                                   "what": f"correspondence family 'C19-eq' no longer checks: Python == says {chunk[idx][1]}, veqb src_mask says {model}",
                                   "case": {"t": to_json(t), "t2": to_json(t2)}})
        if status == "ok" and not mm:
            for ext in (".v", ".vo", ".vok", ".vos", ".glob"):
                try:
                    os.remove(path[:-2] + ext)
                except OSError:
                    pass
    return mism


def replay(path: str) -> int:
    import json
    j = json.load(open(path))
    rc = j.get("replay_case") or j.get("case")
    if not rc:
        print("no input in replay file:", j.get("what"))
        return 1
    if rc.get("factory_configurations"):
        rs = [w for s_, w in factory_configurations() if rc["factory_configurations"] in (True, s_)]
        print("property violated: " + rs[0] if rs else "property holds for factory-made configuration objects and cross-type equal parameters")
        return 1 if rs else 0
    if rc.get("construction_history"):
        r = construction_history("quick")
        print("property violated: " + r if r else "property holds on this construction history")
        return 1 if r else 0
    if rc.get("overlap"):
        from .hist import replay_special
        return replay_special(rc, "C19")
    lazy = from_json(rc.get("lazy", []))
    ctx = Ctx(G.STD_CLASSES, lazy, random.Random(7))
    a = ctx.validator(from_json(rc["t"]))
    ctx.rng = random.Random(7)
    b = ctx.validator(from_json(rc.get("t2", rc["t"])))
    print("a == b:", a == b, "| repr equal:", repr(a) == repr(b))
    if "history" in rc:
        for h in rc["history"]:
            xh = to_py(from_json(h), ctx.ct)
            try:
                a(xh) if rc["mode"] == "sync" else drive(a.validate_async(xh))
            except Exception:  # noqa
                pass
    if "x" in rc:
        x = to_py(from_json(rc["x"]), ctx.ct)
        r1 = a(x) if rc["mode"] == "sync" else drive(a.validate_async(x))
        r2 = b(x) if rc["mode"] == "sync" else drive(b.validate_async(x))
        print(r1, "|", r2)
        return 0 if (not (a == b)) or results_equal(r1, r2) else 1
    return 0 if a == b else 1
