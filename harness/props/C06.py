"""C06 - sync and async validation agree; async-only checks are never silently skipped."""
from __future__ import annotations

import os
import random
from typing import List, Optional

from .. import gen as G
from .. import userlib as U
from ..build import HarnessError
from ..corr import Case, drive
from ..facts import twins
from ..lang import N, P, Some, coq, freeze
from .C03 import _canon
from .common import generic_replay, run_families, std_case

ROOT = os.path.dirname(os.path.dirname(os.path.dirname(os.path.abspath(__file__))))
from ..rundir import GEN as _GEN  # noqa: E402
EXTRA_PROOF_FILES = ["generated/Facts_twins.v"]
ASSUMPTIONS = [
    "user-written validators are coherent: when their sync entry returns, their async entry returns the same (user_coherent)",
    "G3 twin residue: every textual difference between sync/async twins is in the reviewed benign list (harness/facts/twins_benign.json)",
]
TRUSTED_EXTRA = ["fact translator harness/facts/twins.py (python ast) regenerates coq/generated/Facts_twins.v from /repo on every run"]
from ..facts import effects as _effects  # noqa: E402
_FX = _effects.obligation("C06")
EXTRA_PROOF_FILES.append(_FX[0])
TRUSTED_EXTRA.append(_FX[1])


def regenerate_facts():
    ok1, msg1 = _regenerate_twin_facts()
    ok2, msg2 = _FX[2]()
    return ok1 and ok2, "; ".join(m for m in (msg1, msg2) if m)


def _regenerate_twin_facts():
    try:
        d = twins.emit(os.environ.get("KV_REPO", "/repo"), os.path.join(_GEN, "Facts_twins.v"))
        if d["unclassified"]:
            return True, "twin residue not in the benign list: " + "; ".join(
                f"{f}:{o}.{n}:{side}: {st[:120]!r}" for f, o, n, side, st in d["unclassified"][:3])
        return True, ""
    except Exception as e:  # fail closed
        return False, f"twins extractor failed: {e}"


def has_async(t, lazy) -> bool:
    """Is any async-only check configured in the tree (or the lazy definitions)?"""
    def walk(t) -> bool:
        if isinstance(t, tuple):
            if t and t[0] == "APred":
                return True
            if t and t[0] in ("RecordV", "DictAnyV") and t[-2] is not None and t[0] == "DictAnyV":
                pass
            if t and t[0] == "RecordV" and t[4] is not None:
                return True
            if t and t[0] == "DictAnyV" and t[3] is not None:
                return True
            if t and t[0] == "ClassV" and t[5] is not None:
                return True
            if t and t[0] == "UserV" and t[1].k == 1:
                return True
            return any(walk(x) for x in t[1:])
        if isinstance(t, list):
            return any(walk(x) for x in t)
        if isinstance(t, P):
            return walk(t.a) or walk(t.b)
        if isinstance(t, Some):
            return walk(t.x)
        return False
    return walk(t) or any(walk(l) for l in lazy)


def cases(tier: str, rng: random.Random) -> List[Case]:
    out: List[Case] = []
    n = 900 if tier == "quick" else 20000
    for i in range(n):
        lazy = [G.gen_validator(rng, rng.choice([0, 1]), allow_async=rng.random() < 0.5)]
        allow_async = rng.random() < 0.6
        v = G.gen_validator(rng, rng.choice([0, 1, 2, 2, 3]), allow_async=allow_async, lazy_n=1)
        x = G.valid_input(v, rng, lazy)
        r = rng.random()
        tag = "b:valid"
        if r < 0.35:
            x, tag = G.corrupt(x, rng), "b:corrupt"
        elif r < 0.45:
            x, tag = rng.choice(G.HOSTILE), "c:hostile"
        out.append(std_case(v, x, "sync", lazy=lazy, tag=tag))
        out.append(std_case(v, x, "async", lazy=lazy, tag=tag))
    # async checks at each distinct stage of each container, inputs rejected at each stage
    ap = [("APred", N(1))]
    apt = [("APred", N(0))]
    INT = ("Scalar", ("KInt",), None, [], [], [])
    AINT = ("Scalar", ("KInt",), None, [], [("PMin", G.I(0), False)], ap)
    AINT_T = ("Scalar", ("KInt",), None, [], [], apt)
    ONLY_ASYNC = ("Scalar", ("KStr",), None, [], [], ap)
    trees = [
        ("ListV", AINT, [("PMinItems", 1)], [], None), ("ListV", INT, [("PMinItems", 1)], ap, None),
        ("ListV", ONLY_ASYNC, [], [], None), ("MaybeV", ONLY_ASYNC), ("NTupleV", [ONLY_ASYNC, INT], None, Some(("CoTupleOrList",))),
        ("SetV", AINT, [], [], None), ("SetV", INT, [], apt, None),
        ("UTupleV", AINT_T, [], ap, Some(("CoTupleOrList",))),
        ("MapV", AINT, INT, [("PMinKeys", 1)], [], None), ("MapV", INT, INT, [], ap, None),
        ("RecordV", [P(G.S("a"), AINT), P(G.S("b"), ("KeyNotRequired", ONLY_ASYNC))], N(0), None, Some(N(1)), True),
        ("RecordV", [P(G.S("a"), ONLY_ASYNC)], N(0), None, None, False),
        ("DictAnyV", [P(G.S("a"), AINT_T)], None, Some(N(0)), False),
        ("DictAnyV", [P(G.S("a"), ONLY_ASYNC)], None, None, False),
        ("ClassV", ("RkData",), N(G.C_DATA), [P(G.S("a"), P(AINT, True)), P(G.S("b"), P(ONLY_ASYNC, False))], None, Some(N(2)), False, None),
        ("ClassV", ("RkTyped",), N(G.C_TYPED), [P(G.S("k"), P(ONLY_ASYNC, True)), P(G.S("o"), P(INT, False))], None, None, False, None),
        ("ClassV", ("RkNamed",), N(G.C_NAMED), [P(G.S("x"), P(ONLY_ASYNC, True)), P(G.S("y"), P(INT, False))], None, None, False, None),
        ("UnionV", [INT, AINT_T, ("UserV", N(1), False)]), ("UnionV", [ONLY_ASYNC, INT]),
        ("OptionalV", ("NoneV", None), AINT), ("OptionalV", ("NoneV", None), ONLY_ASYNC),
        ("MaybeV", AINT), ("LazyV", N(0), True), ("CacheV", AINT), ("CacheV", ONLY_ASYNC),
        ("NTupleV", [AINT, INT], Some(N(1)), Some(("CoTupleOrList",))),
        ("ListV", ("UserV", N(1), True), [], [], None),
        # the only async-only check is the whole-object one (a coroutine function, and a callable object with an
        # async __call__): every key validates synchronously, so a sync call that skipped the guard would return
        ("RecordV", [P(G.S("a"), INT)], N(0), None, Some(N(0)), False),
        ("RecordV", [P(G.S("a"), INT)], N(0), None, Some(N(1)), False),
        ("RecordV", [P(G.S("a"), INT), P(G.S("b"), ("KeyNotRequired", INT))], N(0), None, Some(N(1)), True),
        ("DictAnyV", [P(G.S("a"), INT)], None, Some(N(1)), False),
        ("ClassV", ("RkData",), N(G.C_DATA), [P(G.S("a"), P(INT, True)), P(G.S("b"), P(INT, False))], None, Some(N(1)), False, None),
        ("NTupleV", [INT, INT], None, Some(("CoTupleOrList",))),
    ]
    inputs = [G.I(1), G.I(-1), G.S("s"), G.NONE, ("VList", []), ("VList", [G.I(1)]), ("VList", [G.I(-1), G.S("q")]), ("VList", [G.S("q")]),
              ("VSet", [G.I(2)]), ("VTuple", [G.I(2), G.I(3)]), ("VTuple", [G.S("q"), G.I(3)]), ("VDict", []), ("VDict", [P(G.I(1), G.I(2))]),
              ("VDict", [P(G.S("a"), G.I(1))]), ("VDict", [P(G.S("a"), G.S("q"))]), ("VDict", [P(G.S("a"), G.I(1)), P(G.S("zz"), G.I(1))]),
              ("VDict", [P(G.S("a"), G.I(1)), P(G.S("b"), G.S("q"))]), ("VDict", [P(G.S("k"), G.S("q"))]), ("VDict", [P(G.S("x"), G.S("q"))]),
              ("VJust", G.I(1)), ("VJust", G.S("q")), G.NOTHING]
    for t in trees:
        for x in inputs:
            for m in ("sync", "async"):
                out.append(std_case(t, x, m, lazy=[AINT], tag="a:stages"))
    # unions of seven and eight variants (ends of the typed constructor's argument list)
    for v_, x_ in G.wide_union_cases():
        for m_ in ("sync", "async"):
            out.append(std_case(v_, x_, m_, tag="a:wide-union"))
    # optionals whose none_validator is the user's own
    for v_, x_ in G.custom_none_cases():
        for m_ in ("sync", "async"):
            out.append(std_case(v_, x_, m_, tag="a:custom-none"))
    return out


def oracle(c: Case) -> Optional[dict]:
    """Run the other entry point on the same objects and compare."""
    if c.mode != "sync":
        return None
    ctx = c.ctx
    U.reset_logs()
    a_exc, a_raw = None, None
    try:
        a_raw = drive(c.vobj.validate_async(c.px))
    except BaseException as e:  # noqa
        a_exc = e
    n_async = U.ASYNC_CHECKS["n"]
    if c.exc is not None:
        if type(c.exc) is AssertionError:
            if not has_async(c.v, c.lazy):
                return {"signature": "C06:assert-without-async-config",
                        "what": "no async-only check is configured anywhere, yet the sync call raised AssertionError"}
            return None
        return None      # other exceptions: C01
    # sync returned
    if a_exc is not None:
        return {"signature": "C06:async-raised", "what": f"sync returned {c.raw!r} but the async call raised {a_exc!r}"}
    try:
        ts, ta = ctx.result(c.raw), ctx.result(a_raw)
    except HarnessError:
        return None
    if freeze(_canon(ts)) != freeze(_canon(ta)):
        return {"signature": "C06:results-differ",
                "what": f"sync and async results differ: sync={c.raw!r} async={a_raw!r}"}
    if n_async:
        return {"signature": "C06:async-check-skipped",
                "what": f"sync returned {c.raw!r} although the async run of the same input evaluated {n_async} async-only check(s)"}
    return None


def nontrivial(c: Case) -> bool:
    return c.obs is not None and c.obs[0] != "OAssert"


def one_shot_configuration() -> Optional[dict]:
    """Configuration handed over as a one-shot iterable (zip, a generator, an iterator) - which the constructors
    accept - serves both entry points: sync and async agree on every input."""
    from koda_validate import IntValidator, Invalid, RecordValidator, StringValidator, Valid
    names, vals = ["a", "b"], [IntValidator(), StringValidator()]
    forms = [("zip", lambda: zip(names, vals)), ("generator", lambda: ((n, v) for n, v in zip(names, vals))),
             ("iterator", lambda: iter(list(zip(names, vals)))), ("tuple", lambda: tuple(zip(names, vals)))]
    for label, mk in forms:
        try:
            v = RecordValidator(into=lambda a, b: (a, b), keys=mk())
        except Exception:  # noqa - a constructor that refuses the form is not this property's business
            continue
        for x in ({"a": 1, "b": "s"}, {"a": "no", "b": "s"}, {"a": 1}, {}, 5):
            try:
                rs = v(x)
            except Exception as e:  # noqa
                rs = e
            try:
                ra = drive(v.validate_async(x))
            except Exception as e:  # noqa
                ra = e
            same = (type(rs) is type(ra)) and ((type(rs) is Valid and rs.val == ra.val) or (type(rs) is Invalid and type(rs.err_type) is type(ra.err_type)
                                                                                            and repr(rs.err_type) == repr(ra.err_type)))
            if not same and not (isinstance(rs, AssertionError)):
                return {"signature": "C06:one-shot-configuration",
                        "what": f"RecordValidator built with keys given as a {label}: on {x!r} the sync call gives {rs!r}, the awaited call {ra!r}"}
    return None


def run(tier: str, rng: random.Random, proof_ok: bool) -> dict:
    from .hist import odd_equality_violation
    rep = run_families("C06", cases(tier, rng), rng, oracle, nontrivial)
    osc = one_shot_configuration()
    if osc:
        rep["violations"].append({"kind": "oracle", **osc, "replay_case": {"one_shot_configuration": True}})
    oe = odd_equality_violation("C06")     # both entry points, on values whose __eq__ is unusual
    if oe:
        rep["violations"].append(oe)
    return rep


def replay(path: str) -> int:
    import json
    from .hist import replay_special
    rc = json.load(open(path)).get("replay_case")
    if isinstance(rc, dict) and rc.get("one_shot_configuration"):
        r_ = one_shot_configuration()
        print("property violated: " + r_["what"] if r_ else "property holds for configuration given as one-shot iterables")
        return 1 if r_ else 0
    r = replay_special(rc, "C06") if isinstance(rc, dict) else None
    return r if r is not None else generic_replay(path, oracle)
