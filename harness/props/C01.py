"""C01 - validation is total: every call yields Valid or Invalid, never an exception."""
from __future__ import annotations

import random
import traceback
from typing import List, Optional

from koda_validate import Invalid, Valid
from koda_validate import errors as KE

from .. import gen as G
from ..corr import Case, drive
from ..lang import N, P, Some
from .C06 import has_async
from .common import generic_replay, run_families, std_case
from .hist import history_violation, raised, replay_special

ASSUMPTIONS = [
    "trees are well-formed in the sense of Total.wf: predicates/processors typed for their validator, non-zero MultipleOf factors, hashable payloads where a set member or dict key is built, total user callbacks",
    "nesting stays below Python's recursion limit",
]
from ..facts import effects as _effects  # noqa: E402
_FX = _effects.obligation("C01")
EXTRA_PROOF_FILES = [_FX[0]]
TRUSTED_EXTRA = [_FX[1]]
regenerate_facts = _FX[2]
DOCUMENTED_ERRS = (KE.CoercionErr, KE.ContainerErr, KE.ExtraKeysErr, KE.IndexErrs, KE.KeyErrs, KE.MapErr,
                   KE.MissingKeyErr, KE.PredicateErrs, KE.SetErrs, KE.TypeErr, KE.ValidationErrBase, KE.UnionErrs)


def cases(tier: str, rng: random.Random) -> List[Case]:
    out: List[Case] = []
    n = 1100 if tier == "quick" else 25000
    G.WF_ONLY[0] = True
    try:
        for i in range(n):
            lazy = [G.gen_validator(rng, rng.choice([0, 1]))]
            v = G.gen_validator(rng, rng.choice([0, 1, 2, 2, 3]), lazy_n=1)
            r = rng.random()
            x = G.valid_input(v, rng, lazy)
            tag = "b:valid"
            if r < 0.25:
                x, tag = G.corrupt(x, rng), "b:corrupt"
            elif r < 0.55:      # hostile stream weighted x3
                x, tag = rng.choice(G.HOSTILE), "c:hostile"
            for m in ("sync", "async"):
                c = std_case(v, x, m, lazy=lazy, tag=tag)
                c.proj = "class"
                out.append(c)
        # every scalar kind against the whole hostile pool
        for kind in G.KINDS:
            for _ in range(3 if tier == "quick" else 20):
                v = G.gen_scalar(rng, kind)
                for x in rng.sample(G.HOSTILE, 12 if tier == "quick" else 60):
                    c = std_case(v, x, rng.choice(["sync", "async"]), tag="c:hostile-scalar")
                    c.proj = "class"
                    out.append(c)
        # numeric predicates at the ends of the number line: infinities, NaN, integers beyond any double
        BIG = G.I(10 ** 400)
        for v in (("Scalar", ("KFloat",), None, [], [("PMultipleOf", G.F1)], []), ("Scalar", ("KFloat",), None, [], [("PMultipleOf", G.F(False, 1, -1)), ("PMin", G.F0, False)], []),
                  ("Scalar", ("KInt",), None, [], [("PMultipleOf", G.I(3))], []), ("Scalar", ("KInt",), None, [], [("PMultipleOf", G.I(7)), ("PMax", G.I(5), True)], []),
                  ("Scalar", ("KFloat",), None, [], [("PMin", G.F0, True), ("PMax", G.INF, True)], []), ("Scalar", ("KInt",), None, [], [("PMin", G.NINF, False)], [])):
            for x in (G.INF, G.NINF, G.NAN, G.F1, G.FN0, BIG, G.I(-(10 ** 400)), G.I(9), G.I(0)):
                for m in ("sync", "async"):
                    c = std_case(v, x, m, tag="c:number-line")
                    c.proj = "class"
                    out.append(c)
                c = std_case(("ListV", v, [], [], None), ("VList", [x, G.I(3)]), "sync", tag="c:number-line")
                c.proj = "class"
                out.append(c)
        # uniqueness over items that look hashable and are not (a tuple holding a list / a dict / a set), next to plain
        # unhashable and hashable ones
        T_L, T_D, T_S = ("VTuple", [("VList", [G.I(1)])]), ("VTuple", [("VDict", [])]), ("VTuple", [G.I(1), ("VSet", [G.I(2)])])
        for items in ([T_L, T_L], [T_L, T_D], [T_D, G.I(1), T_D], [T_S, ("VTuple", [G.I(1)])], [("VList", [G.I(1)]), T_L], [G.I(1), T_L, G.I(1)],
                      [("VTuple", [("VTuple", [("VList", [])])])], [T_L]):
            for v in (("ListV", ("AlwaysValid",), [("PUniqueItems",)], [], None), ("UTupleV", ("AlwaysValid",), [("PUniqueItems",)], [], Some(("CoTupleOrList",))),
                      ("ListV", ("ListV", ("AlwaysValid",), [("PUniqueItems",)], [], None), [], [], None)):
                x = ("VList", items) if v[1][0] != "ListV" else ("VList", [("VList", items)])
                for m in ("sync", "async"):
                    c = std_case(v, x, m, tag="c:unique-unhashable")
                    c.proj = "class"
                    out.append(c)
        # every text of the parse pool against every scalar kind whose default coercer reads text
        for kind in ("KDecimal", "KUuid", "KDate", "KDatetime"):
            v = ("Scalar", (kind,), Some((G.DEFAULT_CO[kind],)), [], [], [])
            for x in G.PARSE_STRS:
                c = std_case(v, x, "sync" if len(out) % 2 else "async", tag="c:parse-texts")
                c.proj = "class"
                out.append(c)
                c = std_case(("ListV", v, [], [], None), ("VList", [x]), "sync", tag="c:parse-texts")
                c.proj = "class"
                out.append(c)
        # every typed predicate of every kind, with and without the default coercer, against the
        # values that resemble the kind's own (subclass instances, other numeric types, parseable text)
        look = [G.TRUE, G.I(1), G.F1, G.D1, G.S("a"), G.S("1.5"), G.B(b"a"), G.DATE1, G.DT1, G.DTA, G.UUID1,
                G.INTSUB, G.STRSUB, G.NONE, G.S("2020-01-02"), G.S("2020-01-02T03:04:05"), G.DNAN]
        for kind in G.KINDS:
            cos = [None] + ([Some((G.DEFAULT_CO[kind],))] if kind in G.DEFAULT_CO else [])
            for co in cos:
                for p in G.typed_preds(kind, rng):
                    if kind in ("KDecimal", "KDatetime") and p[0] in ("PMin", "PMax", "PEqualTo", "PMultipleOf", "PChoices"):
                        continue        # the recorded Decimal / datetime findings; their witnesses run separately
                    for x in look:
                        c = std_case(("Scalar", (kind,), co, [], [p], []), x, rng.choice(["sync", "async"]), tag="c:lookalike")
                        c.proj = "class"
                        out.append(c)
        # equality validators with processors written for the match's type, against values of every other type
        for mt, pre in ((G.S("ok"), [("Strip",)]), (G.S("OK"), [("Upper",), ("Strip",)]), (G.B(b"ok"), [("Lower",)]),
                        (G.I(2), [("ProcUser", N(1))]), (G.S("a"), [("ProcUser", N(2))])):
            for x in look + [G.OBJ, ("VList", [G.S("ok")]), G.S(" ok "), G.B(b"OK")]:
                for wrapv in (lambda z: z, lambda z: ("ListV", z, [], [], None), lambda z: ("UnionV", [z, ("NoneV", None)])):
                    v = wrapv(("EqualsV", mt, pre))
                    c = std_case(v, ("VList", [x]) if v[0] == "ListV" else x, rng.choice(["sync", "async"]), tag="c:equals-pre")
                    c.proj = "class"
                    out.append(c)
        # list validators whose own predicates pass while an item fails (and the reverse)
        for ps in ([("PMinItems", 1)], [("PMaxItems", 3), ("PUniqueItems",)], []):
            for xs in ([G.I(1), G.S("x")], [G.S("x")], [G.I(1), G.I(1)], [], [G.I(1), G.NONE, G.I(2), G.F1]):
                for kind, shape in (("ListV", "VList"), ("UTupleV", "VTuple"), ("SetV", "VSet")):
                    v = (kind, ("Scalar", ("KInt",), None, [], [], []), ps, [], None)
                    items = G.dedupe_hashable(xs) if kind == "SetV" else xs
                    for m in ("sync", "async"):
                        c = std_case(v, (shape, items), m, tag="c:preds-pass-item-fails")
                        c.proj = "class"
                        out.append(c)
        # container predicates over hostile element lists (unhashables hidden inside hashable-looking items)
        for _ in range(150 if tier == "quick" else 2000):
            xs = [rng.choice(G.HOSTILE) for _ in range(rng.choice([0, 1, 2, 3, 4]))]
            if rng.random() < 0.5 and xs:
                xs.append(rng.choice(xs))
            ps = [rng.choice(G.coll_preds(rng)) for _ in range(rng.choice([1, 2]))]
            kind = rng.choice(["ListV", "UTupleV"])
            v = (kind, ("AlwaysValid",), ps, [], Some(("CoTupleOrList",)) if kind == "UTupleV" else None)
            c = std_case(v, ("VList", xs), rng.choice(["sync", "async"]), tag="c:hostile-elements")
            c.proj = "class"
            out.append(c)
        # instances of record classes holding other instances / opaque objects / containers of them
        for v, x in G.instance_cases(rng):
            for m in ("sync", "async"):
                c = std_case(v, x, m, tag="c:instances")
                c.proj = "class"
                out.append(c)
    finally:
        G.WF_ONLY[0] = False
    # unions of seven and eight variants (ends of the typed constructor's argument list)
    for v_, x_ in G.wide_union_cases():
        for m_ in ("sync", "async"):
            out.append(std_case(v_, x_, m_, tag="a:wide-union"))
    return out


def classify(exc: BaseException) -> str:
    import decimal
    tb = traceback.extract_tb(exc.__traceback__)
    frames = [f for f in tb if "/koda_validate/" in f.filename]
    where = frames[-1].name if frames else "?"
    line = frames[-1].line or "" if frames else ""
    msg = str(exc)
    if isinstance(exc, decimal.InvalidOperation):
        if "%" in line:
            return "C01:InvalidOperation:decimal-multiple-of"
        return "C01:InvalidOperation:decimal-order-or-equality"
    if isinstance(exc, TypeError) and "offset-naive and offset-aware" in msg:
        return "C01:TypeError:datetime-awareness"
    if isinstance(exc, TypeError) and "Cannot hash a signaling NaN" in msg and " in self.choices" in line:
        return "C01:TypeError:decimal-snan-choices"
    return f"C01:{type(exc).__name__}:{where}"


def outside_claim(exc: BaseException) -> bool:
    """Exceptions the quantifier excludes: unhashable payloads put into a set / used as a dict key."""
    tb = traceback.extract_tb(exc.__traceback__)
    frames = [f for f in tb if "/koda_validate/" in f.filename]
    if not frames or not isinstance(exc, TypeError):
        return False
    line = frames[-1].line or ""
    msg = str(exc)
    if ("unhashable type" in msg or "Cannot hash" in msg) and (
            "return_set.add" in line or "return_dict[" in line or "success_dict[" in line):
        return True
    return False


def oracle(c: Case) -> Optional[dict]:
    if c.exc is not None:
        if type(c.exc) is AssertionError:
            if c.mode == "sync" and has_async(c.v, c.lazy):
                return None
            return {"signature": "C01:AssertionError-without-async-config",
                    "what": f"{c.mode} call raised AssertionError: {c.exc}"}
        if outside_claim(c.exc):
            return None
        return {"signature": classify(c.exc),
                "what": f"{c.mode} call raised {type(c.exc).__name__}: {c.exc}"}
    r = c.raw
    if type(r) is Valid:
        return None
    if type(r) is Invalid:
        bad = _bad_invalid(r)
        if bad:
            return {"signature": "C01:malformed-invalid", "what": bad}
        return None
    return {"signature": "C01:not-a-result", "what": f"returned {r!r}, neither Valid nor Invalid"}


def _bad_invalid(inv, depth: int = 0) -> Optional[str]:
    from koda_validate import Validator
    if type(inv) is not Invalid:
        return f"error tree holds {inv!r} where an Invalid is expected"
    if not isinstance(inv.err_type, DOCUMENTED_ERRS):
        return f"undocumented error type {type(inv.err_type).__name__}"
    if not isinstance(inv.validator, Validator):
        return f"Invalid.validator is {inv.validator!r}"
    e = inv.err_type
    kids = []
    if isinstance(e, KE.ContainerErr):
        kids = [e.child]
    elif isinstance(e, KE.KeyErrs):
        kids = list(e.keys.values())
    elif isinstance(e, KE.IndexErrs):
        kids = list(e.indexes.values())
    elif isinstance(e, KE.SetErrs):
        kids = list(e.item_errs)
    elif isinstance(e, KE.UnionErrs):
        kids = list(e.variants)
    elif isinstance(e, KE.MapErr):
        for kv in e.keys.values():
            kids += [k for k in (kv.key, kv.val) if k is not None]
    for k in kids:
        b = _bad_invalid(k, depth + 1)
        if b:
            return b
    return None


WITNESSES = {
    "decimal_nan_min": ("Scalar", ("KDecimal",), None, [], [("PMin", G.D1, False)], []),
    "decimal_inf_mod": ("Scalar", ("KDecimal",), None, [], [("PMultipleOf", G.D(False, 2, 0))], []),
    "decimal_snan_choices": ("Scalar", ("KDecimal",), None, [], [("PChoices", [G.D1])], []),
    "datetime_awareness": ("Scalar", ("KDatetime",), None, [], [("PMin", G.DT1, False)], []),
}
WITNESS_INPUT = {"decimal_nan_min": G.DNAN, "decimal_inf_mod": G.DINF, "decimal_snan_choices": G.DSNAN,
                 "datetime_awareness": G.DTA}


def probe_known(k: dict) -> bool:
    """Replay the witness of a listed finding on the implementation."""
    from ..corr import observe
    w = k.get("witness")
    if w not in WITNESSES:
        return False
    c = std_case(WITNESSES[w], WITNESS_INPUT[w], "sync")
    observe(c)
    r = oracle(c)
    return bool(r) and r["signature"] == k["signature"]


def nontrivial(c: Case) -> bool:
    return c.v[0] != "Scalar" or c.tag.startswith("c:")


def histories(tier: str, rng: random.Random):
    """Totality on a used instance: calls of both styles, in any order, on one validator object
    (wrappers that resolve or remember something on first use are the interesting ones)."""
    bad, n = [], 0
    G.WF_ONLY[0] = True
    try:
        for i in range(150 if tier == "quick" else 3000):
            lazy = [G.gen_validator(rng, rng.choice([0, 1]), allow_async=False)]
            r = rng.random()
            if r < 0.3:
                v = ("LazyV", N(0), rng.random() < 0.5)
            elif r < 0.5:
                v = (rng.choice(["ListV", "SetV"]), ("LazyV", N(0), True), [], [], None)
            elif r < 0.6:
                v = ("CacheV", ("LazyV", N(0), False))
            else:
                v = G.gen_validator(rng, rng.choice([1, 2]), allow_async=False, lazy_n=1)
            ops = []
            for _ in range(rng.choice([2, 3, 4])):
                x = G.valid_input(v, rng, lazy)
                if rng.random() < 0.25:
                    x = G.corrupt(x, rng)
                ops.append((rng.choice(["sync", "async"]), x))
            if len({m for m, _ in ops}) == 1:
                ops.append(("async" if ops[0][0] == "sync" else "sync", ops[0][1]))
            n += 1
            viol = history_violation("C01", v, lazy, ops, judge=raised)
            if viol and not any(b["signature"] == viol["signature"] for b in bad):
                bad.append(viol)
    finally:
        G.WF_ONLY[0] = False
    return bad, n


def interpreter_limits() -> Optional[dict]:
    """Values at the interpreter's own limits: ints (and digit strings) beyond the int <-> str conversion limit of
    4300 digits, strings of 100 000 characters. The validators answer them like any other int / str - no
    ValueError about digit limits, whatever route a coercer takes. (The values are described, not printed:
    printing such an int is exactly what the limit forbids.)"""
    from koda_validate import (BytesValidator, DecimalValidator, FloatValidator, IntValidator, ListValidator, MapValidator, Max,
                               MaxLength, Min, OptionalValidator, StringValidator, UnionValidator)
    big = {"10**4400": 10 ** 4400, "-(10**5000)": -(10 ** 5000), "'7' * 5000": "7" * 5000, "'x' * 100000": "x" * 100000,
           "[10**4400]": [10 ** 4400], "{'k': 10**4400}": {"k": 10 ** 4400}}
    vs = [("DecimalValidator()", DecimalValidator()), ("IntValidator(Min(0), Max(5))", IntValidator(Min(0), Max(5))), ("FloatValidator()", FloatValidator()),
          ("StringValidator(MaxLength(3))", StringValidator(MaxLength(3))), ("BytesValidator()", BytesValidator()),
          ("ListValidator(DecimalValidator())", ListValidator(DecimalValidator())), ("OptionalValidator(DecimalValidator())", OptionalValidator(DecimalValidator())),
          ("UnionValidator.untyped(StringValidator(), DecimalValidator())", UnionValidator.untyped(StringValidator(), DecimalValidator())),
          ("MapValidator(key=StringValidator(), value=DecimalValidator())", MapValidator(key=StringValidator(), value=DecimalValidator()))]
    for vname, v in vs:
        for xname, x in big.items():
            for mode in ("sync", "async"):
                try:
                    r = v(x) if mode == "sync" else drive(v.validate_async(x))
                    if not hasattr(r, "is_valid"):
                        raise TypeError("not a result")
                except Exception as e:  # noqa
                    return {"kind": "oracle", "signature": f"C01:{type(e).__name__}:interpreter-limits",
                            "what": f"{vname} ({mode}) given {xname} raised {type(e).__name__}: {str(e)[:120]}", "replay_case": {"interpreter_limits": True}}
    return None


def stray_overrides() -> Optional[dict]:
    """An `overrides` mapping may name keys the class does not declare (one mapping shared by related classes): the
    record-class validators answer every input - also one that carries such a key - with a Valid or an Invalid."""
    import dataclasses as _dc
    from typing import NamedTuple, TypedDict
    from koda_validate import DataclassValidator, IntValidator, NamedTupleValidator, StringValidator, TypedDictValidator
    NT = NamedTuple("NT", [("a", int), ("b", str)])
    DC = _dc.make_dataclass("DC", [("a", int), ("b", str)])
    TD = TypedDict("TD", {"a": int, "b": str})
    shared = {"a": IntValidator(), "zz": StringValidator(), "extra": IntValidator()}
    for V, cls in ((NamedTupleValidator, NT), (DataclassValidator, DC), (TypedDictValidator, TD)):
        for strict in (False, True):
            try:
                v = V(cls, overrides=dict(shared), fail_on_unknown_keys=strict)
            except Exception as e:  # noqa
                return {"kind": "oracle", "signature": f"C01:{type(e).__name__}:stray-overrides",
                        "what": f"{V.__name__}({cls.__name__}, overrides naming 'zz' and 'extra', which are not fields) raised {e!r} at construction",
                        "replay_case": {"stray_overrides": True}}
            for x in ({"a": 1, "b": "s", "zz": "t", "extra": 2}, {"a": 1, "b": "s", "zz": "t"}, {"a": 1, "b": "s", "zz": 5, "extra": 2}, {"a": 1, "b": "s"}, {"zz": "t"}, {"a": "no", "extra": "x"}):
                for mode in ("sync", "async"):
                    try:
                        r = v(x) if mode == "sync" else drive(v.validate_async(x))
                        if not hasattr(r, "is_valid"):
                            raise TypeError("not a result")
                    except Exception as e:  # noqa
                        return {"kind": "oracle", "signature": f"C01:{type(e).__name__}:stray-overrides",
                                "what": f"{V.__name__}({cls.__name__}, overrides naming non-fields, fail_on_unknown_keys={strict}) ({mode}) on {x!r} raised {e!r}",
                                "replay_case": {"stray_overrides": True}}
    return None


def run(tier: str, rng: random.Random, proof_ok: bool) -> dict:
    rep = run_families("C01", cases(tier, rng), rng, oracle, nontrivial)
    so = stray_overrides()
    if so:
        rep["violations"].append(so)
    il = interpreter_limits()
    if il:
        rep["violations"].append(il)
    bad, n = histories(tier, rng)
    rep["violations"] += bad
    rep["coverage"]["mixed_style_histories_on_one_instance"] = n
    return rep


def replay(path: str) -> int:
    import json
    rc = json.load(open(path)).get("replay_case")
    if isinstance(rc, dict) and rc.get("stray_overrides"):
        so = stray_overrides()
        print("property violated: " + so["what"] if so else "property holds for overrides naming non-fields")
        return 1 if so else 0
    if isinstance(rc, dict) and rc.get("interpreter_limits"):
        il = interpreter_limits()
        print("property violated: " + il["what"] if il else "property holds for values at the interpreter's limits")
        return 1 if il else 0
    r = replay_special(rc, "C01", judge=raised) if isinstance(rc, dict) else None
    return r if r is not None else generic_replay(path, oracle)
