"""C03 - collection validators check every element and report every failing position."""
from __future__ import annotations

import itertools
import random
from typing import Any, List, Optional

from koda_validate import Invalid, Valid
from koda_validate.errors import (CoercionErr, IndexErrs, MapErr, PredicateErrs, SetErrs, TypeErr)

from .. import gen as G
from .. import userlib as U
from ..build import HarnessError
from ..corr import Case, drive
from ..lang import N, P, Some
from .common import generic_replay, run_families, std_case
from .hist import overlap_violation, replay_special

ASSUMPTIONS = [
    "hashable child payloads where a set member or dict key is built (otherwise TypeError, as in Python)",
    "child validators are total (return Valid/Invalid or raise the documented assertion)",
]
from ..facts import effects as _effects  # noqa: E402
_FX = _effects.obligation("C03")
EXTRA_PROOF_FILES = [_FX[0]]
TRUSTED_EXTRA = [_FX[1]]
regenerate_facts = _FX[2]

INT = ("Scalar", ("KInt",), None, [], [], [])
INT_INC = ("UserV", N(0), False)
INT_INC_T = ("UserV", N(0), True)
STRIP = ("Scalar", ("KStr",), None, [("Strip",)], [("PNotBlank",)], [])
DEC = ("Scalar", ("KDecimal",), Some(("CoDecimal",)), [], [], [])
CHILDREN = [(INT, G.I(2), G.S("x")), (INT_INC, G.I(2), G.S("x")), (INT_INC_T, G.I(5), G.NONE),
            (STRIP, G.S(" a "), G.S("  ")), (DEC, G.S("1.5"), G.S("zz"))]


def cases(tier: str, rng: random.Random) -> List[Case]:
    out: List[Case] = []
    nmax = 5 if tier == "quick" else 8
    n_random = 500 if tier == "quick" else 10000
    # (a) every valid/invalid pattern of elements for every length 0..nmax
    for child, good, bad in CHILDREN:
        for n in range(nmax + 1):
            pats = list(itertools.product([True, False], repeat=n))
            if tier == "quick" and child is not INT and n > 3:
                pats = rng.sample(pats, 6)
            for pat in pats:
                # distinct good values so that sets keep n members
                xs = []
                for i, ok in enumerate(pat):
                    if ok:
                        g = good
                        if good[0] == "VInt":
                            g = G.I(good[1] + 2 * i)
                        elif good[0] == "VStr" and child is STRIP:
                            g = G.S(" " + "abcdefgh"[i] + " ")
                        elif child is DEC:
                            g = G.S(str(i) + ".5")
                        xs.append(g)
                    else:
                        b = bad
                        if bad[0] == "VStr":
                            b = G.S(" " * (i + 1)) if child is STRIP else G.S("x" * (i + 1))
                        elif bad[0] == "VNone" and i > 0:
                            b = G.S("n" * i)
                        xs.append(b)
                m = rng.choice(["sync", "async"])
                out.append(std_case(("ListV", child, [], [], None), ("VList", xs), m, tag="a:list"))
                out.append(std_case(("UTupleV", child, [], [], Some(("CoTupleOrList",))),
                                    (rng.choice(["VList", "VTuple"]), xs), m, tag="a:utuple"))
                out.append(std_case(("SetV", child, [], [], None), ("VSet", xs), m, tag="a:set"))
                if n <= 4:
                    out.append(std_case(("NTupleV", [child] * n, None, Some(("CoTupleOrList",))),
                                        ("VTuple", xs), m, tag="a:ntuple"))
    # maps: key valid/invalid x value valid/invalid for every pair, n <= 3
    for n in range(0, 4):
        for pat in itertools.product(range(4), repeat=n):
            kvs = []
            for i, code in enumerate(pat):
                k = G.S(" k%d " % i) if code & 1 == 0 else G.S(" " * (i + 1))
                v = G.I(i) if code & 2 == 0 else G.S("v")
                kvs.append(P(k, v))
            m = rng.choice(["sync", "async"])
            out.append(std_case(("MapV", STRIP, rng.choice([INT, INT_INC]), [], [], None), ("VDict", kvs), m, tag="a:map"))
    # (a') n-tuples with distinct validators per slot, arity mismatches, list inputs
    for n in range(0, 4):
        fields = [rng.choice([INT, STRIP, INT_INC, DEC]) for _ in range(n)]
        for ln in range(0, 5):
            for _ in range(3):
                xs = [rng.choice([G.I(1), G.S(" a "), G.S("1.5"), G.NONE, G.S("  ")]) for _ in range(ln)]
                for co in (None, Some(("CoTupleOrList",)), Some(("CoUser", N(6)))):
                    for shape in ("VTuple", "VList"):
                        out.append(std_case(("NTupleV", fields, rng.choice([None, Some(N(2))]), co),
                                            (shape, xs), rng.choice(["sync", "async"]), tag="a:ntuple-arity"))
    # (a'0) custom coercers decide also about values that already have the target type (a coercer that refuses
    # everything, one that reads ints, one that turns tuples into lists / lists into tuples)
    for co_k in (0, 2, 3, 4, 6):
        for v_ in (("UTupleV", INT, [("PMinItems", 1)], [], Some(("CoUser", N(co_k)))), ("ListV", INT, [("PMinItems", 1)], [], Some(("CoUser", N(co_k)))),
                   ("NTupleV", [INT, INT], None, Some(("CoUser", N(co_k)))), ("SetV", INT, [], [], Some(("CoUser", N(co_k))))):
            for x_ in (("VTuple", [G.I(1), G.I(2)]), ("VList", [G.I(1), G.I(2)]), ("VTuple", []), ("VList", []), ("VSet", [G.I(1)]), G.I(3), G.TRUE,
                       ("VTuple", [G.I(1), G.S("x")])):
                for m in ("sync", "async"):
                    out.append(std_case(v_, x_, m, tag="a:custom-coercer"))
    # (a'0m) a map validator's coercer decides also about plain dicts (one that refuses everything, one that reads None as {})
    for co_k in (0, 5, 4):
        v_ = ("MapV", STRIP, INT, [("PMinKeys", 1)], [], Some(("CoUser", N(co_k))))
        for x_ in (("VDict", [P(G.S(" k "), G.I(1))]), ("VDict", []), ("VDict", [P(G.S("k"), G.S("bad"))]), G.NONE, ("VList", [("VTuple", [G.S("k"), G.I(1)])]), G.I(3)):
            for m in ("sync", "async"):
                out.append(std_case(v_, x_, m, tag="a:custom-coercer"))
    # (a'+) a whole-tuple check behind payload-changing slots: it sees, and the result holds, the slots' payloads
    for fields, xs in (([STRIP, DEC], [G.S(" a "), G.S("1.5")]), ([DEC, STRIP], [G.I(2), G.S("b ")]),
                       ([("ListV", STRIP, [], [], None), INT_INC], [("VList", [G.S(" q ")]), G.I(1)]),
                       ([STRIP, DEC], [G.S("  "), G.S("1.5")]), ([STRIP, STRIP, DEC], [G.S(" a"), G.S("b "), G.S("7")])):
        for k in (0, 1, 2):
            for shape in ("VTuple", "VList"):
                for m in ("sync", "async"):
                    out.append(std_case(("NTupleV", fields, Some(N(k)), Some(("CoTupleOrList",))), (shape, xs), m, tag="a:ntuple-object"))
    # (a'') merging of equal payloads in sets and map keys
    for xs in ([G.S("a"), G.S(" a"), G.S("a ")], [G.S(" b "), G.S("b"), G.S("c")], [G.S("a")]):
        out += [std_case(("SetV", STRIP, [], [], None), ("VSet", xs), m, tag="a:merge") for m in ("sync", "async")]
        kvs = [P(x, G.I(i)) for i, x in enumerate(xs)]
        out += [std_case(("MapV", STRIP, INT, [], [], None), ("VDict", kvs), m, tag="a:merge") for m in ("sync", "async")]
    # (a3) elements that are == but of different types (1 / True / 1.0 / Decimal(1), 0 / False / 0.0):
    # every element is validated on its own, whatever was seen before it
    alike = [G.I(1), G.TRUE, G.F1, G.D1, G.I(0), G.FALSE, G.F0]
    kids = [INT, ("Scalar", ("KFloat",), None, [], [], []), ("Scalar", ("KBool",), None, [], [], []), INT_INC,
            ("Scalar", ("KDecimal",), Some(("CoDecimal",)), [], [], [])]
    seqs = list(itertools.product(alike, repeat=2)) + rng.sample(list(itertools.product(alike, repeat=3)), 40 if tier == "quick" else 343)
    for child in kids:
        for xs in seqs:
            for m in ("sync", "async"):
                out.append(std_case(("ListV", child, [], [], None), ("VList", list(xs)), m, tag="a:alike"))
            out.append(std_case(("UTupleV", child, [], [], Some(("CoTupleOrList",))), ("VTuple", list(xs)), rng.choice(["sync", "async"]), tag="a:alike"))
            if len(xs) == 2:
                out.append(std_case(("NTupleV", [child, child], None, Some(("CoTupleOrList",))), ("VTuple", list(xs)), rng.choice(["sync", "async"]), tag="a:alike"))
                out.append(std_case(("MapV", child, child, [], [], None), ("VDict", [P(xs[0], xs[1])]), rng.choice(["sync", "async"]), tag="a:alike"))
    # container-level failures with logging children
    for v in [("ListV", INT_INC, [("PMinItems", 3)], [], None),
              ("SetV", INT_INC_T, [("PMaxItems", 0)], [], None),
              ("UTupleV", INT_INC, [("PExactItemCount", 5), ("PUniqueItems",)], [("APred", N(1))], Some(("CoTupleOrList",))),
              ("MapV", INT_INC, INT_INC_T, [("PMinKeys", 2)], [], None),
              ("NTupleV", [INT_INC, INT_INC_T], None, Some(("CoTupleOrList",)))]:
        for x in [("VList", [G.I(1)]), ("VSet", [G.I(1)]), ("VTuple", [G.I(1)]), ("VDict", [P(G.I(1), G.I(2))]),
                  G.I(3), ("VList", [G.I(1), G.I(1), G.I(2), G.I(3), G.I(4)]), ("VTuple", [G.I(1), G.I(2), G.I(3)])]:
            out += [std_case(v, x, m, tag="a:container-first") for m in ("sync", "async")]
    # container predicates see the *coerced* container (a coercer may change its size or kind)
    for ps in ([("PMinKeys", 1)], [("PMaxKeys", 0)], [("PMinKeys", 0)], [("PMaxKeys", 1), ("PMinKeys", 1)]):
        for aps in ([], [("APred", N(2))]):
            v = ("MapV", STRIP, INT, ps, aps, Some(("CoUser", N(5))))
            for x in (G.NONE, ("VDict", []), ("VDict", [P(G.S("a"), G.I(1))]), ("VDict", [P(G.S("a"), G.I(1)), P(G.S("b"), G.I(2))]), G.I(3)):
                out += [std_case(v, x, m, tag="a:coerced-container") for m in ("sync", "async")]
    for ps in ([("PMinItems", 1)], [("PMaxItems", 1)], [("PUniqueItems",)]):
        for v in (("ListV", INT, ps, [], Some(("CoUser", N(3)))), ("UTupleV", INT, ps, [], Some(("CoUser", N(6)))),
                  ("UTupleV", INT, ps, [], Some(("CoTupleOrList",)))):
            for x in (("VTuple", []), ("VTuple", [G.I(1), G.I(1)]), ("VList", [G.I(1)]), ("VList", [G.I(1), G.I(2)]), G.NONE):
                out += [std_case(v, x, m, tag="a:coerced-container") for m in ("sync", "async")]
    for ps in ([("PEqualTo", ("VTuple", [G.I(1), G.I(2)]))], [("PChoices", [("VTuple", [G.I(1), G.I(2)])])]):
        for v in (("UTupleV", INT, ps, [], Some(("CoTupleOrList",))), ("UTupleV", INT, ps, [], Some(("CoUser", N(6))))):
            for x in (("VList", [G.I(1), G.I(2)]), ("VTuple", [G.I(1), G.I(2)]), ("VList", [G.I(2)]), ("VTuple", [])):
                out += [std_case(v, x, m, tag="a:coerced-container") for m in ("sync", "async")]
    # (b) random collection trees
    for _ in range(n_random):
        depth = rng.choice([1, 1, 2])
        v = None
        while v is None or v[0] not in ("ListV", "SetV", "UTupleV", "NTupleV", "MapV"):
            v = G.gen_validator(rng, depth)
        x = G.valid_input(v, rng, [])
        r = rng.random()
        tag = "b:valid"
        if r < 0.35:
            x, tag = G.corrupt(x, rng), "b:corrupt"
        elif r < 0.45:
            x, tag = rng.choice(G.HOSTILE), "c:hostile"
        for m in ("sync", "async"):
            out.append(std_case(v, x, m, tag=tag))
    # (d) collections that contain themselves (through Lazy): the same validator object is active
    # at several depths of one call, and every level reports its own positions
    out += recursive_cases(tier, rng)
    # sets over wrapped / user-written / transforming item validators
    STRP_ = ("Scalar", ("KStr",), None, [("Strip",)], [("PNotBlank",), ("PMaxLength", 2)], [])
    for v_, x_ in G.set_children_cases():
        for m_ in ("sync", "async"):
            out.append(std_case(v_, x_, m_, lazy=[STRP_], tag="a:set-children"))
    return out


LZ = ("LazyV", N(0), True)
STRV = ("Scalar", ("KStr",), None, [], [], [])
REC_DEFS = {
    "utuple": [("UTupleV", ("UnionV", [INT, LZ]), [], [], Some(("CoTupleOrList",)))],
    "utuple-plain": [("UTupleV", ("UnionV", [INT_INC, LZ]), [("PMaxItems", 4)], [], None)],
    "list": [("ListV", ("UnionV", [INT, LZ]), [("PMaxItems", 4)], [], None)],
    "map": [("MapV", STRIP, ("UnionV", [INT, LZ]), [], [], None)],
    "ntuple": [("NTupleV", [INT, ("OptionalV", ("NoneV", None), LZ)], None, Some(("CoTupleOrList",)))],
}


def _rec_data(kind: str, rng: random.Random, depth: int):
    bad = lambda: rng.choice([G.S("bad"), G.NONE, G.F1])
    leaf = lambda: bad() if rng.random() < 0.25 else G.I(rng.randrange(9))
    if kind == "ntuple":
        tail = G.NONE if depth <= 0 or rng.random() < 0.3 else _rec_data(kind, rng, depth - 1)
        if rng.random() < 0.1:
            return ("VTuple", [leaf()])
        return (rng.choice(["VTuple", "VList"]), [leaf(), tail])
    n = rng.choice([0, 1, 2, 3, 3, 5])
    items = [(_rec_data(kind, rng, depth - 1) if depth > 0 and rng.random() < 0.45 else leaf()) for _ in range(n)]
    if kind == "map":
        return ("VDict", [P(G.S(" k%d " % i if rng.random() < 0.8 else "  "), it) for i, it in enumerate(items)])
    if kind == "list":
        return ("VList", items)
    if kind == "utuple-plain":
        return ("VTuple", items)
    return (rng.choice(["VTuple", "VTuple", "VList"]), items)


def recursive_cases(tier: str, rng: random.Random) -> List[Case]:
    out = []
    for kind, lazy in REC_DEFS.items():
        for _ in range(40 if tier == "quick" else 1500):
            d = rng.choice([1, 2, 2, 3])
            x = _rec_data(kind.split("-")[0] if kind != "utuple-plain" else kind, rng, d)
            for m in ("sync", "async"):
                out.append(std_case(LZ, x, m, lazy=lazy, tag="d:recursive", fuel=12 * d + 30))
    return out


AINT = ("Scalar", ("KInt",), None, [], [], [("APred", N(2))])
OVERLAP = [
    (("ListV", AINT, [("PMinItems", 1)], [("APred", N(3))], None),
     [("VList", [G.I(2), G.I(4)]), ("VList", [G.I(3), G.I(-1), G.I(2)]), ("VList", []), ("VList", [G.I(2), G.S("x")])]),
    (("UTupleV", AINT, [], [], Some(("CoTupleOrList",))),
     [("VTuple", [G.I(2), G.I(4)]), ("VTuple", [G.I(3), G.I(6), G.I(5)]), ("VList", [G.I(1)])]),
    (("SetV", AINT, [], [("APred", N(0))], None), [("VSet", [G.I(2)]), ("VSet", [G.I(3), G.I(4)]), ("VSet", [G.I(5)])]),
    (("NTupleV", [AINT, AINT], None, Some(("CoTupleOrList",))),
     [("VList", [G.I(2), G.I(4)]), ("VTuple", [G.I(3), G.I(2)]), ("VTuple", [G.I(2), G.I(5)])]),
    (("MapV", AINT, AINT, [("PMaxKeys", 2)], [], None),
     [("VDict", [P(G.I(2), G.I(4))]), ("VDict", [P(G.I(1), G.I(2)), P(G.I(4), G.I(3))]), ("VDict", [])]),
]


def overlaps(tier: str, rng: random.Random):
    """Each of several calls suspended inside one collection validator object gets its own positions."""
    bad, n_sets, n_sched = [], 0, 0
    for vt, alpha in OVERLAP:
        for k in (2, 3):
            for xts in itertools.product(alpha, repeat=k):
                if k == 3 and rng.random() < (0.85 if tier == "quick" else 0.0):
                    continue
                n_sets += 1
                v, c = overlap_violation("C03", vt, [], list(xts), 300 if tier == "quick" else 2500)
                n_sched += c
                if v and not bad:
                    bad.append(v)
    return bad, n_sets, n_sched


def _call(child: Any, mode: str, x: Any) -> Any:
    return child(x) if mode == "sync" else drive(child.validate_async(x))


def oracle(c: Case) -> Optional[dict]:
    """The collection's result recomputed from per-element calls of the child validator."""
    kind = c.v[0]
    if kind not in ("ListV", "SetV", "UTupleV", "NTupleV", "MapV"):
        return None
    v, x, ctx = c.vobj, c.px, c.ctx
    calls_during = list(c.calls)
    aps = getattr(v, "predicates_async", None) or []
    if c.mode == "sync" and aps:
        return None if type(c.exc) is AssertionError else {
            "signature": "C03:sync-ran-with-async-predicates", "what": "sync call returned with async predicates configured"}
    if c.exc is not None:
        return None          # exceptions: C01 / C06
    got = c.raw
    try:
        # gate
        if v.coerce:
            r = v.coerce(x)
            if not r.is_just:
                ok = type(got) is Invalid and type(got.err_type) is CoercionErr and got.value is x and got.validator is v
                return None if ok else {"signature": "C03:gate", "what": f"coercion failure not reported on the original value: {got!r}"}
            y = r.val
        else:
            want = {"ListV": list, "SetV": set, "UTupleV": tuple, "NTupleV": tuple, "MapV": dict}[kind]
            if type(x) is not want:
                ok = type(got) is Invalid and type(got.err_type) is TypeErr and got.value is x and got.validator is v
                if ok and calls_during:
                    ok = False
                return None if ok else {"signature": "C03:gate", "what": f"wrong container type not rejected with TypeErr on the original value (or elements were validated): {got!r}"}
            y = x
        # container predicates
        if kind == "NTupleV":
            fails = [] if len(y) == len(v.fields) else [v._len_predicate]
        else:
            fails = [p for p in (v.predicates or []) if not p(y)]
            if c.mode == "async":
                fails += [p for p in aps if not drive(p.validate_async(y))]
        if fails:
            ok = (type(got) is Invalid and type(got.err_type) is PredicateErrs and got.validator is v
                  and len(got.err_type.predicates) == len(fails)
                  and all(a is b for a, b in zip(got.err_type.predicates, fails)))
            if ok and calls_during:
                return {"signature": "C03:container-first",
                        "what": f"container-level failure but child validators were called: {calls_during}"}
            return None if ok else {"signature": "C03:container-preds",
                                    "what": f"expected PredicateErrs({fails!r}) before any element, got {got!r}"}
        # elements
        U.reset_logs()
        if kind == "MapV":
            exp_errs, payload = {}, {}
            for k, val in y.items():
                kr = _call(v.key_validator, c.mode, k)
                vr = _call(v.value_validator, c.mode, val)
                if kr.is_valid and vr.is_valid:
                    payload[kr.val] = vr.val
                else:
                    exp_errs[k] = (None if kr.is_valid else kr, None if vr.is_valid else vr)
            if exp_errs:
                ok = type(got) is Invalid and type(got.err_type) is MapErr and got.validator is v and \
                    list(got.err_type.keys) == list(exp_errs)
                if ok:
                    for k, (ke, ve) in exp_errs.items():
                        g = got.err_type.keys[k]
                        ok = ok and _inv_eq(ctx, g.key, ke) and _inv_eq(ctx, g.val, ve)
                return None if ok else {"signature": "C03:map-errs", "what": f"expected MapErr for keys {list(exp_errs)!r}, got {got!r}"}
            ok = type(got) is Valid and type(got.val) is dict and _same(ctx, got.val, payload) and got.val is not x
            return None if ok else {"signature": "C03:map-payload", "what": f"expected Valid({payload!r}) built from child payloads, got {got!r}"}
        if kind == "NTupleV":
            pairs = list(zip(v.fields, y))
        else:
            pairs = [(v.item_validator, it) for it in y]
        rs = [_call(ch, c.mode, it) for ch, it in pairs]
        bad = [(i, r) for i, r in enumerate(rs) if not r.is_valid]
        if bad:
            if kind == "SetV":
                ok = type(got) is Invalid and type(got.err_type) is SetErrs and got.validator is v and \
                    len(got.err_type.item_errs) == len(bad) and \
                    all(_inv_eq(ctx, a, b[1]) for a, b in zip(got.err_type.item_errs, bad))
            else:
                ok = type(got) is Invalid and type(got.err_type) is IndexErrs and got.validator is v and \
                    list(got.err_type.indexes) == [i for i, _ in bad] and \
                    all(_inv_eq(ctx, got.err_type.indexes[i], r) for i, r in bad)
            return None if ok else {"signature": "C03:element-errs",
                                    "what": f"expected errors exactly at positions {[i for i, _ in bad]}, got {got!r}"}
        vals = [r.val for r in rs]
        if kind == "NTupleV" and v.validate_object is not None:
            # the whole-tuple check is about the tuple of the slots' payloads; passing, that tuple is the result
            obj = tuple(vals)
            try:
                verdict = v.validate_object(obj)
            except Exception:  # noqa
                return None
            if verdict is None:
                ok = type(got) is Valid and type(got.val) is tuple and _same(ctx, got.val, obj)
                return None if ok else {"signature": "C03:payload",
                                        "what": f"the whole-tuple check passes on the slots' payloads {obj!r}; expected Valid of them, got {got!r}"}
            ok = type(got) is Invalid and got.validator is v and _same(ctx, got.value, obj)
            return None if ok else {"signature": "C03:object-check",
                                    "what": f"the whole-tuple check rejects the slots' payloads {obj!r}; expected an Invalid about them, got {got!r}"}
        want_payload = {"ListV": list, "SetV": set, "UTupleV": tuple, "NTupleV": tuple}[kind](vals)
        ok = type(got) is Valid and type(got.val) is type(want_payload) and _same(ctx, got.val, want_payload) \
            and (got.val is not x or isinstance(x, tuple))   # immutable tuples may be shared
        return None if ok else {"signature": "C03:payload",
                                "what": f"expected Valid({want_payload!r}) holding the children's payloads, got {got!r}"}
    except HarnessError:
        return None
    except AssertionError as e:
        return {"signature": "C03:child-assertion-swallowed",
                "what": f"a child validator refuses to run synchronously ({e}) yet the collection returned {got!r}"}
    except TypeError:
        return None     # unhashable payloads: outside the claim


def _same(ctx, a, b) -> bool:
    from ..build import from_py
    from ..lang import freeze
    ta, tb = from_py(a, ctx.ct), from_py(b, ctx.ct)
    return freeze(_canon(ta)) == freeze(_canon(tb))


def _canon(t):
    """sort sets so that iteration order does not matter"""
    from ..build import sorted_terms
    if isinstance(t, tuple) and t and t[0] == "VSet":
        return ("VSet", sorted_terms([_canon(x) for x in t[1]]))
    if isinstance(t, tuple):
        return tuple(_canon(x) for x in t)
    if isinstance(t, list):
        return [_canon(x) for x in t]
    if isinstance(t, P):
        return P(_canon(t.a), _canon(t.b))
    return t


def _inv_eq(ctx, a, b) -> bool:
    from ..lang import freeze
    if a is None or b is None:
        return a is None and b is None
    return freeze(_canon(ctx.invalid(a))) == freeze(_canon(ctx.invalid(b)))


def nontrivial(c: Case) -> bool:
    return c.obs is not None and c.obs[0] in ("OValid", "OInvalid") and not (
        c.obs[0] == "OInvalid" and c.obs[1][1][0] == "TypeErr")


def run(tier: str, rng: random.Random, proof_ok: bool) -> dict:
    rep = run_families("C03", cases(tier, rng), rng, oracle, nontrivial)
    bad, n_sets, n_sched = overlaps(tier, rng)
    rep["violations"] += bad
    rep["coverage"]["overlapping_call_sets"] = n_sets
    rep["coverage"]["schedules"] = n_sched
    return rep


def replay(path: str) -> int:
    import json
    rc = json.load(open(path)).get("replay_case")
    r = replay_special(rc, "C03") if isinstance(rc, dict) else None
    return r if r is not None else generic_replay(path, oracle)


from ..facts import attach as _attach, typechecks as _typechecks  # noqa: E402
_attach(globals(), _typechecks.obligation("C03"))
