"""Shared machinery for property modules."""
from __future__ import annotations

import collections
import json
import os
import random
from typing import Any, Callable, Dict, List, Optional

from ..build import HarnessError
from ..corr import Case, observe, run_cases
from ..gen import STD_CLASSES, term_height
from ..lang import coq, freeze, from_json, to_json, size

ROOT = os.path.dirname(os.path.dirname(os.path.dirname(os.path.abspath(__file__))))


def both_modes(v, x, **kw) -> List[Case]:
    return [Case(v, x, "sync", **kw), Case(v, x, "async", **kw)]


def std_case(v, x, mode, lazy=None, tag="", fuel=None) -> Case:
    lazy = lazy or []
    if fuel is None:
        fuel = 2 * (term_height(v) + term_height(x) + sum(term_height(l) for l in lazy)) + 8
        fuel = min(fuel, 400)
    return Case(v, x, mode, classes=STD_CLASSES, lazy=lazy, fuel=fuel, tag=tag)


def outcome_class(obs) -> str:
    if obs is None:
        return "none"
    if obs[0] == "OInvalid":
        return "Invalid:" + obs[1][1][0]
    if obs[0] == "ORaise":
        return "Raise:" + obs[1][0]
    return obs[0][1:]


def case_from_json(j: dict) -> Case:
    classes = [{**d, "fields": [(f[0], None, from_json(f[2]) if f[2] is not None else None, f[3])
                                for f in d.get("fields", [])]} for d in j.get("classes", [])]
    c = Case(from_json(j["v"]), from_json(j["x"]), j["mode"], classes=classes,
             lazy=from_json(j.get("lazy", [])), fuel=j.get("fuel", 40), tag=j.get("tag", ""))
    c.extra = {k: from_json(v) for k, v in j.get("extra", {}).items()}
    return c


def shrink_case(case: Case, fails: Callable[[Case], bool], budget: int = 60) -> Case:
    """Greedy shrinking of the input value (drop elements / replace by simpler)."""
    best = case

    def candidates(x):
        c = x[0]
        if c in ("VList", "VTuple", "VSet") and x[1]:
            for i in range(len(x[1])):
                yield (c, x[1][:i] + x[1][i + 1:])
        if c == "VDict" and x[1]:
            for i in range(len(x[1])):
                yield (c, x[1][:i] + x[1][i + 1:])

    n = 0
    progress = True
    while progress and n < budget:
        progress = False
        for cand in candidates(best.x):
            n += 1
            c2 = Case(best.v, cand, best.mode, classes=best.classes, lazy=best.lazy, fuel=best.fuel, tag=best.tag)
            c2.extra = getattr(best, "extra", {})
            try:
                observe(c2)
                if fails(c2):
                    best = c2
                    progress = True
                    break
            except Exception:
                pass
            if n >= budget:
                break
    return best


def run_families(name: str, cases: List[Case], rng: random.Random,
                 oracle: Optional[Callable[[Case], Optional[dict]]],
                 nontrivial: Optional[Callable[[Case], bool]] = None,
                 jobs: int = 16, per_file: int = 250) -> dict:
    """Correspondence + direct oracle over the cases; returns violations + coverage."""
    rep = run_cases(name, cases, rng=rng, jobs=jobs, per_file=per_file)
    good: List[Case] = rep["cases"]
    violations: List[dict] = []
    oracle_fail: Dict[int, dict] = {}
    oracle_errors: List[str] = []
    if oracle is not None:
        for c in good:
            try:
                try:
                    r = oracle(c)
                except RecursionError:
                    # deep data: the oracle's own bookkeeping (terms of whole result trees) needs more frames than the
                    # validation it judges; once more with room for it
                    import sys
                    lim = sys.getrecursionlimit()
                    sys.setrecursionlimit(max(lim, 12000))
                    try:
                        r = oracle(c)
                    finally:
                        sys.setrecursionlimit(lim)
            except HarnessError:
                r = None
            except Exception as e:  # an oracle bug must never pass silently
                import traceback
                oracle_errors.append(f"{type(e).__name__}: {e} @ {traceback.format_exc(limit=3)[-300:]}")
                r = None
            if r:
                oracle_fail[id(c)] = r
    seen_sig = set()
    for c in good:
        r = oracle_fail.get(id(c))
        if not r:
            continue
        sig = r.get("signature")
        if sig in seen_sig:
            continue
        seen_sig.add(sig)
        small = c
        if oracle is not None:
            try:
                small = shrink_case(c, lambda k: bool(oracle(k)) and (oracle(k) or {}).get("signature") == sig)
            except Exception:
                small = c
        violations.append({"kind": "oracle", "signature": sig, "what": r["what"],
                           "replay_case": small.to_json(), "observed": coq(small.obs) if small.obs else None})
    mism_reported = 0
    attributed_c01 = 0
    for c, model in rep["mismatches"]:
        if id(c) in oracle_fail:
            continue
        # decimal.InvalidOperation out of a comparison that meets a signalling NaN / an over-large Decimal is the recorded
        # finding of C01 (the call raises, so there is no result for this property to speak about); the model's `==` is
        # total, which is why the two differ. C01 itself classifies and reports it.
        import decimal as _decimal
        if name != "C01" and isinstance(getattr(c, "exc", None), _decimal.InvalidOperation):
            attributed_c01 += 1
            continue
        if mism_reported >= 3:
            break
        mism_reported += 1
        violations.append({"kind": "correspondence",
                           "what": f"correspondence family '{name}' no longer checks: model and implementation differ on case tag={c.tag} mode={c.mode}",
                           "signature": None,
                           "case": c.to_json(), "model_outcome": model, "observed_outcome": coq(c.obs)})
    for path, err in rep["coq_errors"][:2]:
        violations.append({"kind": "correspondence", "signature": None,
                           "what": f"correspondence file {os.path.basename(path)} failed to evaluate", "log": err[-1500:]})
    # the builder compares the key set of a record-class validator it built with the fields the class declares (that
    # is what the term lists): a difference is the implementation's schema derivation, not a harness problem
    for c_, msg_ in rep["harness_errors"]:
        if "ClassV key mismatch" in msg_:
            violations.append({"kind": "oracle", "signature": f"{name}:record-class-keys",
                               "what": "the validator built for a record class does not have the class's fields as its keys: " + msg_[:300],
                               "replay_case": c_.to_json()})
            break
    nhe = len(rep["harness_errors"])
    if nhe > max(5, len(cases) // 10):
        c, msg = rep["harness_errors"][0]
        violations.append({"kind": "correspondence", "signature": None,
                           "what": f"harness could not represent {nhe} of {len(cases)} cases, first: {msg}",
                           "case": c.to_json()})
    if oracle_errors:
        # an oracle that cannot judge a case judges nothing: never quietly
        violations.append({"kind": "correspondence", "signature": None,
                           "what": f"the direct oracle of {name} raised on {len(oracle_errors)} of {len(good)} cases, first: {oracle_errors[0]}"})
    # coverage statistics
    dist = collections.Counter(outcome_class(c.obs) for c in good)
    kinds = collections.Counter(c.v[0] for c in good)
    modes = collections.Counter(c.mode for c in good)
    tags = collections.Counter(c.tag.split(":")[0] for c in good)
    distinct = set()
    for c in good:
        if nontrivial is None or nontrivial(c):
            distinct.add((freeze(c.v), freeze(c.x_seen), c.mode))
    samples = []
    for c in good[:: max(1, len(good) // 4)][:4]:
        samples.append({"validator": coq(c.v)[:400], "input": coq(c.x_seen)[:200], "mode": c.mode,
                        "observed": coq(c.obs)[:300]})
    coverage = {
        "evaluations": len(good),
        "distinct_nontrivial": len(distinct),
        "rule": "distinct (validator tree, input, mode) triples" + (" meeting the family's non-triviality rule" if nontrivial else ""),
        "samples": samples,
        "traces_validated_against_impl": len(good),
        "mismatches": len(rep["mismatches"]) - attributed_c01,
        "raised_InvalidOperation_attributed_to_the_C01_finding": attributed_c01,
        "harness_errors": nhe,
        "oracle_errors": len(oracle_errors),
        "oracle_error_first": oracle_errors[:1],
        "outcome_distribution": dict(dist),
        "validator_kinds": dict(kinds),
        "modes": dict(modes),
        "streams": dict(tags),
        "async_checks_evaluated": sum(c.async_checks for c in good),
        "mean_tree_size": round(sum(size(c.v) for c in good) / max(1, len(good)), 1),
        "corr_wall_s": round(rep["wall_s"], 1),
    }
    return {"violations": violations, "coverage": coverage, "cases": good, "mismatches": rep["mismatches"]}


def merge_reports(reports: List[dict]) -> dict:
    out = {"violations": [], "coverage": {}}
    cov: dict = {}
    for r in reports:
        out["violations"] += r["violations"]
        for k, v in r["coverage"].items():
            if isinstance(v, (int, float)) and not isinstance(v, bool):
                cov[k] = cov.get(k, 0) + v
            elif isinstance(v, dict):
                d = cov.setdefault(k, {})
                for kk, vv in v.items():
                    d[kk] = d.get(kk, 0) + vv
            elif isinstance(v, list):
                cov.setdefault(k, [])
                cov[k] += v
            else:
                cov.setdefault(k, v)
    out["coverage"] = cov
    return out


def generic_replay(path: str, oracle: Callable[[Case], Optional[dict]]) -> int:
    j = json.load(open(path))
    cj = j.get("replay_case") or j.get("case")
    if cj is None:
        print(f"replay file names a broken obligation, no input: {j.get('what')}")
        return 1
    c = case_from_json(cj)
    try:
        observe(c)
    except HarnessError as e:
        if "ClassV key mismatch" in str(e):
            print("property violated: the validator built for a record class does not have the class's fields as its keys:", e)
            return 1
        raise
    r = oracle(c)
    print("observed:", coq(c.obs))
    if r:
        print("property violated on this input:", r["what"])
        return 1
    print("property holds on this input")
    return 0
