"""C08 - validate_signature: the body runs iff every checked argument is valid."""
from __future__ import annotations

import json
import os
import random
import time
from typing import Any, Dict, List, Optional

import koda_validate.signature as SG
from koda_validate import Valid

from ..build import HarnessError
from ..lang import coq, freeze
from . import sigcommon as SC
from .C10 import compare_lines

ASSUMPTIONS = [
    "calls are legal for the signature (inspect.Signature.bind accepts them); keyword names are distinct",
    "the decorated function is arbitrary: in the model a function of what the wrapper passes on (value or exception), on the implementation a recorder with the generated __signature__",
    "parameter validators are arbitrary validator trees (annotation via Annotated[Any, v], or override); validators that themselves raise are outside the iff (the wrapper propagates the exception) and are compared in the correspondence only",
]


ROOT = os.path.dirname(os.path.dirname(os.path.dirname(os.path.abspath(__file__))))
from ..rundir import GEN as _GEN  # noqa: E402
EXTRA_PROOF_FILES = ["generated/Facts_effects_C08.v"]
TRUSTED_EXTRA = ["fact translator harness/facts/effects.py (python ast) regenerates coq/generated/Facts_effects_C08.v from /repo on every run: the wrappers write no state that outlives one call (closure variables, the decorated function, the tables)"]


def regenerate_facts():
    from ..facts import effects
    try:
        d = effects.emit(os.environ.get("KV_REPO", "/repo"), os.path.join(_GEN, "Facts_effects_C08.v"))
        if d["bad"]:
            return True, "stores to state shared between calls: " + "; ".join(effects.key(w) for w in d["bad"][:4])
        return True, ""
    except Exception as e:
        return False, f"effects extractor failed: {e}"


def oracle(c: SC.SigCase) -> Optional[dict]:
    sp = SC.spec(c)
    if sp["abort"]:
        return None
    e = c.exc
    if sp["failing"]:
        if c.ran:
            return {"signature": "C08:body-ran-with-invalid-argument",
                    "what": f"the body ran although {sp['failing']} failed validation"}
        if type(e) is not SG.InvalidArgsError:
            return {"signature": "C08:no-args-error", "what": f"arguments {sp['failing']} are invalid but the call ended with {e!r}"}
        if list(e.errs) != sp["failing"] and sorted(e.errs) != sorted(sp["failing"]):
            return {"signature": "C08:error-keys", "what": f"error map keyed by {list(e.errs)}, failing parameters are {sp['failing']}"}
        return None
    if type(e) is SG.InvalidArgsError:
        return {"signature": "C08:spurious-args-error", "what": f"every checked argument is valid but InvalidArgsError({list(e.errs)}) was raised"}
    if not c.ran:
        return {"signature": "C08:body-did-not-run", "what": f"every checked argument is valid but the body did not run ({e!r})"}
    # return handling
    if c.body[0] == "BRaise":
        if type(e) is not SC.BodyError:
            return {"signature": "C08:exception-changed", "what": f"the function raised BodyError but the caller saw {e!r}"}
        return None
    if c.ret_v is not None:
        try:
            r = SC.run_validator(c, c.ret_v, c.ret_obj)
        except BaseException:  # noqa
            return None
        if type(r) is Valid:
            if e is not None or c.result is not c.ret_obj:
                return {"signature": "C08:return-changed", "what": f"the return value is valid but the caller got {e!r} / a different object"}
        elif type(e) is not SG.InvalidReturnError:
            return {"signature": "C08:no-return-error", "what": f"the return value is rejected by its validator but the call ended with {e!r} / returned"}
        return None
    if e is not None or c.result is not c.ret_obj:
        return {"signature": "C08:return-changed", "what": f"unchecked return: the caller must get the function's own value, got {e!r}"}
    return None


def redecoration() -> Optional[dict]:
    """A decorated function is a function: decorating it again, with stricter options, checks the arguments and the
    return value under the new options too (the body runs iff every layer accepts)."""
    from koda_validate import IntValidator, Min, StringValidator
    from koda_validate.signature import RETURN_OVERRIDE_KEY, InvalidArgsError, InvalidReturnError, validate_signature
    from ..corr import drive
    for is_async in (False, True):
        ran: list = []
        if is_async:
            async def f(a: int, *rest: int, **kw: int) -> int:
                ran.append(a)
                return a
        else:
            def f(a: int, *rest: int, **kw: int) -> int:  # type: ignore[misc]
                ran.append(a)
                return a
        f.__annotations__ = {"a": int, "rest": int, "kw": int, "return": int}   # real types (this module defers annotations)
        w1 = validate_signature(f)
        plans = [("a stricter override for a parameter", {"overrides": {"a": IntValidator(Min(10))}}, (5,), {}, InvalidArgsError),
                 ("an override for **kwargs entries", {"overrides": {"kw": IntValidator(Min(10))}}, (50,), {"z": 1}, InvalidArgsError),
                 ("an override for *args items", {"overrides": {"rest": IntValidator(Min(10))}}, (50, 1), {}, InvalidArgsError),
                 ("a stricter override for the return value", {"overrides": {RETURN_OVERRIDE_KEY: IntValidator(Min(100))}}, (50,), {}, InvalidReturnError),
                 ("an override of another type", {"overrides": {"a": StringValidator()}}, (5,), {}, InvalidArgsError),
                 ("no new option", {}, ("x",), {}, InvalidArgsError),
                 ("a stricter override, satisfied", {"overrides": {"a": IntValidator(Min(10))}}, (50,), {}, None)]
        for label, opts, args, kwargs, want in plans:
            w2 = validate_signature(w1, **opts)
            del ran[:]
            try:
                res = w2(*args, **kwargs)
                if is_async:
                    res = drive(res)
                exc = None
            except BaseException as e:  # noqa
                res, exc = None, e
            kind = "async" if is_async else "sync"
            if want is None:
                if exc is not None or res != args[0] or ran != [args[0]]:
                    return {"signature": "C08:redecoration", "what": f"{kind} function decorated twice ({label}): a call both layers accept ended with {exc!r} / returned {res!r}; body runs: {ran!r}"}
            elif type(exc) is not want or (want is InvalidArgsError and ran):
                return {"signature": "C08:redecoration",
                        "what": f"{kind} function decorated twice, the second time with {label}: f{args!r}{kwargs!r} must end with {want.__name__}"
                                f"{' before the body runs' if want is InvalidArgsError else ''}; it ended with {exc!r}, returned {res!r}, body runs: {ran!r}"}
    return None


def repeated_calls(prefix: str = "C08") -> Optional[dict]:
    """A decorated function is called many times: every call with equal arguments ends the same way - the wrapper
    keeps nothing from one call to the next (which names are ignored, which validators apply)."""
    from koda_validate.signature import InvalidArgsError, validate_signature
    from ..corr import drive
    for is_async in (False, True):
        ran: list = []
        if is_async:
            async def f(a, *rest, **extra):
                ran.append((a, rest, dict(extra)))
                return a
        else:
            def f(a, *rest, **extra):  # type: ignore[misc]
                ran.append((a, rest, dict(extra)))
                return a
        f.__annotations__ = {"a": int, "rest": int, "extra": int, "return": int}
        w = validate_signature(f, ignore_args={"skip", "a_note"})
        calls = [((1,), {"skip": "not an int"}), ((1,), {"skip": "not an int"}), ((1,), {"k": 2, "skip": "x"}), ((1,), {"skip": "x", "k": 2}),
                 ((1, 2, 3), {"a_note": None, "skip": object()}), ((1,), {"k": "bad", "skip": "x"}), ((1,), {"skip": "not an int"}), (("no",), {"skip": 1})]
        first: dict = {}
        for i, (args, kwargs) in enumerate(calls):
            del ran[:]
            try:
                r = w(*args, **kwargs)
                r = drive(r) if is_async else r
                out = ("returned", r, len(ran))
            except InvalidArgsError as e:
                out = ("rejected", tuple(sorted(e.errs)), len(ran))
            except BaseException as e:  # noqa
                out = ("raised", type(e).__name__, len(ran))
            want_reject = tuple(sorted(k for k, v in kwargs.items() if k not in ("skip", "a_note") and type(v) is not int)) + (("a",) if type(args[0]) is not int else ())
            want = ("rejected", tuple(sorted(want_reject)), 0) if want_reject else ("returned", args[0], 1)
            if out != want:
                return {"signature": f"{prefix}:repeated-calls",
                        "what": f"{'async ' if is_async else ''}f(a: int, *rest: int, **extra: int) decorated with ignore_args={{'skip', 'a_note'}}: call {i} "
                                f"f{args!r} {kwargs!r} ended as {out!r}; expected {want!r} (earlier calls: {i})"}
    return None


def none_results_and_opaque_annotations(prefix: str = "C08") -> Optional[dict]:
    """(i) A body that returns None is a body that returned: the return validator judges None like any value.
    (ii) An override replaces the annotation: where one is given, the annotation is never resolved - so annotations no
    resolver can read (a forward reference, a Callable, a TypeVar) are fine under an override."""
    import typing
    from koda_validate import IntValidator, ListValidator, StringValidator
    from koda_validate.signature import RETURN_OVERRIDE_KEY, InvalidArgsError, InvalidReturnError, validate_signature
    from ..corr import drive
    T = typing.TypeVar("T")
    for is_async in (False, True):
        for label, ret in (("int", int), ("List[int]", typing.List[int]), ("str", str)):
            if is_async:
                async def g(a):
                    return None
            else:
                def g(a):  # type: ignore[misc]
                    return None
            g.__annotations__ = {"a": int, "return": ret}
            try:
                r = validate_signature(g)(1)
                r = drive(r) if is_async else r
                exc = None
            except BaseException as e:  # noqa
                r, exc = None, e
            if type(exc) is not InvalidReturnError:
                return {"signature": f"{prefix}:none-result", "what": f"{'async ' if is_async else ''}g(a: int) -> {label} whose body returns None: expected InvalidReturnError, "
                                                                        f"ended with {exc!r} / returned {r!r}"}
        for label, ann in (("a forward reference", "NotDefinedAnywhere"), ("Callable[[int], int]", typing.Callable[[int], int]), ("a TypeVar", T),
                           ("Iterable[T]", typing.Iterable[T])):
            ran: list = []
            if is_async:
                async def h(a, b):
                    ran.append((a, b))
                    return [1]
            else:
                def h(a, b):  # type: ignore[misc]
                    ran.append((a, b))
                    return [1]
            h.__annotations__ = {"a": ann, "b": int, "return": ann}
            try:
                w = validate_signature(h, overrides={"a": StringValidator(), RETURN_OVERRIDE_KEY: ListValidator(IntValidator())})
            except BaseException as e:  # noqa
                return {"signature": f"{prefix}:override-replaces-annotation",
                        "what": f"decorating h(a: <{label}>, b: int) -> <{label}> with overrides for a and the return value raised {e!r}"}
            for args, want in ((("s", 2), None), ((5, 2), InvalidArgsError), (("s", "x"), InvalidArgsError)):
                del ran[:]
                try:
                    r = w(*args)
                    r = drive(r) if is_async else r
                    exc = None
                except BaseException as e:  # noqa
                    r, exc = None, e
                if (want is None and (exc is not None or r != [1])) or (want is not None and (type(exc) is not want or ran)):
                    return {"signature": f"{prefix}:override-replaces-annotation",
                            "what": f"h(a: <{label}>, b: int) with a StringValidator override for a, called with {args!r}: ended with {exc!r} / returned {r!r}, body runs {ran!r}"}
    return None


def ignored_parameters(prefix: str = "C08") -> Optional[dict]:
    """An ignored parameter (and an ignored return value) is not checked - so its annotation is never needed: one that
    no resolver can read (a forward reference, a Callable, a TypeVar) must not keep the function from being
    decorated, the body runs iff the *checked* arguments are valid, and the ignored argument arrives untouched."""
    import typing
    from koda_validate.signature import InvalidArgsError, validate_signature
    from ..corr import drive
    T = typing.TypeVar("T")
    anns = (("a forward reference", "NotDefinedAnywhere"), ("Callable[[int], int]", typing.Callable[[int], int]), ("a TypeVar", T))
    shapes = {"posonly": ("def f(a, /, b):", lambda w, a, b: w(a, b)),
              "poskw": ("def f(a, b):", lambda w, a, b: w(a, b)),
              "poskw-by-keyword": ("def f(a, b):", lambda w, a, b: w(b=b, a=a)),
              "varargs": ("def f(b, *a):", lambda w, a, b: w(b, a, a)),
              "kwonly": ("def f(b, *, a):", lambda w, a, b: w(b, a=a)),
              "varkw": ("def f(b, **a):", lambda w, a, b: w(b, k=a))}
    for is_async in (False, True):
        for label, ann in anns:
            for shape, (hdr, call) in shapes.items():
                ran: list = []
                ns: dict = {"ran": ran}
                exec(("async " if is_async else "") + hdr + "\n    ran.append((a, b))\n    return 1\n", ns)
                f = ns["f"]
                f.__annotations__ = {"a": ann, "b": int}
                where = f"{'async ' if is_async else ''}{hdr[:-1]} with a: <{label}>, b: int and ignore_args={{'a'}} ({shape})"
                try:
                    w = validate_signature(f, ignore_args={"a"})
                except BaseException as e:  # noqa
                    return {"signature": f"{prefix}:ignored-parameter", "what": f"decorating {where} raised {e!r}: the body can never run"}
                token = object()
                for b, want in ((2, None), ("x", InvalidArgsError)):
                    del ran[:]
                    try:
                        r = call(w, token, b)
                        r = drive(r) if is_async else r
                        exc = None
                    except BaseException as e:  # noqa
                        r, exc = None, e
                    ok = (exc is None and r == 1 and len(ran) == 1) if want is None else (type(exc) is want and not ran and set(exc.errs) == {"b"})
                    if ok and want is None:
                        got = ran[0][0]
                        ok = got is token or (shape == "varargs" and got == (token, token)) or (shape == "varkw" and got == {"k": token})
                    if not ok:
                        return {"signature": f"{prefix}:ignored-parameter",
                                "what": f"{where} called with b={b!r}: ended with {exc!r} / returned {r!r}, body runs {ran!r}"}
            # the same for the return value
            ran2: list = []
            if is_async:
                async def g(b):
                    ran2.append(b)
                    return "anything"
            else:
                def g(b):  # type: ignore[misc]
                    ran2.append(b)
                    return "anything"
            g.__annotations__ = {"b": int, "return": ann}
            try:
                w = validate_signature(g, ignore_return=True)
                r = w(3)
                r = drive(r) if is_async else r
            except BaseException as e:  # noqa
                return {"signature": f"{prefix}:ignored-parameter",
                        "what": f"{'async ' if is_async else ''}g(b: int) -> <{label}> with ignore_return=True: decorating / calling g(3) raised {e!r}"}
            if r != "anything" or ran2 != [3]:
                return {"signature": f"{prefix}:ignored-parameter", "what": f"g(b: int) -> <{label}> with ignore_return=True: g(3) returned {r!r}, body runs {ran2!r}"}
    return None


def long_names_and_values(prefix: str = "C08") -> Optional[dict]:
    """InvalidArgsError / InvalidReturnError are raised whatever the failing parameter is called and however long the
    rejected value prints: names (and **kwargs keywords) of 1 .. 300 characters, values whose repr has 0 .. 5000."""
    from koda_validate.signature import InvalidArgsError, InvalidReturnError, validate_signature
    from ..corr import drive
    for ln in (1, 2, 30, 55, 56, 57, 58, 59, 60, 61, 62, 63, 64, 100, 300):
        nm = "p" * ln
        for is_async in (False, True):
            for shape in ("poskw", "kwonly", "extra"):
                ran: list = []
                src = {"poskw": f"def f({nm}):\n    ran.append(1)\n    return 1\n",
                       "kwonly": f"def f(*, {nm}):\n    ran.append(1)\n    return 1\n",
                       "extra": "def f(**extra):\n    ran.append(1)\n    return 1\n"}[shape]
                ns: dict = {"ran": ran}
                exec(("async " if is_async else "") + src, ns)
                f = ns["f"]
                f.__annotations__ = {"extra" if shape == "extra" else nm: int}
                w = validate_signature(f)
                for bad in ("", "x", "y" * 40, "z" * 70, "w" * 5000, None, [1] * 50, {"k": "v" * 80}):
                    del ran[:]
                    try:
                        r = w(**{nm: bad})
                        r = drive(r) if is_async else r
                        exc = None
                    except BaseException as e:  # noqa
                        r, exc = None, e
                    if type(exc) is not InvalidArgsError or ran or set(exc.errs) != {nm} or not isinstance(str(exc), str):
                        return {"signature": f"{prefix}:long-names",
                                "what": f"{'async ' if is_async else ''}function with an int-annotated {shape} parameter whose name has {ln} characters, called with "
                                        f"{repr(bad)[:60]} ({len(repr(bad))} characters): expected InvalidArgsError keyed by the name before the body runs; "
                                        f"ended with {exc!r:.300}, returned {r!r}, body runs {ran!r}"}
    for is_async in (False, True):
        for ret in ("", "y" * 57, "z" * 70, "w" * 5000, [1] * 50, None):
            if is_async:
                async def g():
                    return ret
            else:
                def g():  # type: ignore[misc]
                    return ret
            g.__annotations__ = {"return": int}
            try:
                r = validate_signature(g)()
                r = drive(r) if is_async else r
                exc = None
            except BaseException as e:  # noqa
                r, exc = None, e
            if type(exc) is not InvalidReturnError or not isinstance(str(exc), str):
                return {"signature": f"{prefix}:long-names", "what": f"g() -> int returning {repr(ret)[:60]} ({len(repr(ret))} characters): expected InvalidReturnError, "
                                                                     f"ended with {exc!r:.300} / returned {r!r}"}
    return None


def body_exceptions(prefix: str = "C08") -> Optional[dict]:
    """If the body runs, what it raises is what the caller gets - the same exception object - whatever its class:
    TypeError (the class a mis-call raises), its subclasses, ValueError, KeyError, AssertionError, the library's own
    InvalidArgsError; with and without a checked return value; and an invalid argument still wins before the body."""
    from koda_validate.signature import InvalidArgsError, validate_signature
    from ..corr import drive

    class MyTypeError(TypeError):
        pass
    excs = [TypeError("unsupported operand type(s) for *: 'int' and 'NoneType'"), MyTypeError("mine"), ValueError("v"), KeyError("k"), AssertionError("a"),
            AttributeError("x"), LookupError("l"), InvalidArgsError({}), RuntimeError("r"), TypeError()]
    for is_async in (False, True):
        for with_ret in (False, True):
            for exc in excs:
                ran: list = []
                if is_async:
                    async def f(a, scale=None, *rest, **kw):
                        ran.append(a)
                        raise exc
                else:
                    def f(a, scale=None, *rest, **kw):  # type: ignore[misc]
                        ran.append(a)
                        raise exc
                f.__annotations__ = {"a": int, **({"return": int} if with_ret else {})}
                w = validate_signature(f)
                where = f"{'async ' if is_async else ''}f(a: int, scale=None, *rest, **kw){' -> int' if with_ret else ''} whose body raises {exc!r}"
                for args, kw in (((1,), {}), ((1, 2, 3), {"k": 4})):
                    del ran[:]
                    try:
                        r = w(*args, **kw)
                        r = drive(r) if is_async else r
                        got = None
                    except BaseException as e:  # noqa
                        r, got = None, e
                    if got is not exc or ran != [1]:
                        return {"signature": f"{prefix}:body-exception", "what": f"{where}, called with valid arguments {args!r} {kw!r}: the caller got {got!r} "
                                                                           f"(the body's own exception object: {got is exc}), returned {r!r}, body runs {ran!r}"}
                del ran[:]
                try:
                    r = w("not an int")
                    r = drive(r) if is_async else r
                    got = None
                except BaseException as e:  # noqa
                    got = e
                if type(got) is not InvalidArgsError or ran or set(got.errs) != {"a"}:
                    return {"signature": f"{prefix}:body-exception", "what": f"{where}, called with an invalid argument: expected InvalidArgsError for 'a' before the body, got {got!r}, body runs {ran!r}"}
    return None


def parameter_names() -> Optional[dict]:
    """Which argument is checked by which validator depends on the parameter's kind and annotation, not on its
    *name*: parameters (and **kwargs entries) called self, cls, args, kwargs, return, _ are checked like any other."""
    from koda_validate.signature import InvalidArgsError, validate_signature
    from ..corr import drive
    for nm in ("self", "cls", "args", "kwargs", "_", "return_", "func", "val", "validator"):
        for is_async in (False, True):
            for shape in ("posonly", "poskw", "kwonly", "extra"):
                ran: list = []
                src = {"posonly": f"def f({nm}, /):\n    ran.append({nm})\n    return 1\n",
                       "poskw": f"def f({nm}):\n    ran.append({nm})\n    return 1\n",
                       "kwonly": f"def f(*, {nm}):\n    ran.append({nm})\n    return 1\n",
                       "extra": "def f(**extra):\n    ran.append(extra)\n    return 1\n"}[shape]
                ns: dict = {"ran": ran}
                exec(("async " if is_async else "") + src, ns)
                f = ns["f"]
                f.__annotations__ = {"extra" if shape == "extra" else nm: int}
                w = validate_signature(f)
                for bad in ("not an int", None, 1.5):
                    del ran[:]
                    try:
                        r = w(bad) if shape in ("posonly",) else w(**{nm: bad}) if shape in ("poskw", "kwonly", "extra") else None
                        r = drive(r) if is_async else r
                        exc = None
                    except BaseException as e:  # noqa
                        r, exc = None, e
                    key = nm
                    if type(exc) is not InvalidArgsError or ran or key not in exc.errs:
                        return {"signature": "C08:parameter-name",
                                "what": f"{'async ' if is_async else ''}function with an int-annotated {shape} parameter named {nm!r} called with {bad!r}: "
                                        f"expected InvalidArgsError naming {key!r} before the body runs; ended with {exc!r}, returned {r!r}, body runs {ran!r}"}
                # and a conforming value passes
                del ran[:]
                try:
                    r = w(3) if shape == "posonly" else w(**{nm: 3})
                    r = drive(r) if is_async else r
                except BaseException as e:  # noqa
                    return {"signature": "C08:parameter-name", "what": f"parameter named {nm!r} ({shape}): a conforming call raised {e!r}"}
                if r != 1 or len(ran) != 1:
                    return {"signature": "C08:parameter-name", "what": f"parameter named {nm!r} ({shape}): a conforming call returned {r!r}, body runs {ran!r}"}
    return None


def run(tier: str, rng: random.Random, proof_ok: bool, oracle_fn=oracle, name="C08") -> dict:
    t0 = time.time()
    n = 2500 if tier == "quick" else 40000
    if not proof_ok:
        n *= 2
    cases: List[SC.SigCase] = []
    while len(cases) < n:
        c = SC.gen_case(rng)
        if c is not None:
            cases.append(c)
    good, herr = [], 0
    for c in cases:
        try:
            SC.observe(c, rng)
            good.append(c)
        except HarnessError:
            herr += 1
    violations: List[dict] = []
    seen: set = set()
    flagged: set = set()
    oerr: List[str] = []
    for c in good:
        try:
            r = oracle_fn(c)
        except HarnessError:
            r = None
        except Exception as e:  # noqa
            import traceback
            oerr.append(traceback.format_exc()[-400:])
            r = None
        if r:
            flagged.add(id(c))
            if r["signature"] not in seen:
                seen.add(r["signature"])
                violations.append({"kind": "oracle", "signature": r["signature"], "what": r["what"], "replay_case": c.to_json(),
                                   "observed": coq(c.obs)[:600]})
    if oerr:
        violations.append({"kind": "correspondence", "signature": None, "what": f"the oracle itself failed on {len(oerr)} cases", "log": oerr[0]})
    if name == "C08":
        rd = redecoration()
        if rd:
            violations.append({"kind": "oracle", **rd, "replay_case": {"redecoration": True}})
        nr = none_results_and_opaque_annotations("C08")
        if nr:
            violations.append({"kind": "oracle", **nr, "replay_case": {"none_results": True}})
        rc_ = repeated_calls("C08")
        if rc_:
            violations.append({"kind": "oracle", **rc_, "replay_case": {"repeated_calls": True}})
        pn = parameter_names()
        if pn:
            violations.append({"kind": "oracle", **pn, "replay_case": {"parameter_names": True}})
        be = body_exceptions("C08")
        if be:
            violations.append({"kind": "oracle", **be, "replay_case": {"body_exceptions": True}})
        ip = ignored_parameters("C08")
        if ip:
            violations.append({"kind": "oracle", **ip, "replay_case": {"ignored_parameters": True}})
        ln_ = long_names_and_values("C08")
        if ln_:
            violations.append({"kind": "oracle", **ln_, "replay_case": {"long_names": True}})
    # overlapping calls of one decorated coroutine function
    npairs = 150 if tier == "quick" else 3000
    pairs_run = 0
    for _ in range(npairs):
        c1, c2 = SC.gen_async_varargs_pair(rng)
        try:
            r = SC.concurrent_pair(c1, c2)
            pairs_run += 1
        except HarnessError:
            continue
        if r and r["signature"] not in seen:
            seen.add(r["signature"])
            violations.append({"kind": "oracle", "signature": r["signature"], "what": r["what"],
                               "replay_case": {"pair": [c1.to_json(), c2.to_json()]}})
    # correspondence
    per = 150
    lines_by_chunk = []
    mism_total = 0
    import concurrent.futures
    from ..corr import GEN, run_coq_file
    os.makedirs(GEN, exist_ok=True)
    files = []
    for k in range(0, len(good), per):
        chunk = good[k:k + per]
        orc = SC.oracles_for(chunk)
        body = []
        for i, c in enumerate(chunk):
            lhs, rhs = SC.model_line(c)
            body.append(f"  chk_eq {i}%nat {lhs} {rhs}.\n")
        path = os.path.join(GEN, f"cases_{name}_p{os.getpid()}_{k // per}.v")
        open(path, "w").write("".join([SC.HDR, orc.coq(), "Goal True.\n"] + body + ["exact I. Qed.\n"]))
        files.append((path, chunk))
    with concurrent.futures.ThreadPoolExecutor(max_workers=16) as ex:
        results = list(ex.map(lambda fc: run_coq_file(fc[0]), files))
    shown = 0
    for (path, chunk), (status, mm, raw) in zip(files, results):
        if status != "ok":
            violations.append({"kind": "correspondence", "signature": None,
                               "what": f"correspondence file {os.path.basename(path)} failed to evaluate", "log": raw[-1500:]})
        for idx, model in mm:
            mism_total += 1
            c = chunk[idx]
            if id(c) in flagged or shown >= 3:
                continue
            shown += 1
            violations.append({"kind": "correspondence", "signature": None,
                               "what": f"correspondence family '{name}-wrap' no longer checks: the model wrapper and the implementation differ (what the body received / what the caller got)",
                               "case": c.to_json(), "model_outcome": model[:1200], "observed_outcome": coq(c.obs)[:1200]})
        if status == "ok" and not mm:
            for ext in (".v", ".vo", ".vok", ".vos", ".glob"):
                try:
                    os.remove(path[:-2] + ext)
                except OSError:
                    pass
            try:
                os.remove(os.path.join(os.path.dirname(path), "." + os.path.basename(path)[:-2] + ".aux"))
            except OSError:
                pass
    if herr > max(5, len(cases) // 4):
        violations.append({"kind": "correspondence", "signature": None, "what": f"harness could not run {herr} of {len(cases)} cases"})
    dist: Dict[str, int] = {}
    for c in good:
        k = "returned" if c.exc is None else type(c.exc).__name__
        dist[k] = dist.get(k, 0) + 1
    kinds: Dict[str, int] = {}
    for c in good:
        for p in c.deco["params"]:
            kinds[p["kind"]] = kinds.get(p["kind"], 0) + 1
    cov = {"evaluations": len(good),
           "distinct_nontrivial": len({json.dumps(c.to_json(), sort_keys=True, default=str) for c in good if c.deco["params"]}),
           "rule": "distinct (signature, decorator options, call, body behaviour) tuples with at least one parameter",
           "samples": [{"signature": str(c.sig), "call": f"args={len(c.args)} kwargs={[p.a.k for p in c.kwargs]}", "async": c.deco["is_async"],
                        "outcome": "returned" if c.exc is None else type(c.exc).__name__} for c in good[:: max(1, len(good) // 4)][:4]],
           "traces_validated_against_impl": len(good), "mismatches": mism_total, "harness_errors": herr,
           "outcome_distribution": dist, "parameter_kinds": kinds, "async_functions": sum(1 for c in good if c.deco["is_async"]),
           "body_ran": sum(1 for c in good if c.ran), "overlapping_call_pairs": pairs_run, "corr_wall_s": round(time.time() - t0, 1)}
    return {"violations": violations, "coverage": cov}


def replay(path: str, oracle_fn=oracle) -> int:
    j = json.load(open(path))
    cj = j.get("replay_case") or j.get("case")
    if not cj:
        print("replay file names a broken obligation, no input:", j.get("what"))
        return 1
    if cj.get("none_results"):
        r = none_results_and_opaque_annotations("C08")
        print("property violated: " + r["what"] if r else "property holds for None results and overridden opaque annotations")
        return 1 if r else 0
    if cj.get("repeated_calls"):
        r = repeated_calls("C08")
        print("property violated: " + r["what"] if r else "property holds for repeated calls of one decorated function")
        return 1 if r else 0
    if cj.get("parameter_names"):
        r = parameter_names()
        print("property violated: " + r["what"] if r else "property holds whatever the parameters are called")
        return 1 if r else 0
    if cj.get("body_exceptions"):
        r = body_exceptions("C08")
        print("property violated: " + r["what"] if r else "the body's own exception reaches the caller unchanged, whatever its class")
        return 1 if r else 0
    if cj.get("ignored_parameters"):
        r = ignored_parameters("C08")
        print("property violated: " + r["what"] if r else "property holds for ignored parameters with annotations no resolver reads")
        return 1 if r else 0
    if cj.get("long_names"):
        r = long_names_and_values("C08")
        print("property violated: " + r["what"] if r else "property holds for long parameter names and long values")
        return 1 if r else 0
    if cj.get("redecoration"):
        r = redecoration()
        print("property violated: " + r["what"] if r else "decorating a decorated function checks under both sets of options")
        return 1 if r else 0
    if "pair" in cj:
        r = SC.concurrent_pair(SC.sigcase_from_json(cj["pair"][0]), SC.sigcase_from_json(cj["pair"][1]))
        print("property violated on this pair of overlapping calls: " + r["what"] if r else "property holds on this pair")
        return 1 if r else 0
    c = SC.sigcase_from_json(cj)
    SC.observe(c)
    print("signature:", c.sig, "| async:", c.deco["is_async"], "| ignore:", c.deco["ignore"])
    print("call: args", c.pargs, "kwargs", c.pkwargs)
    print("body ran:", bool(c.ran), "| received:", c.rec[:1], "| result:", repr(c.result), "| exception:", repr(c.exc)[:300])
    r = oracle_fn(c)
    if r:
        print("property violated on this input:", r["what"])
        return 1
    print("property holds on this input")
    return 0
