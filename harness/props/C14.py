"""C14 - every error node names the validator that rejected and the value it examined."""
from __future__ import annotations

import random
from typing import Any, List, Optional

from koda_validate import Invalid
from koda_validate import errors as KE

from .. import gen as G
from ..build import HarnessError
from ..corr import Case
from ..lang import N, P, Some
from .common import generic_replay, run_families, std_case

ASSUMPTIONS = [
    "whole-object checks return errors without nested Invalids (obj_errs_flat); user-written validators name themselves",
    "identity is demanded at type/coercion failures and wherever the node has neither coercer nor preprocessors; not where a configured coercer happens to pass the object through",
]


def cases(tier: str, rng: random.Random) -> List[Case]:
    out: List[Case] = []
    n = 1100 if tier == "quick" else 25000
    for _ in range(n):
        lazy = [G.gen_validator(rng, rng.choice([0, 1]))]
        v = G.gen_validator(rng, rng.choice([1, 2, 2, 3]), lazy_n=1)
        x = G.valid_input(v, rng, lazy)
        r = rng.random()
        tag = "b:valid"
        if r < 0.6:
            x, tag = G.corrupt(x, rng), "b:corrupt"
        elif r < 0.75:
            x, tag = rng.choice(G.HOSTILE), "c:hostile"
        for m in ("sync", "async"):
            out.append(std_case(v, x, m, lazy=lazy, tag=tag))
    # payload-changing children under whole-object checks and wrappers (value in hand != raw input)
    STRIP = ("Scalar", ("KStr",), None, [("Strip",)], [("PNotBlank",)], [])
    DEC = ("Scalar", ("KDecimal",), Some(("CoDecimal",)), [], [], [])
    for obj in (1, 2):
        trees = [("NTupleV", [STRIP, DEC], Some(N(obj)), Some(("CoTupleOrList",))),
                 ("RecordV", [P(G.S("a"), STRIP), P(G.S("b"), ("KeyNotRequired", DEC))], N(2), Some(N(obj)), None, False),
                 ("RecordV", [P(G.S("a"), STRIP)], N(0), None, Some(N(obj)), False),
                 ("DictAnyV", [P(G.S("a"), STRIP), P(G.S("b"), DEC)], Some(N(obj)), None, False),
                 ("ClassV", ("RkData",), N(G.C_DATA), [P(G.S("a"), P(STRIP, True)), P(G.S("b"), P(DEC, False))], Some(N(obj)), None, False, None),
                 ("ClassV", ("RkTyped",), N(G.C_TYPED), [P(G.S("k"), P(STRIP, True)), P(G.S("o"), P(DEC, False))], None, Some(N(obj)), False, None)]
        for t in trees:
            for x in [("VList", [G.S(" a "), G.S("1.5")]), ("VTuple", [G.S(" a "), G.S("7")]), ("VDict", [P(G.S("a"), G.S(" a ")), P(G.S("b"), G.S("2"))]),
                      ("VDict", [P(G.S("a"), G.S(" a "))]), ("VDict", [P(G.S("k"), G.S(" q ")), P(G.S("o"), G.I(3))]), ("VDict", [P(G.S("k"), G.S(" q "))])]:
                for m in ("sync", "async"):
                    for wrap in (lambda z: z, lambda z: ("CacheV", z), lambda z: ("OptionalV", ("NoneV", None), z), lambda z: ("ListV", z, [], [], None)):
                        w = wrap(t)
                        xx = ("VList", [x]) if w[0] == "ListV" else x
                        out.append(std_case(w, xx, m, tag="a:value-in-hand"))
    # equal-but-distinct rejected values under one validator instance (1, True, 1.0, Decimal(1), ...)
    look = [G.I(1), G.TRUE, G.F1, G.D1, G.S("1"), G.I(0), G.FALSE, G.F0, G.D(False, 0, 0), G.FN0]
    simple = [("Scalar", (k,), None, [], [], []) for k in ("KStr", "KInt", "KBool", "KFloat", "KBytes")]
    import itertools
    for ch in simple:
        for a, b in itertools.permutations(look, 2):
            if rng.random() < (0.35 if tier == "quick" else 1.0):
                m = rng.choice(["sync", "async"])
                out.append(std_case(("ListV", ch, [], [], None), ("VList", [a, b, a]), m, tag="a:lookalikes"))
                out.append(std_case(("MapV", ch, ch, [], [], None), ("VDict", [P(G.S("k"), a), P(G.S("j"), b)]), m, tag="a:lookalikes"))
    return out


CHILD_ATTRS = {
    "ListValidator": lambda v: [v.item_validator], "SetValidator": lambda v: [v.item_validator],
    "UniformTupleValidator": lambda v: [v.item_validator], "NTupleValidator": lambda v: list(v.fields),
    "MapValidator": lambda v: [v.key_validator, v.value_validator],
    "RecordValidator": lambda v: [c for _, c in v.keys],
    "DictValidatorAny": lambda v: list(v.schema.values()),
    "DataclassValidator": lambda v: list(v.schema.values()), "NamedTupleValidator": lambda v: list(v.schema.values()),
    "TypedDictValidator": lambda v: list(v.schema.values()),
    "UnionValidator": lambda v: list(v.validators), "OptionalValidator": lambda v: list(v.validators),
    "MaybeValidator": lambda v: [v.validator],
}


def resolve(v: Any) -> Any:
    """Strip transparent wrappers: Lazy, cache wrappers, KeyNotRequired."""
    from koda_validate import KeyNotRequired, Lazy
    from koda_validate.base import CacheValidatorBase
    for _ in range(50):
        if isinstance(v, Lazy):
            v = v.validator()
        elif isinstance(v, (CacheValidatorBase, KeyNotRequired)):
            v = v.validator
        else:
            return v
    return v


def children_of(v: Any) -> List[Any]:
    f = CHILD_ATTRS.get(type(v).__name__)
    return [resolve(c) for c in f(v)] if f else []


def direct_children(e: Any) -> List[Any]:
    if isinstance(e, KE.ContainerErr):
        return [e.child]
    if isinstance(e, KE.KeyErrs):
        return list(e.keys.values())
    if isinstance(e, KE.IndexErrs):
        return list(e.indexes.values())
    if isinstance(e, KE.SetErrs):
        return list(e.item_errs)
    if isinstance(e, KE.UnionErrs):
        return list(e.variants)
    if isinstance(e, KE.MapErr):
        out = []
        for kv in e.keys.values():
            out += [k for k in (kv.key, kv.val) if k is not None]
        return out
    return []


def walk(v: Any, x: Any, inv: Any, path: str) -> Optional[str]:
    """node_ok, recursively, on live objects: who by identity, gate-error values by identity."""
    v = resolve(v)
    if type(inv) is not Invalid:
        return f"{path}: not an Invalid: {inv!r}"
    if inv.validator is not v:
        return f"{path}: node names {inv.validator!r} but the validator at this position is {v!r}"
    e = inv.err_type
    if isinstance(e, (KE.TypeErr, KE.CoercionErr)) and x is not _NOARG and inv.value is not x:
        return f"{path}: type/coercion failure holds {inv.value!r}, not the caller's own object {x!r}"
    kids = children_of(v)
    for i, ch in enumerate(direct_children(e)):
        if type(ch) is Invalid and isinstance(ch.err_type, KE.MissingKeyErr) and ch.validator is v:
            continue
        owner = next((k for k in kids if ch.validator is k), None)
        if owner is None:
            # an error produced deeper by a union/optional child still names that child
            return f"{path}/{i}: child error names {ch.validator!r}, which is not a child validator of {v!r}"
        r = walk(owner, _NOARG, ch, f"{path}/{i}")
        if r:
            return r
    return None


_NOARG = object()


def oracle(c: Case) -> Optional[dict]:
    if c.exc is not None or type(c.raw) is not Invalid:
        return None
    try:
        r = walk(c.vobj, c.px, c.raw, "root")
    except HarnessError:
        return None
    if r:
        kind = "who" if "names" in r else ("value" if "holds" in r else "shape")
        return {"signature": "C14:" + kind, "what": r}
    return None


def nontrivial(c: Case) -> bool:
    return c.obs is not None and c.obs[0] == "OInvalid"


def run(tier: str, rng: random.Random, proof_ok: bool) -> dict:
    return run_families("C14", cases(tier, rng), rng, oracle, nontrivial)


def replay(path: str) -> int:
    return generic_replay(path, oracle)
