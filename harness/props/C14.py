"""C14 - every error node names the validator that rejected and the value it examined."""
from __future__ import annotations

import random
from typing import Any, List, Optional

from koda_validate import Invalid
from koda_validate import errors as KE

from .. import gen as G
from ..build import HarnessError
from ..corr import Case
from ..lang import N, P, Some
from .common import generic_replay, run_families, std_case

ASSUMPTIONS = [
    "whole-object checks return errors without nested Invalids (obj_errs_flat); user-written validators name themselves",
    "identity is demanded at type/coercion failures and wherever the node has neither coercer nor preprocessors; not where a configured coercer happens to pass the object through",
]
from ..facts import effects as _effects  # noqa: E402
_FX = _effects.obligation("C14")
EXTRA_PROOF_FILES = [_FX[0]]
TRUSTED_EXTRA = [_FX[1]]
regenerate_facts = _FX[2]


def cases(tier: str, rng: random.Random) -> List[Case]:
    out: List[Case] = []
    n = 1100 if tier == "quick" else 25000
    for _ in range(n):
        lazy = [G.gen_validator(rng, rng.choice([0, 1]))]
        v = G.gen_validator(rng, rng.choice([1, 2, 2, 3]), lazy_n=1)
        x = G.valid_input(v, rng, lazy)
        r = rng.random()
        tag = "b:valid"
        if r < 0.6:
            x, tag = G.corrupt(x, rng), "b:corrupt"
        elif r < 0.75:
            x, tag = rng.choice(G.HOSTILE), "c:hostile"
        for m in ("sync", "async"):
            out.append(std_case(v, x, m, lazy=lazy, tag=tag))
    # payload-changing children under whole-object checks and wrappers (value in hand != raw input)
    STRIP = ("Scalar", ("KStr",), None, [("Strip",)], [("PNotBlank",)], [])
    DEC = ("Scalar", ("KDecimal",), Some(("CoDecimal",)), [], [], [])
    for obj in (1, 2):
        trees = [("NTupleV", [STRIP, DEC], Some(N(obj)), Some(("CoTupleOrList",))),
                 ("RecordV", [P(G.S("a"), STRIP), P(G.S("b"), ("KeyNotRequired", DEC))], N(2), Some(N(obj)), None, False),
                 ("RecordV", [P(G.S("a"), STRIP)], N(0), None, Some(N(obj)), False),
                 ("DictAnyV", [P(G.S("a"), STRIP), P(G.S("b"), DEC)], Some(N(obj)), None, False),
                 ("ClassV", ("RkData",), N(G.C_DATA), [P(G.S("a"), P(STRIP, True)), P(G.S("b"), P(DEC, False))], Some(N(obj)), None, False, None),
                 ("ClassV", ("RkTyped",), N(G.C_TYPED), [P(G.S("k"), P(STRIP, True)), P(G.S("o"), P(DEC, False))], None, Some(N(obj)), False, None)]
        for t in trees:
            for x in [("VList", [G.S(" a "), G.S("1.5")]), ("VTuple", [G.S(" a "), G.S("7")]), ("VDict", [P(G.S("a"), G.S(" a ")), P(G.S("b"), G.S("2"))]),
                      ("VDict", [P(G.S("a"), G.S(" a "))]), ("VDict", [P(G.S("k"), G.S(" q ")), P(G.S("o"), G.I(3))]), ("VDict", [P(G.S("k"), G.S(" q "))])]:
                for m in ("sync", "async"):
                    for wrap in (lambda z: z, lambda z: ("CacheV", z), lambda z: ("OptionalV", ("NoneV", None), z), lambda z: ("ListV", z, [], [], None)):
                        w = wrap(t)
                        xx = ("VList", [x]) if w[0] == "ListV" else x
                        out.append(std_case(w, xx, m, tag="a:value-in-hand"))
    # equal-but-distinct rejected values under one validator instance (1, True, 1.0, Decimal(1), ...)
    look = [G.I(1), G.TRUE, G.F1, G.D1, G.S("1"), G.I(0), G.FALSE, G.F0, G.D(False, 0, 0), G.FN0]
    simple = [("Scalar", (k,), None, [], [], []) for k in ("KStr", "KInt", "KBool", "KFloat", "KBytes")]
    import itertools
    for ch in simple:
        for a, b in itertools.permutations(look, 2):
            if rng.random() < (0.35 if tier == "quick" else 1.0):
                m = rng.choice(["sync", "async"])
                out.append(std_case(("ListV", ch, [], [], None), ("VList", [a, b, a]), m, tag="a:lookalikes"))
                out.append(std_case(("MapV", ch, ch, [], [], None), ("VDict", [P(G.S("k"), a), P(G.S("j"), b)]), m, tag="a:lookalikes"))
    # instances of record classes holding other instances / opaque objects (read field by field, never copied)
    for v, x in G.instance_cases(rng):
        for m in ("sync", "async"):
            out.append(std_case(v, x, m, tag="a:instances"))
    # maps whose key validator changes the key: a value failure is filed under the key as it occurs in the input
    STRPK = ("Scalar", ("KStr",), None, [("Strip",)], [("PNotBlank",)], [])
    DECK = ("Scalar", ("KDecimal",), Some(("CoDecimal",)), [], [], [])
    INTV_ = ("Scalar", ("KInt",), None, [], [("PMin", G.I(0), False)], [])
    for kv_, x_ in ((STRPK, ("VDict", [P(G.S(" k "), G.S("bad")), P(G.S("j"), G.I(-1))])), (STRPK, ("VDict", [P(G.S(" k "), G.I(1)), P(G.S("k"), G.I(-2))])),
                    (DECK, ("VDict", [P(G.S("1.5"), G.I(-1)), P(G.I(2), G.S("x"))])), (DECK, ("VDict", [P(G.S("1"), G.I(-1)), P(G.I(1), G.I(-1))])),
                    (STRPK, ("VDict", [P(G.S("  "), G.I(-1)), P(G.S(" a"), G.I(-1))]))):
        for m in ("sync", "async"):
            out.append(std_case(("MapV", kv_, INTV_, [], [], None), x_, m, tag="a:map-keys"))
            out.append(std_case(("ListV", ("MapV", kv_, INTV_, [], [], None), [], [], None), ("VList", [x_]), m, tag="a:map-keys"))
    # distinct but equal (and hashable) user-written validators in several slots / keys / trees: each error names its own
    U0, U4 = ("UserV", N(0), False), ("UserV", N(4), False)
    for v_, x_ in ((("NTupleV", [U0, U0, U4, U4], None, Some(("CoTupleOrList",))), ("VTuple", [G.S("a"), G.S("b"), G.I(1), G.I(2)])),
                   (("DictAnyV", [P(G.S("a"), U4), P(G.S("b"), U4), P(G.S("c"), U0)], None, None, False),
                    ("VDict", [P(G.S("a"), G.I(1)), P(G.S("b"), G.I(2)), P(G.S("c"), G.S("x"))])),
                   (("RecordV", [P(G.S("a"), U4), P(G.S("b"), U4)], N(2), None, None, False), ("VDict", [P(G.S("a"), G.I(1)), P(G.S("b"), G.I(2))])),
                   (("ListV", ("NTupleV", [U4, U4], None, Some(("CoTupleOrList",))), [], [], None), ("VList", [("VTuple", [G.I(1), G.I(2)]), ("VTuple", [G.I(3), G.I(4)])])),
                   (("ListV", U4, [], [], None), ("VList", [G.I(1), G.I(2)]))):
        for m in ("sync", "async"):
            out.append(std_case(v_, x_, m, tag="a:equal-children"))
    # equality validators with processors: a mismatch is reported about the processed value (the value the
    # comparison saw), a wrong type about the caller's own object
    for mt, pre in ((G.S("ok"), [("Strip",)]), (G.S("OK"), [("Strip",), ("Upper",)]), (G.B(b"ok"), [("Lower",)]), (G.I(2), [("ProcUser", N(1))])):
        for x in (G.S(" no "), G.S(" ok "), G.S("ok"), G.B(b"NO"), G.B(b"OK"), G.I(1), G.I(2), G.NONE, G.STRSUB):
            for wrapv, wrapx in ((lambda z: z, lambda y: y), (lambda z: ("ListV", z, [], [], None), lambda y: ("VList", [y, y])),
                                 (lambda z: ("DictAnyV", [P(G.S("k"), z)], None, None, False), lambda y: ("VDict", [P(G.S("k"), y)]))):
                for m in ("sync", "async"):
                    out.append(std_case(wrapv(("EqualsV", mt, pre)), wrapx(x), m, tag="a:equals-pre"))
    # a coercer that builds a fresh container + children that change their items: the container error still
    # holds the coerced container as it was, not one half-rewritten with payloads
    for v, x in ((("ListV", STRIP, [], [], Some(("CoUser", N(3)))), ("VTuple", [G.S(" a "), G.S(" b "), G.S(""), G.S("c")])),
                 (("UTupleV", STRIP, [], [], Some(("CoTupleOrList",))), ("VList", [G.S(" a "), G.S("  "), G.S("c ")])),
                 (("UTupleV", DEC, [], [], Some(("CoUser", N(6)))), ("VList", [G.S("1.5"), G.S("x"), G.I(2)])),
                 (("NTupleV", [STRIP, DEC, STRIP], None, Some(("CoTupleOrList",))), ("VList", [G.S(" a "), G.S("zz"), G.S(" ")]))):
        for m in ("sync", "async"):
            out.append(std_case(v, x, m, tag="a:fresh-container"))
    # mappings that are not plain dicts (the caller's own object is what the error must hold)
    INT = ("Scalar", ("KInt",), None, [], [], [])
    for t in [("RecordV", [P(G.S("a"), INT), P(G.S("b"), ("KeyNotRequired", INT))], N(2), None, None, rng.random() < 0.5),
              ("RecordV", [P(G.S("k"), INT)], N(0), None, None, True),
              ("ClassV", ("RkData",), N(G.C_DATA), [P(G.S("a"), P(INT, True)), P(G.S("b"), P(INT, False))], None, None, True, None),
              ("ClassV", ("RkTyped",), N(G.C_TYPED), [P(G.S("k"), P(INT, True)), P(G.S("o"), P(INT, False))], None, None, True, None),
              ("MapV", STRIP, INT, [("PMaxKeys", 1)], [], None), ("IsDictV",),
              ("DictAnyV", [P(G.S("k"), INT)], None, None, True)]:
        for kv in ([P(G.S("k"), G.I(1))], [P(G.S("a"), G.S("no"))], [P(G.S("zz"), G.I(1))], [], [P(G.S("a"), G.I(1)), P(G.S("q"), G.I(2))]):
            for x in (("VSub", N(G.C_DICT), ("VDict", kv)), ("VDict", kv)):
                for m in ("sync", "async"):
                    out.append(std_case(t, x, m, tag="a:mapping-subclass"))
                    out.append(std_case(("ListV", t, [], [], None), ("VList", [x, x]), m, tag="a:mapping-subclass"))
    # elements whose checks take different times (an element's error belongs at the element's position)
    AINT = ("Scalar", ("KInt",), None, [], [], [("APred", N(2))])
    for _ in range(40 if tier == "quick" else 600):
        xs = [rng.choice([G.I(0), G.I(1), G.I(2), G.I(3), G.S("x"), G.NONE, G.I(4), G.I(7)]) for _ in range(rng.choice([2, 3, 4, 5]))]
        k = rng.choice(["ListV", "UTupleV", "SetV"])
        if k == "SetV":
            xs = G.dedupe_hashable(xs)
        out.append(std_case((k, AINT, [], [], None), ({"ListV": "VList", "UTupleV": "VTuple", "SetV": "VSet"}[k], xs), "async", tag="a:latency"))
        out.append(std_case(("MapV", AINT, AINT, [], [], None), ("VDict", [P(x, x) for x in G.dedupe_hashable(xs)]), "async", tag="a:latency"))
    # unions of seven and eight variants (ends of the typed constructor's argument list)
    for v_, x_ in G.wide_union_cases():
        for m_ in ("sync", "async"):
            out.append(std_case(v_, x_, m_, tag="a:wide-union"))
    # sets over wrapped / user-written / transforming item validators
    STRP_ = ("Scalar", ("KStr",), None, [("Strip",)], [("PNotBlank",), ("PMaxLength", 2)], [])
    for v_, x_ in G.set_children_cases():
        for m_ in ("sync", "async"):
            out.append(std_case(v_, x_, m_, lazy=[STRP_], tag="a:set-children"))
    # optionals whose none_validator is the user's own
    for v_, x_ in G.custom_none_cases():
        for m_ in ("sync", "async"):
            out.append(std_case(v_, x_, m_, tag="a:custom-none"))
    return out


def histories(tier: str, rng: random.Random):
    """Error trees mirror the validator tree on a used instance too (variant k of a union's error is
    variant k's error whatever the union matched before)."""
    from .hist import history_violation
    INT = ("Scalar", ("KInt",), None, [], [], [])
    STR = ("Scalar", ("KStr",), None, [], [], [])
    FLT = ("Scalar", ("KFloat",), None, [], [], [])
    unions = [("UnionV", [INT, STR, FLT]), ("UnionV", [("NoneV", None), ("ListV", INT, [], [], None), STR]),
              ("ListV", ("UnionV", [INT, STR, FLT]), [], [], None), ("OptionalV", ("NoneV", None), ("UnionV", [STR, INT]))]
    alpha = [G.I(1), G.S("s"), G.F1, G.NONE, G.TRUE, ("VList", [G.I(1)]), ("VList", [G.S("x")])]
    bad, n = [], 0
    judge = lambda d: type(d["got"]) is Invalid or type(d["alone"]) is Invalid
    for u in unions:
        for _ in range(60 if tier == "quick" else 1500):
            a = rng.choice(alpha)
            seq = [a] * rng.choice([1, 2, 3]) + [rng.choice(alpha) for _ in range(rng.choice([1, 2]))]
            if u[0] == "ListV":
                seq = [("VList", [x]) for x in seq]
            ops = [(rng.choice(["sync", "sync", "async"]), x) for x in seq]
            n += 1
            v = history_violation("C14", u, [], ops, what="error tree depends on earlier calls: ", judge=judge)
            if v and not bad:
                bad.append(v)
    return bad, n


CHILD_ATTRS = {
    "ListValidator": lambda v: [v.item_validator], "SetValidator": lambda v: [v.item_validator],
    "UniformTupleValidator": lambda v: [v.item_validator], "NTupleValidator": lambda v: list(v.fields),
    "MapValidator": lambda v: [v.key_validator, v.value_validator],
    "RecordValidator": lambda v: [c for _, c in v.keys],
    "DictValidatorAny": lambda v: list(v.schema.values()),
    "DataclassValidator": lambda v: list(v.schema.values()), "NamedTupleValidator": lambda v: list(v.schema.values()),
    "TypedDictValidator": lambda v: list(v.schema.values()),
    "UnionValidator": lambda v: list(v.validators), "OptionalValidator": lambda v: list(v.validators),
    "MaybeValidator": lambda v: [v.validator],
}


def resolve(v: Any) -> Any:
    """Strip transparent wrappers: Lazy, cache wrappers, KeyNotRequired."""
    from koda_validate import KeyNotRequired, Lazy
    from koda_validate.base import CacheValidatorBase
    for _ in range(50):
        if isinstance(v, Lazy):
            v = v.validator()
        elif isinstance(v, (CacheValidatorBase, KeyNotRequired)):
            v = v.validator
        else:
            return v
    return v


def children_of(v: Any) -> List[Any]:
    f = CHILD_ATTRS.get(type(v).__name__)
    return [resolve(c) for c in f(v)] if f else []


def cached_children(v: Any) -> set:
    """ids of (resolved) children that are reached through a cache wrapper: what such a child reports may be a stored
    result about an *equal* earlier value (C20's subject), so identity of values is not claimed below it"""
    from koda_validate import KeyNotRequired, Lazy
    from koda_validate.base import CacheValidatorBase
    f = CHILD_ATTRS.get(type(v).__name__)
    out = set()
    for c in (f(v) if f else []):
        through, cur = False, c
        for _ in range(50):
            if isinstance(cur, Lazy):
                cur = cur.validator()
            elif isinstance(cur, CacheValidatorBase):
                through, cur = True, cur.validator
            elif isinstance(cur, KeyNotRequired):
                cur = cur.validator
            else:
                break
        if through:
            out.add(id(cur))
    return out


def direct_children(e: Any) -> List[Any]:
    if isinstance(e, KE.ContainerErr):
        return [e.child]
    if isinstance(e, KE.KeyErrs):
        return list(e.keys.values())
    if isinstance(e, KE.IndexErrs):
        return list(e.indexes.values())
    if isinstance(e, KE.SetErrs):
        return list(e.item_errs)
    if isinstance(e, KE.UnionErrs):
        return list(e.variants)
    if isinstance(e, KE.MapErr):
        out = []
        for kv in e.keys.values():
            out += [k for k in (kv.key, kv.val) if k is not None]
        return out
    return []


def plain(v: Any) -> bool:
    """no coercer and no preprocessors configured: the value in hand is the caller's own object at every stage"""
    return (type(v).__name__ in CHILD_ATTRS or type(v).__module__.startswith("koda_validate")) and \
        getattr(v, "coerce", None) is None and not getattr(v, "preprocessors", None)


def child_inputs(v: Any, x: Any, e: Any) -> List[Any]:
    """The caller's own element / member / key / value each direct child error is about, where it can be
    told from the input (same order as direct_children); _NOARG elsewhere."""
    n = len(direct_children(e))
    none = [_NOARG] * n
    if x is _NOARG:
        return none
    name = type(v).__name__
    try:
        if isinstance(e, KE.IndexErrs) and name in ("ListValidator", "UniformTupleValidator", "NTupleValidator") \
                and type(x) in (list, tuple):
            return [x[i] if 0 <= i < len(x) else _NOARG for i in e.indexes.keys()]
        if isinstance(e, KE.KeyErrs) and isinstance(x, dict):
            return [x[k] if k in x else _NOARG for k in e.keys.keys()]
        if isinstance(e, KE.KeyErrs) and name in ("DataclassValidator", "NamedTupleValidator") and getattr(v, "coerce", None) is None \
                and type(x) is getattr(v, "data_cls", getattr(v, "named_tuple_cls", None)):
            # an instance of the target class is read field by field: each field validator has the field's own value in hand
            return [getattr(x, k) if isinstance(k, str) and hasattr(x, k) else _NOARG for k in e.keys.keys()]
        if isinstance(e, KE.MapErr) and isinstance(x, dict):
            out = []
            for k, kv in e.keys.items():
                if kv.key is not None:
                    out.append(next((kk for kk in x if kk is k), _NOARG))
                if kv.val is not None:
                    out.append(x[k] if k in x else _NOARG)
            return out
        if isinstance(e, KE.UnionErrs):
            return [x] * n
    except Exception:  # noqa
        return none
    return none


def in_hand(v: Any, x: Any) -> Any:
    """What a coercing / preprocessing validator has in hand after its gate and processors; _NOARG when the gate
    rejects or anything raises."""
    try:
        val = x
        co = getattr(v, "coerce", None)
        if co is not None:
            r = co(x)
            if not r.is_just:
                return _NOARG
            val = r.val
        for p in (getattr(v, "preprocessors", None) or []):
            val = p(val)
        return val
    except Exception:  # noqa
        return _NOARG


def _same_value(a: Any, b: Any) -> bool:
    """Equal values of the same runtime types (via the term form); identical when they have no term form."""
    from ..build import from_py, _CURRENT_CT
    try:
        return from_py(a, _CURRENT_CT[0]) == from_py(b, _CURRENT_CT[0])
    except HarnessError:
        return True
    except Exception:  # noqa
        return True


def slot_owners(v: Any, e: Any) -> List[Any]:
    """The child validator each direct child error must name, where the position decides it (n-tuple slots, record
    keys); None elsewhere (same order as direct_children)."""
    n = len(direct_children(e))
    name = type(v).__name__
    try:
        if isinstance(e, KE.IndexErrs) and name == "NTupleValidator":
            return [resolve(v.fields[i]) if 0 <= i < len(v.fields) else None for i in e.indexes.keys()]
        if isinstance(e, KE.KeyErrs) and name == "RecordValidator":
            table = {}
            for k, c_ in v.keys:
                table.setdefault(k, c_)
            return [resolve(table[k]) if k in table else None for k in e.keys.keys()]
        if isinstance(e, KE.KeyErrs) and hasattr(v, "schema") and isinstance(v.schema, dict):
            return [resolve(v.schema[k]) if k in v.schema else None for k in e.keys.keys()]
    except Exception:  # noqa
        pass
    return [None] * n


def walk(v: Any, x: Any, inv: Any, path: str) -> Optional[str]:
    """node_ok, recursively, on live objects: who by identity, values by identity wherever nothing
    has been coerced or preprocessed yet."""
    v = resolve(v)
    if type(inv) is not Invalid:
        return f"{path}: not an Invalid: {inv!r}"
    if inv.validator is not v:
        return f"{path}: node names {inv.validator!r} but the validator at this position is {v!r}"
    e = inv.err_type
    if isinstance(e, (KE.TypeErr, KE.CoercionErr)) and x is not _NOARG and inv.value is not x:
        return f"{path}: type/coercion failure holds {inv.value!r}, not the caller's own object {x!r}"
    if x is not _NOARG and inv.value is not x and plain(v) and isinstance(
            e, (KE.PredicateErrs, KE.KeyErrs, KE.ExtraKeysErr, KE.IndexErrs, KE.SetErrs, KE.MapErr, KE.UnionErrs)) \
            and (type(v).__name__ not in ("DataclassValidator", "NamedTupleValidator") or isinstance(x, dict)):
        return f"{path}: nothing is coerced or preprocessed by {v!r}, yet its {type(e).__name__} node holds {inv.value!r} (id {id(inv.value)}), not the caller's own object {x!r} (id {id(x)})"
    if x is not _NOARG and not plain(v) and type(v).__module__.startswith("koda_validate") and isinstance(
            e, (KE.PredicateErrs, KE.KeyErrs, KE.ExtraKeysErr, KE.IndexErrs, KE.SetErrs, KE.MapErr)):
        # a later stage of a coercing / preprocessing validator: the node holds the value as coerced and processed
        # (recomputed here from the validator's own coercer and processors)
        hand = in_hand(v, x)
        if hand is not _NOARG and not _same_value(inv.value, hand):
            return (f"{path}: the {type(e).__name__} node of {v!r} holds {inv.value!r}, but the value it had in hand after its "
                    f"coercer / processors is {hand!r} (input {x!r})")
    kids = children_of(v)
    kid_x = child_inputs(v, x, e)
    slot_owner = slot_owners(v, e)
    cached_kids = cached_children(v)
    for i, ch in enumerate(direct_children(e)):
        if type(ch) is Invalid and isinstance(ch.err_type, KE.MissingKeyErr) and ch.validator is v:
            if x is not _NOARG and plain(v) and isinstance(x, dict) and ch.value is not x:
                return f"{path}/{i}: the missing-key node holds {ch.value!r}, not the mapping that lacks the key"
            continue
        owner = next((k for k in kids if ch.validator is k), None)
        if owner is not None and slot_owner[i] is not None and owner is not slot_owner[i]:
            # equal is not the same: the node names the validator *of this slot / key*, not an equal one elsewhere
            return f"{path}/{i}: child error names {ch.validator!r} (id {id(ch.validator)}), a child of {v!r} but not the one at this position (id {id(slot_owner[i])})"
        if owner is None:
            # an error produced deeper by a union/optional child still names that child
            return f"{path}/{i}: child error names {ch.validator!r}, which is not a child validator of {v!r}"
        r = walk(owner, _NOARG if id(owner) in cached_kids else kid_x[i], ch, f"{path}/{i}")
        if r:
            return r
    return None


_NOARG = object()


def oracle(c: Case) -> Optional[dict]:
    if c.exc is not None or type(c.raw) is not Invalid:
        return None
    try:
        r = walk(c.vobj, c.px, c.raw, "root")
    except HarnessError:
        return None
    if r:
        kind = "who" if "names" in r else ("value" if "holds" in r else "shape")
        return {"signature": "C14:" + kind, "what": r}
    return None


def nontrivial(c: Case) -> bool:
    return c.obs is not None and c.obs[0] == "OInvalid"


def coerced_record_nodes() -> Optional[dict]:
    """Record-shaped validators behind a coercer that builds a *new* mapping (pairs -> dict): every node of a later
    stage - the key errors, each missing-key entry, the unknown-keys error - holds the coerced mapping (one object),
    the coercion failure holds the caller's own object."""
    import dataclasses as _dc
    from typing import NamedTuple, TypedDict
    from koda import Just, nothing
    from koda_validate import (Coercer, DataclassValidator, DictValidatorAny, IntValidator, NamedTupleValidator, StringValidator,
                               TypedDictValidator)
    from koda_validate.errors import CoercionErr, ExtraKeysErr, KeyErrs, MissingKeyErr
    from ..corr import drive
    made: list = []

    def pairs_to_dict(v):
        if type(v) is list and all(type(p_) is tuple and len(p_) == 2 for p_ in v):
            made.append(dict(v))
            return Just(made[-1])
        return nothing
    co = Coercer(pairs_to_dict, {list})
    TD = TypedDict("TD", {"a": int, "b": str})
    DC = _dc.make_dataclass("DC", [("a", int), ("b", str)])
    NT = NamedTuple("NT", [("a", int), ("b", str)])
    ov = {"a": IntValidator(), "b": StringValidator()}
    builds = [("TypedDictValidator", lambda s_: TypedDictValidator(TD, overrides=dict(ov), coerce=co, fail_on_unknown_keys=s_)),
              ("DataclassValidator", lambda s_: DataclassValidator(DC, overrides=dict(ov), coerce=co, fail_on_unknown_keys=s_)),
              ("NamedTupleValidator", lambda s_: NamedTupleValidator(NT, overrides=dict(ov), coerce=co, fail_on_unknown_keys=s_)),
              ("DictValidatorAny", lambda s_: DictValidatorAny(dict(ov), coerce=co, fail_on_unknown_keys=s_))]
    for name, mk in builds:
        for strict in (False, True):
            try:
                v = mk(strict)
            except TypeError:
                continue        # this validator takes no coercer
            for x in ([("a", 1)], [("b", "s")], [], [("a", "no")], [("a", 1), ("b", "s"), ("zz", 0)], {"a": 1}, "nope"):
                for mode in ("sync", "async"):
                    del made[:]
                    r = v(x) if mode == "sync" else drive(v.validate_async(x))
                    if r.is_valid:
                        continue
                    e = r.err_type
                    where = f"{name}(coerce=pairs->dict, fail_on_unknown_keys={strict}) ({mode}) on {x!r}"
                    if isinstance(e, CoercionErr):
                        if r.value is not x:
                            return {"signature": "C14:value", "what": f"{where}: the coercion failure holds {r.value!r}, not the caller's own object"}
                        continue
                    if not made:
                        continue
                    coerced = made[-1]
                    if isinstance(e, (KeyErrs, ExtraKeysErr)) and r.value is not coerced:
                        return {"signature": "C14:value", "what": f"{where}: the {type(e).__name__} node holds {r.value!r} (is the raw input: {r.value is x}), not the coerced mapping {coerced!r}"}
                    if isinstance(e, KeyErrs):
                        for k, ch in e.keys.items():
                            if isinstance(ch.err_type, MissingKeyErr) and (ch.value is not coerced or ch.validator is not v):
                                return {"signature": "C14:value",
                                        "what": f"{where}: the missing-key entry for {k!r} holds {ch.value!r} (is the raw input: {ch.value is x}) and names {ch.validator!r}; "
                                                f"the mapping that lacks the key is the coerced one, {coerced!r}"}
    return None


def annotated_field_nodes() -> Optional[dict]:
    """Validators derived from annotations: where a field (or an item) is annotated Annotated[T, <validator>], the
    validator at that position of the derived tree is what the error node for that position names, and the node holds
    the field's own value - for plain scalar validators (no predicates, no coercer) as for configured ones."""
    import dataclasses as _dc
    import typing
    from typing import Annotated, NamedTuple, TypedDict
    from uuid import UUID
    from koda_validate import (DataclassValidator, IntValidator, ListValidator, Max, NamedTupleValidator, StringValidator, TypedDictValidator,
                               UUIDValidator, strip)
    from koda_validate.is_type import TypeValidator
    from koda_validate.errors import IndexErrs, KeyErrs
    from koda_validate.typehints import get_typehint_validator
    from ..corr import drive

    class Dog:
        pass
    fields = {"ident": Annotated[UUID, UUIDValidator(coerce=None)], "n": Annotated[int, IntValidator(Max(10))], "plain": Annotated[int, IntValidator()],
              "s": Annotated[str, "doc", StringValidator(preprocessors=[strip])], "d": Annotated[Dog, TypeValidator(Dog)]}
    TD = TypedDict("TD", dict(fields))
    DC = _dc.make_dataclass("DC", list(fields.items()))
    NT = NamedTuple("NT", list(fields.items()))
    bad = {"ident": "12345678-1234-5678-1234-567812345678", "n": "x", "plain": True, "s": 5, "d": object()}
    for name, v in (("TypedDictValidator", TypedDictValidator(TD)), ("DataclassValidator", DataclassValidator(DC)), ("NamedTupleValidator", NamedTupleValidator(NT)),
                    ("get_typehint_validator(TypedDict)", get_typehint_validator(TD)), ("get_typehint_validator(dataclass)", get_typehint_validator(DC))):
        for mode in ("sync", "async"):
            data = dict(bad)
            r = v(data) if mode == "sync" else drive(v.validate_async(data))
            if r.is_valid or not isinstance(r.err_type, KeyErrs) or set(r.err_type.keys) != set(bad):
                return {"signature": "C14:annotated-field", "what": f"{name} over fields annotated with validators ({mode}) on {data!r}: expected one key error per field, got {r!r}"}
            for k, node in r.err_type.keys.items():
                if node.validator is not v.schema[k] or node.value is not data[k]:
                    return {"signature": "C14:annotated-field",
                            "what": f"{name} ({mode}): the error node for field {k!r} (annotated {fields[k]!r}) names {node.validator!r} "
                                    f"(the validator at that position: {node.validator is v.schema[k]}) and holds {node.value!r} (the field's own value: {node.value is data[k]})"}
    for label, ann in (("List[Annotated[int, IntValidator()]]", typing.List[Annotated[int, IntValidator()]]),
                       ("List[Annotated[UUID, UUIDValidator(coerce=None)]]", typing.List[Annotated[UUID, UUIDValidator(coerce=None)]])):
        v = get_typehint_validator(ann)
        for mode in ("sync", "async"):
            data = ["x", None]
            r = v(data) if mode == "sync" else drive(v.validate_async(data))
            if r.is_valid or not isinstance(r.err_type, IndexErrs) or not isinstance(v, ListValidator):
                return {"signature": "C14:annotated-field", "what": f"validator derived from {label} ({mode}) on {data!r}: got {r!r}"}
            for i, node in r.err_type.indexes.items():
                if node.validator is not v.item_validator or node.value is not data[i]:
                    return {"signature": "C14:annotated-field", "what": f"validator derived from {label} ({mode}): the node for item {i} names {node.validator!r}, "
                                                                        f"not the item validator at that position, or holds {node.value!r}"}
    return None


def coerced_container_nodes() -> Optional[dict]:
    """Map / list / set / uniform-tuple validators behind a custom coercer that answers with a *new* container also
    for values that already are of the container type: every later stage (container predicates, elements, keys and
    values) is about the coerced container - that object is what those nodes hold and what their entries are of."""
    from koda import Just, nothing
    from koda_validate import Coercer, IntValidator, ListValidator, MapValidator, MaxItems, MaxKeys, SetValidator, StringValidator, UniformTupleValidator
    from koda_validate.errors import CoercionErr, IndexErrs, MapErr, PredicateErrs, SetErrs
    from ..corr import drive
    made: list = []

    def dropping(kind):
        def f(v):
            if type(v) is kind:
                made.append(kind((k, v[k]) for k in v if v[k] is not None) if kind is dict else kind(i for i in v if i is not None))
                return Just(made[-1])
            return nothing
        return Coercer(f, {kind})
    builds = [("MapValidator", dict, lambda ps: MapValidator(key=StringValidator(), value=IntValidator(), predicates=ps, coerce=dropping(dict)), MaxKeys,
               [{"a": 1, "b": None}, {"a": "x", "b": None}, {1: 1, "b": None}, {"a": 1, "b": 2, "c": None}]),
              ("ListValidator", list, lambda ps: ListValidator(IntValidator(), predicates=ps, coerce=dropping(list)), MaxItems, [[1, None], ["x", None], [1, 2, None]]),
              ("UniformTupleValidator", tuple, lambda ps: UniformTupleValidator(IntValidator(), predicates=ps, coerce=dropping(tuple)), MaxItems, [(1, None), ("x", None), (1, 2, None)]),
              ("SetValidator", set, lambda ps: SetValidator(IntValidator(), predicates=ps, coerce=dropping(set)), MaxItems, [{1, None}, {"x", None}, {1, 2, None}])]
    for name, kind, mk, P_, xs in builds:
        for ps in ([], [P_(1)], [P_(0)]):
            v = mk(ps)
            for x in xs + ["nope"]:
                for mode in ("sync", "async"):
                    del made[:]
                    r = v(x) if mode == "sync" else drive(v.validate_async(x))
                    where = f"{name}(coerce=<drops None entries>, predicates={ps!r}) ({mode}) on {x!r}"
                    if isinstance(x, str):
                        if r.is_valid or not isinstance(r.err_type, CoercionErr) or r.value is not x:
                            return {"signature": "C14:value", "what": f"{where}: expected a coercion failure holding the caller's own object, got {r!r}"}
                        continue
                    if not made:
                        return {"signature": "C14:value", "what": f"{where}: the configured coercer was never asked; result {r!r}"}
                    coerced = made[-1]
                    if r.is_valid:
                        if any(i is None for i in (r.val.values() if kind is dict else r.val)):
                            return {"signature": "C14:value", "what": f"{where}: the payload {r.val!r} holds entries the coerced container {coerced!r} does not have"}
                        continue
                    e = r.err_type
                    if isinstance(e, (PredicateErrs, IndexErrs, MapErr, SetErrs)) and r.value is not coerced:
                        return {"signature": "C14:value", "what": f"{where}: the {type(e).__name__} node holds {r.value!r} (is the raw input: {r.value is x}), "
                                                                  f"not the coerced container {coerced!r}"}
                    if isinstance(e, MapErr) and not set(e.keys) <= set(coerced):
                        return {"signature": "C14:value", "what": f"{where}: the map error has entries for {set(e.keys)!r}; the coerced mapping has keys {set(coerced)!r}"}
                    if isinstance(e, IndexErrs) and not all(0 <= i < len(coerced) for i in e.indexes):
                        return {"signature": "C14:value", "what": f"{where}: index errors {set(e.indexes)!r} outside the coerced container {coerced!r}"}
    return None


def run(tier: str, rng: random.Random, proof_ok: bool) -> dict:
    rep = run_families("C14", cases(tier, rng), rng, oracle, nontrivial)
    crn = coerced_record_nodes()
    if crn:
        rep["violations"].append({"kind": "oracle", **crn, "replay_case": {"coerced_record_nodes": True}})
    for fn_, key_ in ((annotated_field_nodes, "annotated_field_nodes"), (coerced_container_nodes, "coerced_container_nodes")):
        r_ = fn_()
        if r_:
            rep["violations"].append({"kind": "oracle", **r_, "replay_case": {key_: True}})
    bad, n = histories(tier, rng)
    rep["violations"] += bad
    rep["coverage"]["histories_on_one_instance"] = n
    return rep


def replay(path: str) -> int:
    import json
    from .hist import replay_special
    rc = json.load(open(path)).get("replay_case")
    if isinstance(rc, dict) and rc.get("coerced_record_nodes"):
        r_ = coerced_record_nodes()
        print("property violated: " + r_["what"] if r_ else "property holds for record validators behind a mapping-building coercer")
        return 1 if r_ else 0
    for fn_, key_ in ((annotated_field_nodes, "annotated_field_nodes"), (coerced_container_nodes, "coerced_container_nodes")):
        if isinstance(rc, dict) and rc.get(key_):
            r_ = fn_()
            print("property violated: " + r_["what"] if r_ else f"property holds ({key_})")
            return 1 if r_ else 0
    judge = lambda d: type(d["got"]) is Invalid or type(d["alone"]) is Invalid
    r = replay_special(rc, "C14", judge=judge) if isinstance(rc, dict) else None
    return r if r is not None else generic_replay(path, oracle)
