"""C04 - record validators: required/optional/unknown keys and complete key errors."""
from __future__ import annotations

import itertools
import random
from typing import Any, List, Optional

from koda import nothing
from koda_validate import Invalid, Valid
from koda_validate.errors import CoercionErr, ExtraKeysErr, KeyErrs, MissingKeyErr, TypeErr

from .. import gen as G
from .. import userlib as U
from ..build import HarnessError, to_py
from ..corr import Case, drive
from ..lang import N, P, Some
from .C03 import _inv_eq, _same
from .common import generic_replay, run_families, std_case

ASSUMPTIONS = [
    "declared keys are hashable and pairwise distinct under ==",
    "into / class constructors accept the payloads of their own declared keys",
    "whole-object checks are total and return None or an error value",
]
from ..facts import effects as _effects  # noqa: E402
_FX = _effects.obligation("C04")
EXTRA_PROOF_FILES = [_FX[0]]
TRUSTED_EXTRA = [_FX[1]]
regenerate_facts = _FX[2]

INT = ("Scalar", ("KInt",), None, [], [], [])
STRIP = ("Scalar", ("KStr",), None, [("Strip",)], [("PNotBlank",)], [])
INC = ("UserV", N(0), False)
INC_T = ("UserV", N(0), True)
CHILD = [(INT, G.I(4), G.S("no")), (STRIP, G.S(" ok "), G.S(" ")), (INC, G.I(1), G.NONE), (INC_T, G.I(2), G.F1)]
KEYS = [G.S("a"), G.S("b"), G.I(1)]


def knr(v):
    return ("KeyNotRequired", v)


def obj_opts(rng):
    r = rng.random()
    if r < 0.4:
        return None, None
    if r < 0.75:
        return Some(N(rng.choice([0, 1, 2]))), None
    return None, Some(N(rng.choice([0, 1, 2])))


def build_input(keys, pattern, children, extra):
    kvs = []
    for k, st, ch in zip(keys, pattern, children):
        if st == "valid":
            kvs.append(P(k, ch[1]))
        elif st == "invalid":
            kvs.append(P(k, ch[2]))
    if extra:
        kvs.append(P(G.S("zz"), G.I(0)))
    return ("VDict", kvs)


def cases(tier: str, rng: random.Random) -> List[Case]:
    out: List[Case] = []
    budget = 900 if tier == "quick" else 20000
    states = ["valid", "invalid", "absent"]
    # (a) RecordV / DictAnyV: every required/optional split x strict x pattern x extra, <= 3 keys
    combos = []
    for n in range(0, 4):
        for req in itertools.product([True, False], repeat=n):
            for pat in itertools.product(states, repeat=n):
                for strict in (False, True):
                    for extra in (False, True):
                        combos.append((n, req, pat, strict, extra))
    rng.shuffle(combos)
    for n, req, pat, strict, extra in combos[: budget]:
        keys = KEYS[:n]
        children = [rng.choice(CHILD) for _ in range(n)]
        x = build_input(keys, pat, children, extra)
        vobj, avobj = obj_opts(rng)
        ks = [P(k, (ch[0] if r else knr(ch[0]))) for k, r, ch in zip(keys, req, children)]
        m = rng.choice(["sync", "async"])
        if rng.random() < 0.5:
            out.append(std_case(("RecordV", ks, N(rng.choice([0, 1, 2])), vobj, avobj, strict), x, m, tag="a:record"))
        else:
            out.append(std_case(("DictAnyV", ks, vobj, avobj, strict), x, m, tag="a:dictany"))
    # (a0) instances of the target class whose fields hold instances / opaque objects / containers of them
    for v, x in G.instance_cases(rng):
        for m in ("sync", "async"):
            out.append(std_case(v, x, m, tag="a:instances"))
    # (a') class validators: every pattern over their declared fields
    for cid, (rk, flds) in G.CLASS_SCHEMAS.items():
        for pat in itertools.product(states, repeat=len(flds)):
            for strict in (False, True):
                for extra in (False, True):
                    children = [rng.choice(CHILD) for _ in flds]
                    schema = [P(G.S(n), P(ch[0], r)) for (n, r), ch in zip(flds, children)]
                    x = build_input([G.S(n) for n, _ in flds], pat, children, extra)
                    vobj, avobj = obj_opts(rng)
                    v = ("ClassV", (rk,), N(cid), schema, vobj, avobj, strict, None)
                    out.append(std_case(v, x, rng.choice(["sync", "async"]), tag="a:class"))
    # (a'') the undeclared key may be any hashable value - None, 0, False, '', () included - and come first or last;
    #       all declared keys present and valid, or one missing
    odd_keys = [G.NONE, G.I(0), G.FALSE, G.S(""), ("VTuple", []), G.I(-1), G.TRUE, G.B(b""), G.F1, ("VTuple", [G.NONE])]
    for ok_ in odd_keys:
        for strict in (True, False):
            for first in (True, False):
                for drop in (False, True):
                    for m in ("sync", "async"):
                        kvs = [] if drop else [P(G.S("a"), G.I(4))]
                        kvs = ([P(ok_, G.I(0))] + kvs) if first else (kvs + [P(ok_, G.I(0))])
                        x = ("VDict", kvs)
                        ks = [P(G.S("a"), INT)]
                        out.append(std_case(("RecordV", ks, N(0), None, None, strict), x, m, tag="a:odd-extra-key"))
                        out.append(std_case(("DictAnyV", ks, None, None, strict), x, m, tag="a:odd-extra-key"))
                        for cid, (rk, flds) in G.CLASS_SCHEMAS.items():
                            kv2 = [P(G.S(n), G.I(4)) for n, _ in flds][(1 if drop else 0):]
                            kv2 = ([P(ok_, G.I(0))] + kv2) if first else (kv2 + [P(ok_, G.I(0))])
                            schema = [P(G.S(n), P(INT, r)) for n, r in flds]
                            out.append(std_case(("ClassV", (rk,), N(cid), schema, None, None, strict, None), ("VDict", kv2), m, tag="a:odd-extra-key"))
    # (a3) record-class validators behind the user's own coercer (dicts pass through, None becomes {}): unknown keys,
    #      missing keys and values are judged on the coerced mapping exactly as without a coercer
    for cid, (rk, flds) in G.CLASS_SCHEMAS.items():
        schema = [P(G.S(n), P(INT, r)) for n, r in flds]
        full = [P(G.S(n), G.I(4)) for n, _ in flds]
        for strict in (True, False):
            v = ("ClassV", (rk,), N(cid), schema, None, None, strict, Some(("CoUser", N(5))))
            for x in (("VDict", full), ("VDict", full + [P(G.S("zz"), G.I(0))]), ("VDict", [P(G.S("zz"), G.I(0))] + full), ("VDict", full[1:] + [P(G.S("zz"), G.I(0))]),
                      ("VDict", [P(G.S(n), G.S("no")) for n, _ in flds] + [P(G.S("zz"), G.I(0))]), G.NONE, ("VDict", []), G.I(1), ("VList", [])):
                for m in ("sync", "async"):
                    out.append(std_case(v, x, m, tag="a:class-user-coercer"))
    # (b) non-dict inputs, dict subclasses, target-class instances, other-class instances
    insts = [("VObj", N(G.C_DATA), [P(G.S("a"), G.I(4)), P(G.S("b"), G.I(5))]),
             ("VObj", N(G.C_DATA), [P(G.S("a"), G.S("no")), P(G.S("b"), G.I(5))]),
             ("VObj", N(G.C_SLOTS), [P(G.S("a"), G.I(4))]),
             ("VObj", N(G.C_FROZEN), [P(G.S("v"), G.I(4))]),
             ("VObj", N(G.C_NAMED), [P(G.S("x"), G.I(4)), P(G.S("y"), G.S("d"))]),
             ("VObj", N(G.C_NAMED), [P(G.S("x"), G.NONE), P(G.S("y"), G.I(4))]),
             G.DICTSUB, ("VSub", N(G.C_DICT), ("VDict", [P(G.S("a"), G.I(4))])), G.OBJ,
             ("VList", [P and G.I(1)]), ("VTuple", [G.S("a"), G.I(4)]), G.NONE, G.S("a"), ("VDict", []),
             ("VDict", [P(G.S("a"), G.I(4)), P(G.S("b"), G.I(4))]), ("VDict", [P(G.S("x"), G.I(4))])]
    for x in insts:
        for cid, (rk, flds) in G.CLASS_SCHEMAS.items():
            for co in (None, "nocoerce"):
                schema = [P(G.S(n), P(INT, r)) for n, r in flds]
                coerce = None
                if co and rk != "RkTyped":
                    coerce = Some(("CoDataclassNoCoerce" if rk == "RkData" else "CoNamedTupleNoCoerce", N(cid)))
                v = ("ClassV", (rk,), N(cid), schema, None, None, rng.random() < 0.5, coerce)
                out += [std_case(v, x, m, tag="b:inputs") for m in ("sync", "async")]
        ks = [P(G.S("a"), INT), P(G.S("b"), knr(INT))]
        out += [std_case(("RecordV", ks, N(0), None, None, False), x, m, tag="b:inputs") for m in ("sync", "async")]
        out += [std_case(("DictAnyV", ks, None, None, True), x, m, tag="b:inputs") for m in ("sync", "async")]
    # (c) random record trees
    for _ in range(300 if tier == "quick" else 6000):
        v = None
        while v is None or v[0] not in ("RecordV", "DictAnyV", "ClassV"):
            v = G.gen_validator(rng, rng.choice([1, 2]))
        x = G.valid_input(v, rng, [])
        r = rng.random()
        tag = "c:valid"
        if r < 0.4:
            x, tag = G.corrupt(x, rng), "c:corrupt"
        elif r < 0.5:
            x, tag = rng.choice(G.HOSTILE), "c:hostile"
        for m in ("sync", "async"):
            out.append(std_case(v, x, m, tag=tag))
    return out


def _call(child: Any, mode: str, x: Any) -> Any:
    return child(x) if mode == "sync" else drive(child.validate_async(x))


def oracle(c: Case) -> Optional[dict]:
    kind = c.v[0]
    if kind not in ("RecordV", "DictAnyV", "ClassV"):
        return None
    v, x, ctx = c.vobj, c.px, c.ctx
    calls_during = list(c.calls)
    has_async_obj = v.validate_object_async is not None
    if c.mode == "sync" and has_async_obj:
        return None if type(c.exc) is AssertionError else {
            "signature": "C04:sync-ran-with-async-object-check", "what": "sync call returned with an async object check configured"}
    if c.exc is not None:
        return None
    got = c.raw
    try:
        # ---- input gate
        if kind == "RecordV":
            if not isinstance(x, dict):
                ok = type(got) is Invalid and type(got.err_type) is TypeErr and got.value is x and got.validator is v
                return None if ok else {"signature": "C04:gate", "what": f"non-dict not rejected with TypeErr: {got!r}"}
            data = x
            declared = [(k, ch, not type(ch).__name__ == "KeyNotRequired") for k, ch in v.keys]
        elif kind == "DictAnyV":
            if type(x) is not dict:
                ok = type(got) is Invalid and type(got.err_type) is TypeErr and got.value is x and got.validator is v
                return None if ok else {"signature": "C04:gate", "what": f"non-plain-dict not rejected with TypeErr: {got!r}"}
            data = x
            declared = []
            for k, ch in v.schema.items():
                opt = type(ch).__name__ == "KeyNotRequired"
                declared.append((k, ch.validator if opt else ch, not opt))
        else:
            rk = c.v[1][0]
            cls = ctx.ct.classes[c.v[2].k]
            if v.coerce:
                r = v.coerce(x)
                if not r.is_just:
                    ok = type(got) is Invalid and type(got.err_type) is CoercionErr and got.value is x and got.validator is v
                    return None if ok else {"signature": "C04:gate", "what": f"coercion failure not reported: {got!r}"}
                data = r.val
            elif type(x) is dict:
                data = x
            elif rk != "RkTyped" and type(x) is cls:
                import dataclasses
                data = ({f.name: getattr(x, f.name) for f in dataclasses.fields(x)} if rk == "RkData" else x._asdict())
            else:
                want = TypeErr if rk == "RkTyped" else CoercionErr
                ok = type(got) is Invalid and type(got.err_type) is want and got.value is x and got.validator is v
                return None if ok else {"signature": "C04:gate",
                                        "what": f"input that is neither a plain dict nor an instance of exactly the target class was not rejected at the gate: {got!r}"}
            declared = [(to_py(p.a, ctx.ct), v.schema[to_py(p.a, ctx.ct)], p.b.b) for p in c.v[3]]
        if not isinstance(data, dict):
            return None
        # ---- unknown keys first
        dkeys = [k for k, _, _ in declared]
        if v.fail_on_unknown_keys and any(k not in dkeys for k in data):
            ok = type(got) is Invalid and type(got.err_type) is ExtraKeysErr and got.validator is v \
                and got.err_type.expected_keys == set(dkeys) and _same(ctx, got.value, data)
            if ok and calls_during:
                return {"signature": "C04:unknown-first", "what": f"unknown key present but values were validated first: {calls_during}"}
            return None if ok else {"signature": "C04:unknown-keys",
                                    "what": f"undeclared key with fail_on_unknown_keys: expected ExtraKeysErr({set(dkeys)!r}), got {got!r}"}
        # ---- per-key
        errs, payload = {}, []
        for k, ch, req in declared:
            if k not in data:
                if req:
                    errs[k] = "missing"
                else:
                    payload.append((k, "absent"))
            else:
                r = _call(ch, c.mode, data[k])
                if r.is_valid:
                    payload.append((k, r.val))
                else:
                    errs[k] = r
        if errs:
            ok = type(got) is Invalid and type(got.err_type) is KeyErrs and got.validator is v \
                and list(got.err_type.keys) == list(errs) and _same(ctx, got.value, data)
            if ok:
                for k, e in errs.items():
                    g = got.err_type.keys[k]
                    if e == "missing":
                        ok = ok and type(g) is Invalid and type(g.err_type) is MissingKeyErr and g.validator is v \
                            and _same(ctx, g.value, data)
                    else:
                        ok = ok and _inv_eq(ctx, g, e)
            return None if ok else {"signature": "C04:key-errs",
                                    "what": f"expected exactly one entry for each of {list(errs)!r} (missing required / invalid), got {got!r}"}
        # ---- target
        if kind == "RecordV":
            obj = v.into(*[(nothing if w == "absent" else w) for _, w in payload])
        elif kind == "DictAnyV" or (kind == "ClassV" and c.v[1][0] == "RkTyped"):
            obj = {k: w for k, w in payload if w != "absent" or False}
            obj = {k: w for k, w in payload if not (isinstance(w, str) and w == "absent")}
        else:
            obj = ctx.ct.classes[c.v[2].k](**{k: w for k, w in payload if not (isinstance(w, str) and w == "absent")})
        e = v.validate_object(obj) if v.validate_object else None
        if e is None and c.mode == "async" and v.validate_object_async:
            e = drive(v.validate_object_async(obj))
        if e is not None:
            ok = type(got) is Invalid and got.err_type == e and got.validator is v and _same(ctx, got.value, obj)
            return None if ok else {"signature": "C04:object-check", "what": f"object check failed with {e!r} on {obj!r}, got {got!r}"}
        ok = type(got) is Valid and type(got.val) is type(obj) and _same(ctx, got.val, obj)
        return None if ok else {"signature": "C04:payload",
                                "what": f"expected Valid({obj!r}) built only from declared keys' payloads, got {got!r}"}
    except HarnessError:
        return None
    except AssertionError as e:
        return {"signature": "C04:child-assertion-swallowed",
                "what": f"a child refuses to run synchronously ({e}) yet the record validator returned {got!r}"}


def nontrivial(c: Case) -> bool:
    return c.obs is not None and c.obs[0] in ("OValid", "OInvalid") and not (
        c.obs[0] == "OInvalid" and c.obs[1][1][0] in ("TypeErr", "CoercionErr"))


AINT = ("Scalar", ("KInt",), None, [], [], [("APred", N(2))])      # really yields to the event loop (3 suspensions)
ASTR = ("Scalar", ("KStr",), None, [], [], [("APred", N(0))])


def overlap_sets(rng: random.Random, tier: str):
    """Record validators whose children suspend, and inputs with / without the optional keys: overlapping
    async validations sharing one instance must each return what they return alone."""
    a, b = G.S("a"), G.S("b")
    d = lambda *kv: ("VDict", [P(k, v) for k, v in kv])
    recs = [
        ("ClassV", ("RkData",), N(G.C_DATA), [P(a, P(AINT, True)), P(b, P(AINT, False))], None, None, False, None),
        ("ClassV", ("RkNamed",), N(G.C_NAMED), [P(G.S("x"), P(AINT, True)), P(G.S("y"), P(ASTR, False))], None, None, False, None),
        ("ClassV", ("RkTyped",), N(G.C_TYPED), [P(G.S("k"), P(AINT, True)), P(G.S("o"), P(AINT, False))], None, None, True, None),
        ("RecordV", [P(a, AINT), P(b, ("KeyNotRequired", AINT))], N(0), None, None, False),
        ("DictAnyV", [P(a, AINT), P(b, ("KeyNotRequired", ASTR))], None, None, True),
    ]
    inputs = {
        0: [d((a, G.I(2))), d((a, G.I(4)), (b, G.I(6))), d((b, G.I(3)))],
        1: [d((G.S("x"), G.I(2))), d((G.S("x"), G.I(4)), (G.S("y"), G.S("s")))],
        2: [d((G.S("k"), G.I(2))), d((G.S("k"), G.I(4)), (G.S("o"), G.I(6))), d((G.S("k"), G.I(1)), (G.S("z"), G.I(0)))],
        3: [d((a, G.I(2))), d((a, G.I(4)), (b, G.I(6)))],
        4: [d((a, G.I(2))), d((a, G.I(4)), (b, G.S("s"))), d((a, G.I(1)), (G.S("z"), G.I(0)))],
    }
    for i, vt in enumerate(recs):
        for xts in itertools.permutations(inputs[i], 2):
            yield vt, list(xts)
        if tier != "quick":
            for xts in itertools.product(inputs[i], repeat=3):
                yield vt, list(xts)


def object_stage_payload(prefix: str = "C04") -> Optional[dict]:
    """The whole-object check of every record-shaped validator (and of the n-tuple validator) is handed the object
    built from the children's *payloads* - the very object the call then returns when the check passes - never the
    raw input; and what comes back is accepted again, unchanged."""
    import dataclasses as _dc
    from decimal import Decimal
    from typing import NamedTuple, TypedDict
    from koda_validate import (DataclassValidator, DecimalValidator, DictValidatorAny, NamedTupleValidator, NTupleValidator,
                               RecordValidator, StringValidator, TypedDictValidator, Valid, strip)

    # (functional forms: this module defers annotations, classes written with `class` would carry strings)
    TD = TypedDict("TD", {"low": Decimal, "name": str})
    DC = _dc.make_dataclass("DC", [("low", Decimal), ("name", str)])
    NT = NamedTuple("NT", [("low", Decimal), ("name", str)])
    fields = {"low": DecimalValidator(), "name": StringValidator(preprocessors=[strip])}
    raw = {"low": "10", "name": " bob "}
    for is_async in (False, True):
        seen: list = []

        def chk(obj):
            seen.append(obj)
            return None

        async def achk(obj):
            seen.append(obj)
            return None
        kw = {"validate_object_async": achk} if is_async else {"validate_object": chk}
        builds = [("TypedDictValidator", lambda: TypedDictValidator(TD, overrides=dict(fields), **kw), raw, {"low": Decimal(10), "name": "bob"}),
                  ("DataclassValidator", lambda: DataclassValidator(DC, overrides=dict(fields), **kw), raw, DC(Decimal(10), "bob")),
                  ("NamedTupleValidator", lambda: NamedTupleValidator(NT, overrides=dict(fields), **kw), raw, NT(Decimal(10), "bob")),
                  ("DictValidatorAny", lambda: DictValidatorAny(dict(fields), **kw), raw, {"low": Decimal(10), "name": "bob"}),
                  ("RecordValidator", lambda: RecordValidator(into=lambda low, name: (low, name), keys=(("low", fields["low"]), ("name", fields["name"])), **kw),
                   raw, (Decimal(10), "bob"))]
        if not is_async:
            builds.append(("NTupleValidator", lambda: NTupleValidator.untyped(fields=(fields["low"], fields["name"]), validate_object=chk),
                           ["10", " bob "], (Decimal(10), "bob")))
        for name, mk, x, want in builds:
            del seen[:]
            try:
                v = mk()
                r = drive(v.validate_async(x)) if is_async else v(x)
            except Exception as e:  # noqa
                return {"signature": f"{prefix}:object-stage-payload", "what": f"{name} ({'async' if is_async else 'sync'}) with a whole-object check raised {e!r}"}
            mode = "async" if is_async else "sync"
            if type(r) is not Valid or type(r.val) is not type(want) or r.val != want:
                return {"signature": f"{prefix}:object-stage-payload", "what": f"{name} ({mode}) on {x!r}: expected Valid({want!r}), got {r!r}"}
            if len(seen) != 1 or type(seen[0]) is not type(want) or seen[0] != want:
                return {"signature": f"{prefix}:object-stage-payload",
                        "what": f"{name} ({mode}) on {x!r}: its whole-object check was handed {seen!r}; the object built from the children's payloads is {want!r}"}
            if seen[0] is not r.val:
                return {"signature": f"{prefix}:object-stage-payload",
                        "what": f"{name} ({mode}): the object the check approved ({seen[0]!r}) is not the object returned ({r.val!r})"}
            if name in ("TypedDictValidator", "DataclassValidator", "NamedTupleValidator", "DictValidatorAny"):
                r2 = drive(v.validate_async(r.val)) if is_async else v(r.val)
                if type(r2) is not Valid or type(r2.val) is not type(want) or r2.val != want:
                    return {"signature": f"{prefix}:object-stage-payload", "what": f"{name} ({mode}): its own payload {r.val!r} is answered with {r2!r} when validated again"}
    return None


def kw_only_dataclasses() -> Optional[dict]:
    """Requiredness comes from the class: a field with a default may be absent wherever it is declared - keyword-only
    fields (one, all, mixed with positional defaults, inherited) included; a field without one may not."""
    import dataclasses as _dc
    from koda_validate import DataclassValidator, Invalid, Valid
    from koda_validate.errors import KeyErrs, MissingKeyErr
    F = _dc.field
    specs = [
        ("all kw_only", dict(kw_only=True), [("a", int), ("b", int, F(default=5)), ("c", int)]),
        ("one kw_only default before a required field", {}, [("a", int), ("b", int, F(default=5, kw_only=True)), ("c", int)]),
        ("positional default and kw_only required", {}, [("a", int), ("b", int, F(default=5)), ("c", int, F(kw_only=True))]),
        ("kw_only defaults only", dict(kw_only=True), [("a", int, F(default=1)), ("b", int, F(default=2))]),
        ("default_factory kw_only", {}, [("a", int), ("b", list, F(default_factory=list, kw_only=True))]),
    ]
    for label, opts, flds in specs:
        cls = _dc.make_dataclass("KW", flds, **opts)
        v = DataclassValidator(cls)
        names = [f[0] for f in flds]
        optional = {f[0] for f in flds if len(f) == 3}
        sample = {n: ([] if any(f[0] == n and f[1] is list for f in flds) else 7) for n in names}
        for missing in [set()] + [{n} for n in names] + [set(optional)]:
            x = {k: val for k, val in sample.items() if k not in missing}
            for mode in ("sync", "async"):
                r = v(x) if mode == "sync" else drive(v.validate_async(x))
                lacking = sorted(missing - optional)
                if not lacking:
                    try:
                        want = cls(**x)
                    except Exception:  # noqa
                        continue
                    if type(r) is not Valid or r.val != want:
                        return {"signature": "C04:kw-only-requiredness",
                                "what": f"dataclass ({label}) given {x!r} ({mode}): only defaulted fields are absent, expected Valid({want!r}), got {r!r}"}
                else:
                    ok = type(r) is Invalid and type(r.err_type) is KeyErrs and sorted(r.err_type.keys) == lacking and \
                        all(type(e.err_type) is MissingKeyErr for e in r.err_type.keys.values())
                    if not ok:
                        return {"signature": "C04:kw-only-requiredness",
                                "what": f"dataclass ({label}) given {x!r} ({mode}): the required field(s) {lacking} are absent, expected exactly their missing-key errors, got {r!r}"}
    return None


def run(tier: str, rng: random.Random, proof_ok: bool) -> dict:
    rep = run_families("C04", cases(tier, rng), rng, oracle, nontrivial)
    kwo = kw_only_dataclasses()
    if kwo:
        rep["violations"].append({"kind": "oracle", **kwo, "replay_case": {"kw_only_dataclasses": True}})
    osp = object_stage_payload("C04")
    if osp:
        rep["violations"].append({"kind": "oracle", **osp, "replay_case": {"object_stage_payload": True}})
    from .C13 import check_interleavings
    from ..lang import to_json
    n_sets = n_sched = 0
    seen = False
    for vt, xts in overlap_sets(rng, tier):
        try:
            r, c = check_interleavings(vt, [], xts, 400 if tier == "quick" else 20000)
        except HarnessError:
            continue
        n_sets += 1
        n_sched += c
        if r and not seen:
            seen = True
            rep["violations"].append({"kind": "oracle", "signature": "C04:overlapping-validations",
                                      "what": "overlapping async validations on one record validator: " + r["what"],
                                      "replay_case": {"v": to_json(vt), "inputs": [to_json(x) for x in xts], "interleaving": True}})
    rep["coverage"]["overlapping_input_sets"] = n_sets
    rep["coverage"]["schedules"] = n_sched
    return rep


def replay(path: str) -> int:
    import json
    from ..lang import from_json
    j = json.load(open(path))
    rc = j.get("replay_case") or {}
    if rc.get("kw_only_dataclasses"):
        r = kw_only_dataclasses()
        print("property violated: " + r["what"] if r else "property holds for dataclasses with keyword-only fields")
        return 1 if r else 0
    if rc.get("object_stage_payload"):
        r = object_stage_payload("C04")
        print("property violated: " + r["what"] if r else "property holds: whole-object checks see the payload")
        return 1 if r else 0
    if rc.get("interleaving"):
        from .C13 import check_interleavings
        r, _ = check_interleavings(from_json(rc["v"]), [], [from_json(x) for x in rc["inputs"]], 100000)
        print("property violated on these overlapping validations: " + r["what"] if r else "property holds on these overlapping validations")
        return 1 if r else 0
    return generic_replay(path, oracle)


from ..facts import attach as _attach, typechecks as _typechecks  # noqa: E402
_attach(globals(), _typechecks.obligation("C04"))
