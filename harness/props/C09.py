"""C09 - validate_signature delivers validated values, is strict and transparent."""
from __future__ import annotations

import dataclasses
import inspect
import json
import os
import random
from typing import Any, Dict, List, Optional

import koda_validate.signature as SG
from koda_validate import Valid

from ..build import HarnessError
from ..lang import N, P, coq
from . import C08
from . import sigcommon as SC

ROOT = os.path.dirname(os.path.dirname(os.path.dirname(os.path.abspath(__file__))))
from ..rundir import GEN as _GEN  # noqa: E402
ASSUMPTIONS = C08.ASSUMPTIONS + [
    "payload comparison on the implementation is by equality and type (containers and records may be rebuilt copies)",
    "strictness under the default resolution is checked on the derivation in signature mode (C07's grammar and type oracle) - see the strict family",
]
EXTRA_PROOF_FILES = ["generated/Facts_sig.v"]
TRUSTED_EXTRA = ["fact translator harness/facts/sigfacts.py (python ast) regenerates coq/generated/Facts_sig.v from /repo on every run: both wrappers are functools.wraps(func), every call site passes *ok_args, **ok_kw_args, the async wrapper is an awaited async def chosen by iscoroutinefunction"]


def regenerate_facts():
    from ..facts import sigfacts
    try:
        d = sigfacts.emit(os.environ.get("KV_REPO", "/repo"), os.path.join(_GEN, "Facts_sig.v"))
        if d["bad"]:
            return True, "signature wrapper facts no longer hold: " + "; ".join(f"{a} [{c}]" for a, _, c in d["bad"][:4])
        return True, ""
    except Exception as e:
        return False, f"signature fact extractor failed: {e}"


def same(a: Any, b: Any) -> bool:
    if a is b:
        return True
    try:
        if type(a) is type(b) and (a == b or (a != a and b != b)):
            return True
    except Exception:  # noqa - sNaN comparisons raise
        return repr(a) == repr(b)
    if type(a) is not type(b):
        return False
    # opaque objects of the harness's own classes compare by identity; two separately built calls hold two
    # separately built objects for the same term - also inside containers
    if type(a) in (list, tuple):
        return len(a) == len(b) and all(same(x, y) for x, y in zip(a, b))
    if type(a) in (set, frozenset):
        rest = list(b)
        for x in a:
            i = next((i for i, y in enumerate(rest) if same(x, y)), None)
            if i is None:
                return False
            rest.pop(i)
        return not rest
    if type(a) is dict:
        return len(a) == len(b) and all(any(same(k, k2) and same(v, b[k2]) for k2 in b) for k, v in a.items())
    if dataclasses.is_dataclass(a) and not isinstance(a, type):
        return all(same(getattr(a, f.name), getattr(b, f.name)) for f in dataclasses.fields(a))
    if isinstance(a, tuple) and hasattr(a, "_fields"):
        return all(same(x, y) for x, y in zip(a, b))
    return (type(a).__module__ or "").startswith("harness") and repr(a) == repr(b)


def oracle(c: SC.SigCase) -> Optional[dict]:
    # transparency
    w = c.wrapped
    if w.__name__ != "original_name" or w.__doc__ != "the original docstring":
        return {"signature": "C09:metadata", "what": f"the decorated callable lost the original's name / docstring: {w.__name__!r}, {w.__doc__!r}"}
    if inspect.iscoroutinefunction(w) != c.deco["is_async"]:
        return {"signature": "C09:coroutine-ness", "what": "the decorated callable's coroutine-ness differs from the original's"}
    sp = SC.spec(c)
    if sp["abort"] or sp["failing"] or not c.ran:
        return None
    a, k = c.rec[0]
    if len(a) != len(sp["args"]) or list(k) != list(sp["kwargs"]):
        return {"signature": "C09:argument-shape", "what": f"the body received {len(a)} positional / keywords {list(k)}, the call had {len(sp['args'])} / {list(sp['kwargs'])}"}
    for i, (got, want) in enumerate(zip(a, sp["args"])):
        if not same(got, want):
            return {"signature": "C09:positional-not-payload",
                    "what": f"positional argument {i}: the body received {got!r}, the validator's payload (or the untouched value) is {want!r}"}
    for name in k:
        if not same(k[name], sp["kwargs"][name]):
            return {"signature": "C09:keyword-not-payload",
                    "what": f"keyword argument {name}: the body received {k[name]!r}, the validator's payload (or the untouched value) is {sp['kwargs'][name]!r}"}
    # positional-or-keyword parameters: the same value either way
    positional = [p for p in c.deco["params"] if p["kind"] in ("PosOnly", "PosOrKw")]
    n = min(len(c.pargs), len(positional))
    if n and positional[n - 1]["kind"] == "PosOrKw":
        p = positional[n - 1]
        c2 = SC.SigCase(c.deco, c.args[:n - 1] + c.args[n:], c.kwargs + [P(N(p["name"]), c.args[n - 1])], c.body)
        if len(c.pargs) == n:        # no *args items behind it
            try:
                SC.observe(c2)
            except HarnessError:
                return None
            if c2.ran:
                got = c2.rec[0][1].get(SC.pname(p["name"]))
                if not same(got, a[n - 1]):
                    return {"signature": "C09:passing-style", "what": f"parameter {SC.pname(p['name'])} is delivered as {a[n-1]!r} when passed positionally and {got!r} when passed by keyword"}
            elif type(c2.exc) is not SC.BodyError and c2.exc is not None:
                return {"signature": "C09:passing-style", "what": f"the call is accepted with {SC.pname(p['name'])} passed positionally but ends with {c2.exc!r} when it is passed by keyword"}
    return None


def strict_family(rng: random.Random, n: int) -> dict:
    """Default resolution: `def f(a: T) -> T` for C07's annotation grammar, called with conforming values and
    their coercible look-alikes. Accepted iff the argument already is a value of T; the body sees an equal value;
    the call returns what the undecorated function returns."""
    from . import C07
    from koda_validate.signature import InvalidArgsError, InvalidReturnError, validate_signature
    out = {"violations": [], "ran": 0, "accepted": 0, "rejected": 0}
    seen = set()
    cases = [c for c in C07.gen_cases(rng, n)]
    for c in cases:
        if C07.uses_annotated(c.a):
            continue
        try:
            b = C07.Built(c.classes, c.a, True, rng)
            px = C07.to_py(c.x, b.ct)
        except HarnessError:
            continue
        except Exception:  # noqa
            continue
        rec = []

        def f(a):
            rec.append(a)
            return a
        f.__annotations__ = {"a": b.T, "return": b.T}
        try:
            w = validate_signature(f)
        except Exception as e:  # noqa
            continue
        typed = C07.is_value(c.a, px, b, extra_ok=True)
        res = exc = None
        try:
            res = w(px)
        except BaseException as e:  # noqa
            exc = e
        out["ran"] += 1
        r = None
        if typed:
            out["accepted"] += 1
            if exc is not None:
                r = ("C09:strict-rejects-value", f"{px!r} is a value of {b.T!r} but the call ended with {type(exc).__name__}")
            elif not rec or not C07.deep_same(rec[0], px) and C07.is_value(c.a, px, b):
                if rec and C07.typeddict_in_union(c.a) and C07.is_value(c.a, rec[0], b):
                    r = ("C09:typeddict-variant-strips-keys",
                         f"a union with a TypedDict variant: the argument {px!r} is a value of a later variant, an earlier TypedDict variant accepted it and the body saw it without its undeclared keys: {rec[0]!r}")
                else:
                    r = ("C09:strict-body-value", f"the body saw {rec[:1]!r} for the argument {px!r}")
            elif res is not rec[0]:
                r = ("C09:strict-return", "the call did not return what the function returned")
        else:
            out["rejected"] += 1
            if type(exc) is not InvalidArgsError:
                r = ("C09:strict-coerced", f"{px!r} is not a value of {b.T!r}, yet the call {'returned' if exc is None else 'ended with ' + type(exc).__name__}; the body saw {rec[:1]!r}")
        if r and r[0] not in seen:
            seen.add(r[0])
            out["violations"].append({"kind": "oracle", "signature": r[0], "what": r[1], "replay_case": {"strict": c.to_json()}})
    return out


def probe_known(k: dict) -> bool:
    w = k.get("witness")
    if not w:
        return False
    from . import C07
    from koda_validate.signature import validate_signature
    try:
        c = C07.tcase_from_json(w)
        b = C07.Built(c.classes, c.a, True)
        px = C07.to_py(c.x, b.ct)
        rec = []

        def f(a):
            rec.append(a)
            return a
        f.__annotations__ = {"a": b.T}
        validate_signature(f)(px)
        return bool(rec) and C07.is_value(c.a, px, b) and not C07.deep_same(rec[0], px) and C07.is_value(c.a, rec[0], b)
    except Exception:  # noqa
        return False


def shared_config() -> Optional[str]:
    """One configured decorator - one ignore set, one overrides dict - applied to several functions: every function
    is wrapped as if it had been given its own copies (untouched arguments stay untouched for all of them) and the
    caller's configuration objects are not modified."""
    from koda_validate import IntValidator, StringValidator, strip
    from koda_validate.signature import InvalidArgsError, validate_signature
    from ..corr import drive
    for is_async in (False, True):
        ign = {"debug", "extra"}
        ovr = {"label": StringValidator(preprocessors=[strip])}
        ign0, ovr0 = set(ign), dict(ovr)
        deco = validate_signature(ignore_args=ign, overrides=ovr)
        seen: List[Any] = []

        def mk(n):
            if is_async:
                async def f(x: int, debug: int = 0, *, label: str = "l", **kw: int):
                    seen.append((n, x, debug, label, kw))
                    return x
            else:
                def f(x: int, debug: int = 0, *, label: str = "l", **kw: int):    # type: ignore
                    seen.append((n, x, debug, label, kw))
                    return x
            f.__annotations__ = {"x": int, "debug": int, "label": str, "kw": int}     # real types, not the strings PEP 563 leaves
            return f
        fs = [deco(mk(n)) for n in range(3)]
        for n, w in enumerate(fs):
            del seen[:]
            try:
                r = w(1, "not an int", label=" t ", extra="also untouched")
                if is_async:
                    r = drive(r)
            except InvalidArgsError as e:
                return (f"the {n + 1}. function wrapped by one validate_signature(ignore_args={ign0!r}, ...) rejected arguments "
                        f"that are to be passed through untouched: {e!r}"[:500])
            if seen != [(n, 1, "not an int", "t", {"extra": "also untouched"})]:
                return f"the {n + 1}. function wrapped by one configured decorator received {seen!r}"
        if ign != ign0 or ovr != ovr0:
            return f"the caller's configuration objects were modified: ignore_args {ign0!r} -> {ign!r}, overrides keys {sorted(ovr0)} -> {sorted(ovr)}"
    return None


def odd_equality_arguments() -> Optional[str]:
    """Strictness does not depend on what an argument claims to equal: a value whose __eq__ says yes to everything (or
    raises, or answers with a list) is not None and not an int - it is rejected before the body runs, as an argument
    and (for `-> None` / `-> Optional[int]`) as a return value."""
    import typing
    from koda_validate.signature import InvalidArgsError, InvalidReturnError, validate_signature
    from ..corr import drive
    from .hist import _AlwaysEqual, _EqNotBool, _EqRaises
    anns = [("Optional[int]", typing.Optional[int]), ("None", None), ("List[Optional[int]]", typing.List[typing.Optional[int]]),
            ("Union[None, str]", typing.Union[None, str])]
    for is_async in (False, True):
        for label, T in anns:
            for val in (_AlwaysEqual(), _EqRaises(), _EqNotBool()):
                x = [val] if label.startswith("List") else val
                ran: list = []
                if is_async:
                    async def f(a):
                        ran.append(a)
                        return a
                else:
                    def f(a):  # type: ignore[misc]
                        ran.append(a)
                        return a
                f.__annotations__ = {"a": T}
                try:
                    r = validate_signature(f)(x)
                    r = drive(r) if is_async else r
                    exc = None
                except BaseException as e:  # noqa
                    r, exc = None, e
                if type(exc) is not InvalidArgsError or ran:
                    return (f"{'async ' if is_async else ''}f(a: {label}) called with {x!r}: expected InvalidArgsError before the body runs; "
                            f"ended with {exc!r}, returned {r!r}, the body saw {ran!r}")
                # as a return value
                if is_async:
                    async def g():
                        return x
                else:
                    def g():  # type: ignore[misc]
                        return x
                g.__annotations__ = {"return": T}
                try:
                    r = validate_signature(g)()
                    r = drive(r) if is_async else r
                    exc = None
                except BaseException as e:  # noqa
                    r, exc = None, e
                if type(exc) is not InvalidReturnError:
                    return f"{'async ' if is_async else ''}g() -> {label} returning {x!r}: expected InvalidReturnError; ended with {exc!r}, the caller got {r!r}"
    return None


def run(tier: str, rng: random.Random, proof_ok: bool) -> dict:
    rep = C08.run(tier, rng, proof_ok, oracle_fn=oracle, name="C09")
    nr = C08.none_results_and_opaque_annotations("C09")
    if nr:
        rep["violations"].append({"kind": "oracle", **nr, "replay_case": {"none_results": True}})
    oe = odd_equality_arguments()
    if oe:
        rep["violations"].append({"kind": "oracle", "signature": "C09:odd-equality", "what": oe, "replay_case": {"odd_equality": True}})
    sc = shared_config()
    if sc:
        rep["violations"].append({"kind": "oracle", "signature": "C09:shared-configuration", "what": sc, "replay_case": {"shared_config": True}})
    st = strict_family(rng, 900 if tier == "quick" else 12000)
    rep["violations"] += st["violations"]
    rep["coverage"]["strict_family"] = {k: st[k] for k in ("ran", "accepted", "rejected")}
    rep["coverage"]["evaluations"] += st["ran"]
    return rep


def replay(path: str) -> int:
    j = json.load(open(path))
    cj = j.get("replay_case") or {}
    if cj.get("none_results"):
        r = C08.none_results_and_opaque_annotations("C09")
        print("property violated: " + r["what"] if r else "property holds for None results and overridden opaque annotations")
        return 1 if r else 0
    if cj.get("odd_equality"):
        r = odd_equality_arguments()
        print("property violated: " + r if r else "property holds for arguments with unusual equality")
        return 1 if r else 0
    if cj.get("shared_config"):
        r = shared_config()
        print("property violated: " + r if r else "property holds for a configured decorator applied to several functions")
        return 1 if r else 0
    if "strict" in cj:
        from . import C07
        from koda_validate.signature import validate_signature
        c = C07.tcase_from_json(cj["strict"])
        b = C07.Built(c.classes, c.a, True)
        px = C07.to_py(c.x, b.ct)
        rec = []

        def f(a):
            rec.append(a)
            return a
        f.__annotations__ = {"a": b.T, "return": b.T}
        typed = C07.is_value(c.a, px, b, extra_ok=True)
        try:
            res, exc = validate_signature(f)(px), None
        except BaseException as e:  # noqa
            res, exc = None, e
        print("annotation:", b.T, "| argument:", repr(px), "| is a value of the type:", typed)
        print("body saw:", rec[:1], "| exception:", repr(exc)[:200])
        bad = (typed and exc is not None) or (not typed and type(exc).__name__ != "InvalidArgsError") or \
            (typed and exc is None and C07.is_value(c.a, px, b) and not C07.deep_same(rec[0], px))
        print("property violated on this input" if bad else "property holds on this input")
        return 1 if bad else 0
    return C08.replay(path, oracle_fn=oracle)
