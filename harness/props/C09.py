"""C09 - validate_signature delivers validated values, is strict and transparent."""
from __future__ import annotations

import inspect
import json
import os
import random
from typing import Any, Dict, List, Optional

import koda_validate.signature as SG
from koda_validate import Valid

from ..build import HarnessError
from ..lang import N, P, coq
from . import C08
from . import sigcommon as SC

ROOT = os.path.dirname(os.path.dirname(os.path.dirname(os.path.abspath(__file__))))
ASSUMPTIONS = C08.ASSUMPTIONS + [
    "payload comparison on the implementation is by equality and type (containers and records may be rebuilt copies)",
    "strictness under the default resolution is checked on the derivation in signature mode (C07's grammar and type oracle) - see the strict family",
]
EXTRA_PROOF_FILES = ["generated/Facts_sig.v"]
TRUSTED_EXTRA = ["fact translator harness/facts/sigfacts.py (python ast) regenerates coq/generated/Facts_sig.v from /repo on every run: both wrappers are functools.wraps(func), every call site passes *ok_args, **ok_kw_args, the async wrapper is an awaited async def chosen by iscoroutinefunction"]


def regenerate_facts():
    from ..facts import sigfacts
    try:
        d = sigfacts.emit(os.environ.get("KV_REPO", "/repo"), os.path.join(ROOT, "coq", "generated", "Facts_sig.v"))
        if d["bad"]:
            return True, "signature wrapper facts no longer hold: " + "; ".join(f"{a} [{c}]" for a, _, c in d["bad"][:4])
        return True, ""
    except Exception as e:
        return False, f"signature fact extractor failed: {e}"


def same(a: Any, b: Any) -> bool:
    if a is b:
        return True
    try:
        return type(a) is type(b) and (a == b or (a != a and b != b))
    except Exception:  # noqa - sNaN comparisons raise
        return repr(a) == repr(b)


def oracle(c: SC.SigCase) -> Optional[dict]:
    # transparency
    w = c.wrapped
    if w.__name__ != "original_name" or w.__doc__ != "the original docstring":
        return {"signature": "C09:metadata", "what": f"the decorated callable lost the original's name / docstring: {w.__name__!r}, {w.__doc__!r}"}
    if inspect.iscoroutinefunction(w) != c.deco["is_async"]:
        return {"signature": "C09:coroutine-ness", "what": "the decorated callable's coroutine-ness differs from the original's"}
    sp = SC.spec(c)
    if sp["abort"] or sp["failing"] or not c.ran:
        return None
    a, k = c.rec[0]
    if len(a) != len(sp["args"]) or list(k) != list(sp["kwargs"]):
        return {"signature": "C09:argument-shape", "what": f"the body received {len(a)} positional / keywords {list(k)}, the call had {len(sp['args'])} / {list(sp['kwargs'])}"}
    for i, (got, want) in enumerate(zip(a, sp["args"])):
        if not same(got, want):
            return {"signature": "C09:positional-not-payload",
                    "what": f"positional argument {i}: the body received {got!r}, the validator's payload (or the untouched value) is {want!r}"}
    for name in k:
        if not same(k[name], sp["kwargs"][name]):
            return {"signature": "C09:keyword-not-payload",
                    "what": f"keyword argument {name}: the body received {k[name]!r}, the validator's payload (or the untouched value) is {sp['kwargs'][name]!r}"}
    # positional-or-keyword parameters: the same value either way
    positional = [p for p in c.deco["params"] if p["kind"] in ("PosOnly", "PosOrKw")]
    n = min(len(c.pargs), len(positional))
    if n and positional[n - 1]["kind"] == "PosOrKw":
        p = positional[n - 1]
        c2 = SC.SigCase(c.deco, c.args[:n - 1] + c.args[n:], c.kwargs + [P(N(p["name"]), c.args[n - 1])], c.body)
        if len(c.pargs) == n:        # no *args items behind it
            try:
                SC.observe(c2)
            except HarnessError:
                return None
            if c2.ran:
                got = c2.rec[0][1].get(SC.pname(p["name"]))
                if not same(got, a[n - 1]):
                    return {"signature": "C09:passing-style", "what": f"parameter {SC.pname(p['name'])} is delivered as {a[n-1]!r} when passed positionally and {got!r} when passed by keyword"}
            elif type(c2.exc) is not SC.BodyError and c2.exc is not None:
                return {"signature": "C09:passing-style", "what": f"the call is accepted with {SC.pname(p['name'])} passed positionally but ends with {c2.exc!r} when it is passed by keyword"}
    return None


def run(tier: str, rng: random.Random, proof_ok: bool) -> dict:
    return C08.run(tier, rng, proof_ok, oracle_fn=oracle, name="C09")


def replay(path: str) -> int:
    return C08.replay(path, oracle_fn=oracle)
