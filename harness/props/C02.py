"""C02 - scalar validators: exact type, then coercion/processors, then all predicates."""
from __future__ import annotations

import random
from typing import List, Optional

from koda_validate import Invalid, Valid
from koda_validate.errors import CoercionErr, PredicateErrs, TypeErr

from .. import gen as G
from ..corr import Case, drive
from ..lang import N, P, Some
from .common import generic_replay, merge_reports, run_families, std_case
from .hist import overlap_violation, replay_special

ASSUMPTIONS = [
    "user coercers/processors/predicates are total functions (env fields in the theorems)",
    "stdlib parsers behind default coercers are oracles (see C16)",
]
from ..facts import effects as _effects  # noqa: E402
_FX = _effects.obligation("C02")
EXTRA_PROOF_FILES = [_FX[0]]
TRUSTED_EXTRA = [_FX[1]]
regenerate_facts = _FX[2]


def cases(tier: str, rng: random.Random) -> List[Case]:
    out: List[Case] = []
    n_random = 700 if tier == "quick" else 12000
    # (a) every kind x coercer setting x a fixed ladder of configurations x a value pool
    pool = G.HOSTILE
    for kind in G.KINDS:
        cos = [None, Some(("CoUser", N(0))), Some(("CoUser", N(1))), Some(("CoUser", N(2)))]
        if kind in G.DEFAULT_CO:
            cos.append(Some((G.DEFAULT_CO[kind],)))
        for co in cos:
            v = ("Scalar", (kind,), co, [], [], [])
            xs = G.KIND_POOL[kind] + rng.sample(pool, 10 if tier == "quick" else 40)
            for x in xs:
                for m in ("sync", "async"):
                    out.append(std_case(v, x, m, tag="a:gate"))
    # TypeValidator over classes and builtins
    for t in [("TClass", N(G.C_PLAIN)), ("TClass", N(G.C_STR)), ("TInt",), ("TDict",), ("TClass", N(G.C_DATA))]:
        v = ("Scalar", ("KType", t), None, [], [("PUser", N(0))], [])
        for x in [G.OBJ, G.STRSUB, G.I(1), G.TRUE, ("VDict", []), G.DICTSUB, G.S("a"),
                  ("VObj", N(G.C_DATA), [P(G.S("a"), G.I(1)), P(G.S("b"), G.I(5))])]:
            for m in ("sync", "async"):
                out.append(std_case(v, x, m, tag="a:typev"))
    # TypeValidator with a coercer and nothing else configured (the coercer decides, not the exact-type fast path)
    for t in [("TInt",), ("TClass", N(G.C_PLAIN)), ("TDict",)]:
        for co in (Some(("CoUser", N(0))), Some(("CoUser", N(1))), Some(("CoUser", N(5)))):
            v = ("Scalar", ("KType", t), co, [], [], [])
            for x in [G.OBJ, G.I(1), G.TRUE, G.S("a"), G.S("1"), ("VDict", []), G.NONE, G.F1]:
                for m in ("sync", "async"):
                    out.append(std_case(v, x, m, tag="a:typev-coerce"))
    # several type validators for different types in one tree (each names its own type when it rejects)
    tv = lambda t_, ps=(): ("Scalar", ("KType", t_), None, [], list(ps), [])
    TI, TS, TD = ("TInt",), ("TStr",), ("TDict",)
    for vv in (("NTupleV", [tv(TI, [("PUser", N(0))]), tv(TS), tv(TD)], None, Some(("CoTupleOrList",))),
               ("UnionV", [tv(TI, [("PUser", N(0))]), tv(TS, [("PUser", N(0))]), tv(("TClass", N(G.C_PLAIN)))]),
               ("DictAnyV", [P(G.S("a"), tv(TI, [("PUser", N(0))])), P(G.S("b"), tv(TS))], None, None, False)):
        for x in (("VTuple", [G.S("x"), G.I(1), G.I(2)]), ("VTuple", [G.I(1), G.S("x"), ("VDict", [])]), G.F1, G.NONE,
                  ("VDict", [P(G.S("a"), G.S("no")), P(G.S("b"), G.I(3))]), ("VDict", [P(G.S("a"), G.I(1)), P(G.S("b"), G.S("ok"))])):
            for m in ("sync", "async"):
                out.append(std_case(vv, x, m, tag="a:typev-many"))
    # equality and None validators
    for mt in [G.I(1), G.TRUE, G.F1, G.D1, G.S("a"), G.B(b"a"), G.DATE1, G.DT1, G.UUID1, G.I(0), G.FALSE, G.F0, G.FN0]:
        for pre in ([], [("ProcUser", N(1))]):
            v = ("EqualsV", mt, pre)
            for x in [G.I(1), G.TRUE, G.F1, G.D1, G.S("a"), G.B(b"a"), G.DATE1, G.DT1, G.UUID1, G.I(0),
                      G.FALSE, G.F0, G.FN0, G.INTSUB, G.STRSUB, G.NONE, G.DTA, G.D10]:
                out.append(std_case(v, x, rng.choice(["sync", "async"]), tag="a:equals"))
    for co in [None, Some(("CoUser", N(0))), Some(("CoUser", N(1))), Some(("CoUser", N(5)))]:
        for x in [G.NONE, G.FALSE, G.I(0), G.S(""), ("VDict", []), G.NOTHING]:
            for m in ("sync", "async"):
                out.append(std_case(("NoneV", co), x, m, tag="a:none"))
    # all orders of 0-3 processors / 0-3 failing-or-passing predicates on strings and ints
    procs = [("Strip",), ("Upper",), ("ProcUser", N(1)), ("ProcUser", N(2))]
    for k in range(0, 4):
        combos = [tuple(rng.choice(procs) for _ in range(k)) for _ in range(6 if tier == "quick" else 40)]
        for pre in set(combos):
            ps = [("PNotBlank",), ("PMaxLength", 3), ("PStartsWith", G.S("A")), ("PUser", N(2))]
            rng.shuffle(ps)
            aps = [("APred", N(1)), ("APred", N(2))] if rng.random() < 0.5 else []
            v = ("Scalar", ("KStr",), None, list(pre), ps[: rng.choice([1, 2, 3, 4])], aps)
            for x in [G.S(" ab "), G.S("  "), G.S("abcd"), G.S("a"), G.I(1), G.STRSUB]:
                for m in ("sync", "async"):
                    out.append(std_case(v, x, m, tag="a:pipeline"))
    # (b) random configurations with mostly-valid, corrupted and hostile inputs
    for _ in range(n_random):
        v = G.gen_scalar(rng)
        r = rng.random()
        if r < 0.55:
            x = G.valid_input(v, rng, [])
            tag = "b:valid"
        elif r < 0.75:
            x = G.corrupt(G.valid_input(v, rng, []), rng)
            tag = "b:corrupt"
        else:
            x = rng.choice(G.HOSTILE)
            tag = "c:hostile"
        for m in ("sync", "async"):
            out.append(std_case(v, x, m, tag=tag))
    return out


def _same(a, b) -> bool:
    """Equal values of the same runtime types (recursively, via the term form)."""
    from ..build import from_py, HarnessError, _CURRENT_CT
    try:
        return from_py(a, _CURRENT_CT[0]) == from_py(b, _CURRENT_CT[0])
    except HarnessError:
        return a is b


def oracle(c: Case) -> Optional[dict]:
    """The right-hand side of C02 recomputed from the configuration objects."""
    v = c.vobj
    t = c.v[0]
    if t == "EqualsV":
        return _oracle_equals(c)
    if t == "NoneV":
        return _oracle_none(c)
    if t != "Scalar":
        return _oracle_nested_type_errors(c)
    aps = v.predicates_async or []
    if c.mode == "sync" and aps:
        if type(c.exc) is AssertionError:
            return None
        return {"signature": "C02:sync-ran-with-async-predicates",
                "what": "sync call returned although async-only predicates are configured"}
    if c.exc is not None:
        # an exception is C01's business unless it is the assertion without async predicates
        if type(c.exc) is AssertionError:
            return {"signature": "C02:assert-without-async", "what": "AssertionError without async predicates"}
        return None
    val = c.px
    exp = None
    try:
        if v.coerce:
            r = v.coerce(val)
            if not r.is_just:
                exp = ("invalid", CoercionErr(v.coerce.compatible_types, v._TYPE), val, True)
            else:
                val = r.val
        elif type(val) is not v._TYPE:
            exp = ("invalid", TypeErr(v._TYPE), val, True)
        if exp is None:
            for p in (v.preprocessors or []):
                val = p(val)
            errs = [p for p in v.predicates if not p(val)]
            if c.mode == "async":
                for p in aps:
                    if not drive(p.validate_async(val)):
                        errs.append(p)
            exp = ("invalid", PredicateErrs(errs), val, False) if errs else ("valid", val)
    except Exception:
        return None   # the pipeline itself raised: C01
    got = c.raw
    if exp[0] == "valid":
        if type(got) is Valid and _same(got.val, exp[1]):
            return None
        return {"signature": "C02:accept-mismatch",
                "what": f"expected Valid({exp[1]!r}) from the gate/processors/predicates, got {got!r}"}
    _, err, value, by_id = exp
    if type(got) is not Invalid:
        return {"signature": "C02:reject-mismatch", "what": f"expected Invalid({err!r}), got {got!r}"}
    ge = got.err_type
    ok = type(ge) is type(err) and got.validator is v
    if ok and isinstance(err, PredicateErrs):
        ok = len(ge.predicates) == len(err.predicates) and all(a is b for a, b in zip(ge.predicates, err.predicates))
        ok = ok and _same(got.value, value)
    elif ok:
        ok = ge == err and got.value is value
    if not ok:
        return {"signature": "C02:reject-mismatch",
                "what": f"expected Invalid({err!r}, {value!r}), got {got!r}"}
    return None


def _invalid_nodes(inv, depth: int = 0):
    """Every Invalid below (and including) [inv] in a result tree."""
    from koda_validate.errors import ContainerErr, IndexErrs, KeyErrs, MapErr, SetErrs, UnionErrs
    if type(inv) is not Invalid or depth > 40:
        return
    yield inv
    e = inv.err_type
    kids = []
    if type(e) is IndexErrs:
        kids = list(e.indexes.values())
    elif type(e) is KeyErrs:
        kids = list(e.keys.values())
    elif type(e) is UnionErrs:
        kids = list(e.variants)
    elif type(e) is SetErrs:
        kids = list(e.item_errs)
    elif type(e) is ContainerErr:
        kids = [e.child]
    elif type(e) is MapErr:
        for kv in e.keys.values():
            kids += [k for k in (kv.key, kv.val) if k is not None]
    for k in kids:
        yield from _invalid_nodes(k, depth + 1)


def _oracle_nested_type_errors(c: Case) -> Optional[dict]:
    """Scalar validators inside a composed tree: a type error names the type of the validator that raised it
    (each instance its own - nothing about it may be shared between instances of one validator class)."""
    if c.exc is not None or type(c.raw) is not Invalid:
        return None
    for n in _invalid_nodes(c.raw):
        t_ = getattr(n.validator, "_TYPE", None)
        if type(n.err_type) is TypeErr and isinstance(t_, type) and n.validator.coerce is None \
                and n.err_type.expected_type is not t_:
            return {"signature": "C02:type-error-names-another-type",
                    "what": f"{n.validator!r} rejected {n.value!r} with {n.err_type!r}; its own type is {t_!r}"}
    return None


def _oracle_equals(c: Case) -> Optional[dict]:
    v, x = c.vobj, c.px
    if c.exc is not None:
        return None
    got = c.raw
    if type(x) is not type(v.match):
        ok = (type(got) is Invalid and type(got.err_type) is TypeErr
              and got.err_type.expected_type is type(v.match) and got.value is x and got.validator is v)
        return None if ok else {"signature": "C02:equals-type",
                                "what": f"EqualsValidator({v.match!r}) given {x!r} of another exact type returned {got!r}"}
    try:
        val = x
        for p in (v.preprocessors or []):
            val = p(val)
        eq = val == v.match
    except Exception:
        return None
    if eq:
        ok = type(got) is Valid and _same(got.val, val)
    else:
        ok = (type(got) is Invalid and type(got.err_type) is PredicateErrs and got.validator is v
              and _same(got.value, val))
    return None if ok else {"signature": "C02:equals-value",
                            "what": f"EqualsValidator({v.match!r})({x!r}) returned {got!r}"}


def _oracle_none(c: Case) -> Optional[dict]:
    v, x = c.vobj, c.px
    if c.exc is not None:
        return None
    got = c.raw
    if v.coerce:
        try:
            accept = v.coerce(x).is_just
        except Exception:
            return None
    else:
        accept = x is None
    if accept:
        ok = type(got) is Valid and got.val is None
    else:
        ok = type(got) is Invalid and got.value is x and got.validator is v and \
            type(got.err_type) is (CoercionErr if v.coerce else TypeErr)
    return None if ok else {"signature": "C02:none", "what": f"NoneValidator({x!r}) returned {got!r}"}


def nontrivial(c: Case) -> bool:
    return c.v[0] != "Scalar" or bool(c.v[2] or c.v[3] or c.v[4] or c.v[5]) or c.obs[0] == "OValid"


def overlaps(tier: str, rng: random.Random):
    """Every failing predicate is reported to the call it failed for, also while other calls on the
    same validator object are suspended in their own async predicates."""
    import itertools
    fam = [
        (("Scalar", ("KInt",), None, [], [("PMin", G.I(1), False)], [("APred", N(2)), ("APred", N(3))]),
         [G.I(5), G.I(0), G.I(4), G.I(-3)]),
        (("Scalar", ("KStr",), None, [("Strip",)], [("PMaxLength", 3)], [("APred", N(2)), ("APred", N(3))]),
         [G.S(" a "), G.S("abcd"), G.S("ab"), G.S("")]),
        (("Scalar", ("KDecimal",), Some(("CoDecimal",)), [], [], [("APred", N(1)), ("APred", N(0))]),
         [G.S("1.5"), G.D1, G.I(3)]),
    ]
    bad, n_sets, n_sched = [], 0, 0
    for vt, alpha in fam:
        for k in (2, 3):
            for xts in itertools.product(alpha, repeat=k):
                if k == 3 and rng.random() < (0.8 if tier == "quick" else 0.0):
                    continue
                n_sets += 1
                v, c = overlap_violation("C02", vt, [], list(xts), 300 if tier == "quick" else 2500)
                n_sched += c
                if v and not bad:
                    bad.append(v)
    return bad, n_sets, n_sched


def truthiness_predicates() -> Optional[dict]:
    """"every predicate holds": a user-written predicate that answers with a falsy value that is not False (None from
    a failed re.match, 0 from a remainder, '' from an and-chain) fails, one that answers with a truthy non-bool holds -
    sync and async predicates alike, in declaration order."""
    from koda_validate import IntValidator, ListValidator, Predicate, PredicateAsync, StringValidator

    class P_(Predicate):            # type: ignore
        def __init__(self, name, fn):
            self.name, self.fn = name, fn
        def __call__(self, val):
            return self.fn(val)
        def __repr__(self):
            return f"<pred {self.name}>"

    class A_(PredicateAsync):       # type: ignore
        def __init__(self, name, fn):
            self.name, self.fn = name, fn
        async def validate_async(self, val):
            return self.fn(val)
        def __repr__(self):
            return f"<async pred {self.name}>"
    import re as _re
    fns = [("re.match", lambda v: _re.match("a+", str(v))), ("remainder", lambda v: (v % 2) if isinstance(v, int) else len(str(v)) % 2),
           ("and-chain", lambda v: str(v) and str(v)[:1].isupper() and "yes"), ("lookup", lambda v: {1: [], "Ab": {"k": 1}, "aa": [0]}.get(v)),
           ("always None", lambda v: None), ("always 1", lambda v: 1)]
    for mk, xs in ((lambda ps, aps: IntValidator(*ps, predicates_async=aps), [1, 2, 3]),
                   (lambda ps, aps: StringValidator(*ps, predicates_async=aps), ["aa", "Ab", "", "b"])):
        for x in xs:
            for mode in ("sync", "async"):
                ps = [P_(n, f) for n, f in fns]
                aps = [A_(n, f) for n, f in fns] if mode == "async" else None
                v = mk(ps, aps)
                got = v(x) if mode == "sync" else drive(v.validate_async(x))
                want = [p for p in ps if not p.fn(x)] + [p for p in (aps or []) if not p.fn(x)]
                listed = list(got.err_type.predicates) if type(got) is Invalid and type(got.err_type) is PredicateErrs else []
                if (not want and type(got) is not Valid) or len(listed) != len(want) or any(a is not b for a, b in zip(listed, want)):
                    return {"signature": "C02:predicate-truthiness",
                            "what": f"{v!r} ({mode}) on {x!r}: the predicates answering with a falsy value are {want!r}; the result is {got!r}"}
    return None


def run(tier: str, rng: random.Random, proof_ok: bool) -> dict:
    rep = run_families("C02", cases(tier, rng), rng, oracle, nontrivial)
    bad, n_sets, n_sched = overlaps(tier, rng)
    rep["violations"] += bad
    rep["coverage"]["overlapping_call_sets"] = n_sets
    rep["coverage"]["schedules"] = n_sched
    tp = truthiness_predicates()
    if tp:
        rep["violations"].append({"kind": "oracle", **tp, "replay_case": {"truthiness_predicates": True}})
    return rep


def replay(path: str) -> int:
    import json
    rc = json.load(open(path)).get("replay_case")
    if isinstance(rc, dict) and rc.get("truthiness_predicates"):
        tp = truthiness_predicates()
        print("property violated: " + tp["what"] if tp else "property holds for predicates answering with non-bool values")
        return 1 if tp else 0
    r = replay_special(rc, "C02") if isinstance(rc, dict) else None
    return r if r is not None else generic_replay(path, oracle)


from ..facts import attach as _attach, typechecks as _typechecks  # noqa: E402
_attach(globals(), _typechecks.obligation("C02"))
