"""C16 - default coercions accept exactly the declared sources and parse like the stdlib."""
from __future__ import annotations

import os
import random
from datetime import date, datetime, timedelta, timezone
from decimal import Decimal, InvalidOperation
from typing import Any, List, Optional
from uuid import UUID

from koda_validate import Invalid, Valid
from koda_validate.errors import CoercionErr, PredicateErrs

from .. import gen as G
from ..build import from_py
from ..corr import Case
from ..facts import coercers
from ..lang import N, P, Some, freeze
from .common import generic_replay, run_families, std_case

ROOT = os.path.dirname(os.path.dirname(os.path.dirname(os.path.abspath(__file__))))
from ..rundir import GEN as _GEN  # noqa: E402
EXTRA_PROOF_FILES = ["generated/Facts_coercers.v"]
ASSUMPTIONS = [
    "the stdlib constructors (Decimal, UUID, date/datetime.fromisoformat) are oracles: each case carries the real result of the real constructor",
    "round-trip of canonical text: proved for UUIDs and dates against the concrete text model of Model/Text.v (which is compared with the stdlib on every run); UUIDs, dates and datetimes with whole-second offsets are covered; for Decimal it is a stdlib property that is sampled, not proved",
    "treatment of subclasses of the *source* types (str subclasses, bool as int) is outside the claim",
]
TRUSTED_EXTRA = ["fact translator harness/facts/coercers.py (python ast) regenerates coq/generated/Facts_coercers.v from /repo on every run"]


def regenerate_facts():
    try:
        d = coercers.emit(os.environ.get("KV_REPO", "/repo"), os.path.join(_GEN, "Facts_coercers.v"))
        if d["_bad"]:
            return True, "coercer shape differs from the model: " + repr(d["_bad"][:2])
        return True, ""
    except Exception as e:
        return False, f"coercer extractor failed: {e}"


V = {k: ("Scalar", (k,), Some((G.DEFAULT_CO[k],)), [], [], []) for k in G.DEFAULT_CO}
TUP = ("UTupleV", ("AlwaysValid",), [], [], Some(("CoTupleOrList",)))
TUP_EQ = ("UTupleV", ("AlwaysValid",), [("PEqualTo", ("VTuple", [G.I(1), G.I(2)]))], [], Some(("CoTupleOrList",)))
TUP_CH = ("UTupleV", ("AlwaysValid",), [("PChoices", [("VTuple", [G.I(1), G.I(2)])])], [("APred", N(0))], Some(("CoTupleOrList",)))
NTUP = ("NTupleV", [("AlwaysValid",), ("AlwaysValid",)], None, Some(("CoTupleOrList",)))


def target_values(rng: random.Random, n: int) -> dict:
    decs = [Decimal(s) for s in ("0", "-0", "1", "1.0", "1.50", "1E+3", "NaN", "-NaN", "sNaN", "Infinity", "-Infinity",
                                 "1e1000", "123456789012345678901234567890.123456789", "0E-10")]
    dates = [date.min, date.max, date(2020, 2, 29), date(1999, 12, 31)]
    dts = [datetime.min, datetime.max, datetime(2020, 1, 2, 3, 4, 5, 678901), datetime(2020, 1, 2, 3, 4, 5),
           datetime(2020, 1, 2, 3, 4, 5, 1, tzinfo=timezone.utc),
           datetime(2020, 1, 2, 3, 4, 5, tzinfo=timezone(timedelta(hours=-5, minutes=-30)))]
    import uuid as U_
    uuids = [UUID(int=0), UUID(int=2 ** 128 - 1), U_.uuid1(node=1, clock_seq=2), U_.uuid3(U_.NAMESPACE_DNS, "a"),
             U_.uuid5(U_.NAMESPACE_DNS, "a"), UUID("12345678-1234-4678-9234-567812345678")]
    for _ in range(n):
        decs.append(Decimal(rng.randrange(-10 ** 12, 10 ** 12)).scaleb(rng.randrange(-8, 8)))
        dates.append(date.fromordinal(rng.randrange(1, date.max.toordinal())))
        dts.append(datetime.min + timedelta(microseconds=rng.randrange(0, 10 ** 17)))
        uuids.append(UUID(int=rng.getrandbits(128)))
    return {"KDecimal": decs, "KDate": dates, "KDatetime": dts, "KUuid": uuids}


def texts(kind: str, val: Any) -> List[str]:
    if kind == "KDecimal":
        s = str(val)
        return [s, " " + s + " ", s.replace("1", "1_") if "1" in s else s, s.lower(), "+" + s, s + "e0", "١٢", s + "x", ""]
    if kind == "KUuid":
        s = str(val)
        return [s, s.upper(), "{" + s + "}", "urn:uuid:" + s, s.replace("-", ""), val.urn, s[:-1], s + "0", " " + s, s.replace("-", "", 1)]
    if kind == "KDate":
        s = val.isoformat()
        return [s, s.replace("-", ""), s + "T00:00:00", " " + s, s[:-1], s.replace("-", "/"), str(val)]
    s = val.isoformat()
    return [s, s.replace("T", " "), str(val), s.replace("-", "").replace(":", ""), s + "Z", s[:10], s + " ", s.replace("T", "t")]


def cases(tier: str, rng: random.Random) -> List[Case]:
    out: List[Case] = []
    tv = target_values(rng, 4 if tier == "quick" else 60)
    others = [x for x in G.HOSTILE]
    for kind, vals in tv.items():
        v = V[kind]
        for val in vals:
            t = from_py(val, None)
            out.append(std_case(v, t, rng.choice(["sync", "async"]), tag="a:target-instance"))
            for s in texts(kind, val):
                out.append(std_case(v, G.S(s), rng.choice(["sync", "async"]), tag="a:text"))
            if kind == "KDecimal" and val.is_finite() and val == val.to_integral_value() and abs(val) < 10 ** 30:
                out.append(std_case(v, G.I(int(val)), "sync", tag="a:int-source"))
        for x in others:
            out.append(std_case(v, x, rng.choice(["sync", "async"]), tag="c:other-types"))
        # every other kind's target values and texts are wrong sources here
        for k2, vals2 in tv.items():
            if k2 != kind:
                for val in vals2[:4]:
                    out.append(std_case(v, from_py(val, None), "sync", tag="c:other-target"))
    # the default coercer together with a predicate that holds: what is returned is still what the constructor built
    for kind, vals in tv.items():
        vp = ("Scalar", (kind,), Some((G.DEFAULT_CO[kind],)), [], [("PUser", N(0))], [])
        for val in vals[:6]:
            out.append(std_case(vp, from_py(val, None), "sync", tag="a:target-instance"))
            for s_ in texts(kind, val)[:3]:
                for m in ("sync", "async"):
                    out.append(std_case(vp, G.S(s_), m, tag="a:text"))
            if kind == "KDecimal" and val.is_finite() and val == val.to_integral_value() and abs(val) < 10 ** 30:
                out.append(std_case(vp, G.I(int(val)), "sync", tag="a:int-source"))
    for x in others + [("VList", [G.I(1), G.S("a")]), ("VTuple", [G.I(1), G.S("a")]), ("VList", []), ("VTuple", []), G.LISTSUB]:
        for m in ("sync", "async"):
            out.append(std_case(TUP, x, m, tag="a:tuple"))
            if m == "async" or TUP_CH[3] == []:
                out.append(std_case(TUP_CH, x, m, tag="a:tuple"))
            out.append(std_case(TUP_EQ, x, m, tag="a:tuple"))
            out.append(std_case(NTUP, x, m, tag="a:tuple"))
    return out


def _same_value(a: Any, b: Any) -> bool:
    return type(a) is type(b) and freeze(from_py(a, None)) == freeze(from_py(b, None))


def oracle(c: Case) -> Optional[dict]:
    """Compare with the stdlib constructor itself."""
    if c.v[0] in ("UTupleV", "NTupleV") and c.exc is None:
        return _oracle_tuple(c)
    if c.v[0] != "Scalar" or c.exc is not None:
        return None
    kind = c.v[1][0]
    x, got, v = c.px, c.raw, c.vobj
    T = {"KDecimal": Decimal, "KUuid": UUID, "KDate": date, "KDatetime": datetime}[kind]
    declared = {"KDecimal": {str, int, Decimal}, "KUuid": {str, UUID}, "KDate": {str, date}, "KDatetime": {str, datetime}}[kind]
    exp = "reject"
    if type(x) is T:
        exp = ("same", x)
    elif kind == "KDecimal" and type(x) in (str, int):
        try:
            exp = ("value", Decimal(x))
        except InvalidOperation:
            pass
    elif type(x) is str:
        try:
            exp = ("value", {"KUuid": UUID, "KDate": date.fromisoformat, "KDatetime": datetime.fromisoformat}[kind](x))
        except ValueError:
            pass
    elif isinstance(x, (str, int)) and type(x) not in (str, int):
        return None      # subclasses of the source types: outside the claim
    if exp == "reject":
        ok = type(got) is Invalid and type(got.err_type) is CoercionErr and got.value is x and got.validator is v \
            and got.err_type.compatible_types == declared and got.err_type.dest_type is T
        return None if ok else {"signature": f"C16:{kind}:not-rejected",
                                "what": f"{T.__name__} validator given {x!r} ({type(x).__name__}): expected CoercionErr({declared!r}), got {got!r}"}
    if exp[0] == "same":
        ok = type(got) is Valid and got.val is x
        return None if ok else {"signature": f"C16:{kind}:target-not-unchanged",
                                "what": f"an instance of exactly {T.__name__} must be returned unchanged; {x!r} gave {got!r}"}
    ok = type(got) is Valid and _same_value(got.val, exp[1])
    return None if ok else {"signature": f"C16:{kind}:parse-differs",
                            "what": f"{T.__name__} validator given {x!r}: the stdlib constructor returns {exp[1]!r}, got {got!r}"}


def _oracle_tuple(c: Case) -> Optional[dict]:
    """Tuple validators with the default coercer and items that accept anything: a tuple as it is, a list as the
    tuple the constructor builds from it - that tuple is what arity and predicates are about - nothing else."""
    from ..corr import drive
    x, got, v = c.px, c.raw, c.vobj
    if type(x) is tuple:
        t = x
    elif type(x) is list:
        t = tuple(x)
    else:
        if isinstance(x, (list, tuple)):
            return None      # subclasses of the source types: outside the claim
        ok = type(got) is Invalid and type(got.err_type) is CoercionErr and got.value is x and got.validator is v \
            and got.err_type.compatible_types == {list, tuple}
        return None if ok else {"signature": "C16:tuple:not-rejected",
                                "what": f"tuple validator given {x!r} ({type(x).__name__}): expected CoercionErr({{list, tuple}}), got {got!r}"}
    try:
        if c.v[0] == "NTupleV":
            fails = [] if len(t) == len(v.fields) else ["arity"]
        else:
            fails = [p for p in (v.predicates or []) if not p(t)]
            if c.mode == "async":
                fails += [p for p in (v.predicates_async or []) if not drive(p.validate_async(t))]
    except Exception:  # noqa
        return None
    if fails:
        ok = type(got) is Invalid and type(got.err_type) is PredicateErrs and got.validator is v and _same_value(got.value, t)
        return None if ok else {"signature": "C16:tuple:not-rejected-by-predicates",
                                "what": f"{v!r} given {x!r}: as a tuple it is {t!r}, which fails {fails!r}; got {got!r}"}
    ok = type(got) is Valid and _same_value(got.val, t)
    return None if ok else {"signature": "C16:tuple:not-accepted",
                            "what": f"{v!r} given {x!r}: the tuple {t!r} passes arity and predicates and must be the payload; got {got!r}"}


def roundtrip(rng: random.Random, tier: str) -> List[dict]:
    """validating str(x) / x.isoformat() of a target-type value yields x"""
    from ..build import Ctx
    bad: List[dict] = []
    ctx = Ctx(G.STD_CLASSES, [])
    objs = {k: ctx.validator(v) for k, v in V.items()}
    tv = target_values(rng, 30 if tier == "quick" else 500)
    for kind, vals in tv.items():
        for val in vals:
            forms = [str(val)] + ([val.isoformat()] if kind in ("KDate", "KDatetime") else []) + ([val.urn] if kind == "KUuid" else [])
            for s in forms:
                r = objs[kind](s)
                if not (type(r) is Valid and _same_value(r.val, val)):
                    bad.append({"kind": "oracle", "signature": f"C16:{kind}:roundtrip",
                                "what": f"validating {s!r} (canonical text of {val!r}) gave {r!r}", "replay_case": None})
                    break
    return bad[:3]


def text_model(rng: random.Random, tier: str) -> List[dict]:
    """Model/Text.v against CPython: str(UUID) = uuid_str, UUID(s) against uuid_parse (sound everywhere, exact on
    texts made of hex digits, dashes and braces), Decimal(int) = dec_of_int, date.isoformat = date_iso,
    date.toordinal = ymd2ord, date.fromisoformat against date_parse (sound everywhere), datetime.isoformat =
    datetime_iso, the value = dt_us, datetime.fromisoformat against datetime_parse (sound everywhere).  The round-trip theorems
    C16_uuid_roundtrip / C16_date_roundtrip are about these definitions; this family is what ties them to the stdlib."""
    from concurrent.futures import ThreadPoolExecutor
    from ..corr import GEN, HEADER, run_coq_file
    from ..lang import coq
    n_u = 40 if tier == "quick" else 600
    ints = [0, 1, 15, 16, 2 ** 128 - 1, 2 ** 127, 2 ** 64, 0x12345678123456781234567812345678, 0xABCDEFABCDEFABCDEFABCDEFABCDEFAB]
    ints += [rng.getrandbits(128) for _ in range(n_u)] + [rng.getrandbits(rng.randrange(1, 128)) for _ in range(n_u // 2)]
    lines: List[tuple] = []
    zl = lambda s_: "[" + "; ".join(str(ord(ch)) for ch in s_) + "]"
    for n in ints:
        lines.append((f"(uuid_str ({n}))", zl(str(UUID(int=n))), f"str(UUID(int={n}))"))
    alphabet = "0123456789abcdefABCDEF-{}"
    hostile = alphabet + "gGuxX_ +:\u0663\uff11\n"
    strs: List[str] = []
    for n in ints[: max(12, n_u // 2)]:
        u = UUID(int=n)
        strs += texts("KUuid", u)
        s_ = str(u)
        strs += ["{" + s_, s_ + "}", "{{" + s_ + "}}", "}" + s_ + "{", "-" + s_, s_ + "-", "--".join(s_.split("-")), u.hex.upper(),
                 s_[:8] + "{" + s_[8:], "0x" + u.hex[2:], "+" + u.hex[1:], u.hex[:15] + "_" + u.hex[16:], " " + u.hex[1:], "uuid:" + s_,
                 "urn:" + s_, u.hex + "-" * 5, "", "-", "{}", u.hex[:31], u.hex + "0"]
        for _ in range(4):
            t = list(s_)
            for _ in range(rng.randrange(1, 4)):
                k = rng.randrange(0, len(t) + 1)
                op = rng.randrange(3)
                pool = alphabet if rng.random() < 0.7 else hostile
                if op == 0 and t:
                    t[min(k, len(t) - 1)] = rng.choice(pool)
                elif op == 1:
                    t.insert(k, rng.choice(pool))
                elif t:
                    del t[min(k, len(t) - 1)]
            strs.append("".join(t))
    n_some = 0
    for s_ in strs:
        try:
            py = UUID(s_).int
            n_some += 1
        except ValueError:
            py = None
        lines.append((f"(uuid_agree {zl(s_)} {'None' if py is None else '(Some (' + str(py) + '))'})", "true", f"UUID({s_!r}) -> {py!r}"))
    for z in [0, 1, -1, 10, -10, 255, 10 ** 30, -(10 ** 30), 2 ** 70] + [rng.randrange(-10 ** 20, 10 ** 20) for _ in range(n_u // 2)]:
        lines.append((f"(dec_of_int ({z}))", coq(from_py(Decimal(z), None)), f"Decimal({z})"))
    # dates: isoformat / toordinal / fromisoformat against date_iso / ymd2ord / date_parse
    n_d = 60 if tier == "quick" else 1500
    dts_ = [date.min, date.max, date(2020, 2, 29), date(2000, 2, 29), date(1900, 2, 28), date(1900, 3, 1), date(2100, 3, 1), date(400, 12, 31), date(401, 1, 1),
            date(1999, 12, 31), date(4, 2, 29), date(100, 3, 1), date(9999, 1, 1), date(1, 12, 31), date(2, 1, 1)]
    dts_ += [date(y_, m_, 1) for y_ in (1, 99, 100, 400, 1600, 1900, 2000, 2024, 9999) for m_ in range(1, 13)]
    dts_ += [date(y_, m_, 28) + timedelta(days=k_) for y_ in (1900, 2000, 2023, 2024) for m_ in (2, 4, 12) for k_ in (0, 1, 2) if (y_, m_, k_) != (9999, 12, 2)]
    dts_ += [date.fromordinal(rng.randrange(1, date.max.toordinal() + 1)) for _ in range(n_d)]
    for dt_ in dts_:
        lines.append((f"(date_iso {dt_.year} {dt_.month} {dt_.day})", zl(dt_.isoformat()), f"date({dt_.year}, {dt_.month}, {dt_.day}).isoformat()"))
        lines.append((f"(ymd2ord {dt_.year} {dt_.month} {dt_.day})", f"({dt_.toordinal()})", f"date({dt_.year}, {dt_.month}, {dt_.day}).toordinal()"))
    dalpha = "0123456789-"
    dstrs: List[str] = ["", "-", "0000-01-01", "0001-01-01", "9999-12-31", "10000-01-01", "2020-02-30", "2021-02-29", "1900-02-29", "2000-02-29", "2020-13-01",
                        "2020-00-10", "2020-01-00", "2020-01-32", "2020-04-31", "2020-1-01", "2020-01-1", "20200101", "2020-0101", "202001-01", "2020-W01-1", "2020-001",
                        "2020/01/01", "2020-01-01 ", " 2020-01-01", "2020-01-01T00:00:00", "\u0662\u0660\u0662\u0660-01-01", "2020-01-0\u0661", "+020-01-01", "2020--1-01", "2020-01-01-"]
    for dt_ in dts_[: max(25, n_d // 2)]:
        s_ = dt_.isoformat()
        dstrs += [s_, s_.replace("-", ""), s_[:-1], s_ + "0"]
        for _ in range(3):
            t = list(s_)
            for _ in range(rng.randrange(1, 3)):
                k = rng.randrange(0, len(t) + 1)
                op = rng.randrange(3)
                pool = dalpha if rng.random() < 0.8 else hostile
                if op == 0 and t:
                    t[min(k, len(t) - 1)] = rng.choice(pool)
                elif op == 1:
                    t.insert(k, rng.choice(pool))
                elif t:
                    del t[min(k, len(t) - 1)]
            dstrs.append("".join(t))
    n_dsome = 0
    for s_ in dstrs:
        try:
            py = date.fromisoformat(s_).toordinal()
            n_dsome += 1
        except ValueError:
            py = None
        lines.append((f"(date_agree {zl(s_)} {'None' if py is None else '(Some (' + str(py) + '))'})", "true", f"date.fromisoformat({s_!r}) -> ordinal {py!r}"))
    # datetimes: isoformat against datetime_iso, the value against dt_us, fromisoformat against datetime_parse
    def _dt_fields(x):
        off = x.utcoffset()
        return f"{x.year} {x.month} {x.day} {x.hour} {x.minute} {x.second} {x.microsecond}", ("None" if off is None else f"(Some ({int(off.total_seconds())}))")

    def _dt_val(x):
        t_ = from_py(x, None)
        return t_[1], (None if t_[2] is None else t_[2].x)
    tzs = [None, timezone.utc, timezone(timedelta(hours=-5, minutes=-30)), timezone(timedelta(hours=14)), timezone(timedelta(hours=-12)),
           timezone(timedelta(minutes=1)), timezone(timedelta(minutes=-1)), timezone(timedelta(hours=23, minutes=59)), timezone(timedelta(hours=-23, minutes=-59)),
           timezone(timedelta(seconds=1)), timezone(timedelta(seconds=-1)), timezone(timedelta(hours=1, minutes=1, seconds=1)),
           timezone(timedelta(hours=-23, minutes=-59, seconds=-59)), timezone(timedelta(hours=23, minutes=59, seconds=59)), timezone(timedelta(seconds=-3599))]
    dtl = [datetime.min, datetime.max, datetime(2020, 1, 2, 3, 4, 5, 678901), datetime(2020, 1, 2, 3, 4, 5), datetime(2020, 2, 29, 23, 59, 59, 999999),
           datetime(1, 1, 1, 0, 0, 0, 1), datetime(9999, 12, 31, 0, 0, 0), datetime(2000, 2, 29, 12, 0, 0, 100000), datetime(1900, 3, 1, 0, 0, 1, 10)]
    dtl += [x.replace(tzinfo=z) for x in dtl[2:6] for z in tzs[1:]]
    for _ in range(n_d):
        x = datetime.min + timedelta(microseconds=rng.randrange(0, 315537897599999999))
        if rng.random() < 0.4:
            x = x.replace(microsecond=0)
        z = rng.choice(tzs + [timezone(timedelta(minutes=rng.randrange(-1439, 1440))), timezone(timedelta(seconds=rng.randrange(-86399, 86400)))])
        dtl.append(x.replace(tzinfo=z))
    for x in dtl:
        fl, tzs_ = _dt_fields(x)
        us_, _ = _dt_val(x)
        lines.append((f"(datetime_iso {fl} {tzs_})", zl(x.isoformat()), f"{x!r}.isoformat()"))
        lines.append((f"(dt_us {fl})", f"({us_})", f"wall-clock microseconds of {x!r}"))
    talpha = "0123456789-:T.+"
    tstrs: List[str] = ["2020-01-02T03:04:05", "2020-01-02 03:04:05", "2020-01-02t03:04:05", "2020-01-02T03:04", "2020-01-02T03", "2020-01-02", "2020-01-02T03:04:05.5",
                        "2020-01-02T03:04:05.000000", "2020-01-02T03:04:05.1234567", "2020-01-02T03:04:05,123456", "2020-01-02T24:00:00", "2020-01-02T23:60:00",
                        "2020-01-02T23:59:60", "2020-01-02T03:04:05Z", "2020-01-02T03:04:05+00:00", "2020-01-02T03:04:05-00:00", "2020-01-02T03:04:05+24:00",
                        "2020-01-02T03:04:05+23:59", "2020-01-02T03:04:05+01:60", "2020-01-02T03:04:05+0100", "2020-01-02T03:04:05+01", "2020-01-02T03:04:05+01:00:30", "2020-01-02T03:04:05-00:00:01", "2020-01-02T03:04:05+01:00:60", "2020-01-02T03:04:05+01:00:3", "2020-01-02T03:04:05+01:00:30.5",
                        "2020-01-02T03:04:05.000007-05:30", "20200102T030405", "2020-02-30T00:00:00", "0000-01-01T00:00:00", "2020-01-02T03:04:5", "2020-01-02T3:04:05",
                        "2020-01-02T03:04:05 ", " 2020-01-02T03:04:05", "2020-01-02T03:04:05.\u0661\u0662\u0663456", "2020-01-02T03:04:05+\u0660\u0661:00", ""]
    for x in dtl[: max(25, n_d // 2)]:
        s_ = x.isoformat()
        tstrs += [s_, s_.replace("T", " "), s_[:-1], s_ + "0"]
        for _ in range(3):
            t = list(s_)
            for _ in range(rng.randrange(1, 3)):
                k = rng.randrange(0, len(t) + 1)
                op = rng.randrange(3)
                pool = talpha if rng.random() < 0.8 else hostile
                if op == 0 and t:
                    t[min(k, len(t) - 1)] = rng.choice(pool)
                elif op == 1:
                    t.insert(k, rng.choice(pool))
                elif t:
                    del t[min(k, len(t) - 1)]
            tstrs.append("".join(t))
    n_tsome = 0
    for s_ in tstrs:
        try:
            px = datetime.fromisoformat(s_)
            off = px.utcoffset()
            if off is not None and off.total_seconds() != int(off.total_seconds()):
                continue                                       # sub-second offsets are outside the model's value space
            us_, tz_ = _dt_val(px)
            py = f"(Some (({us_}), {'None' if tz_ is None else '(Some (' + str(tz_) + '))'}))"
            n_tsome += 1
        except ValueError:
            py = "None"
        lines.append((f"(datetime_agree {zl(s_)} {py})", "true", f"datetime.fromisoformat({s_!r})"))
    TEXT_STATS.update({"datetimes_printed_and_counted": len(dtl), "datetime_texts_parsed": len(tstrs), "of_which_accepted_by_datetime_fromisoformat": n_tsome})
    TEXT_STATS.update({"dates_printed_and_counted": len(dts_), "date_texts_parsed": len(dstrs), "of_which_accepted_by_fromisoformat": n_dsome})
    os.makedirs(GEN, exist_ok=True)
    hdr = HEADER.replace("Corr.Check.", "Corr.Check Model.Text.")
    files = []
    per = 400
    for k in range(0, len(lines), per):
        chunk = lines[k:k + per]
        path = os.path.join(GEN, f"cases_C16text_p{os.getpid()}_{k // per}.v")
        body = [hdr, "Goal True.\n"] + [f"  chk_eq {i}%nat {lhs} {rhs}.\n" for i, (lhs, rhs, _) in enumerate(chunk)] + ["exact I. Qed.\n"]
        open(path, "w").write("".join(body))
        files.append((path, chunk))
    with ThreadPoolExecutor(max_workers=8) as ex:
        results = list(ex.map(lambda fc: run_coq_file(fc[0]), files))
    bad: List[dict] = []
    for (path, chunk), (status, mm, raw) in zip(files, results):
        if status != "ok":
            bad.append({"kind": "correspondence", "signature": None,
                        "what": f"correspondence file {os.path.basename(path)} failed to evaluate", "log": raw[-1500:]})
        for idx, model in mm[:3]:
            bad.append({"kind": "correspondence", "signature": None,
                        "what": "correspondence family 'C16-text' no longer checks: the text model (Model/Text.v) and the stdlib differ on "
                                + chunk[idx][2], "model_outcome": model[:600], "replay_case": None})
        if status == "ok" and not mm:
            for ext in (".v", ".vo", ".vok", ".vos", ".glob"):
                try:
                    os.remove(path[:-2] + ext)
                except OSError:
                    pass
    TEXT_STATS.update({"uuid_printed": len(ints), "uuid_texts_parsed": len(strs), "of_which_accepted_by_the_stdlib": n_some})
    return bad[:4]


TEXT_STATS: dict = {}


def nontrivial(c: Case) -> bool:
    return c.tag.startswith("a:")


def run(tier: str, rng: random.Random, proof_ok: bool) -> dict:
    rep = run_families("C16", cases(tier, rng), rng, oracle, nontrivial)
    rep["violations"] += roundtrip(rng, tier)
    rep["violations"] += text_model(rng, tier)
    rep["coverage"]["text_model_against_stdlib"] = dict(TEXT_STATS)
    return rep


def replay(path: str) -> int:
    return generic_replay(path, oracle)


from ..facts import attach as _attach, typechecks as _typechecks  # noqa: E402
_attach(globals(), _typechecks.obligation("C16"))
