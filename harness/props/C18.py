"""C18 - composition laws: verdicts are context-free and refinement only narrows."""
from __future__ import annotations

import random
from typing import Any, List, Optional

from koda import Just
from koda_validate import Invalid, Valid
from koda_validate import errors as KE

from .. import gen as G
from ..build import HarnessError
from ..corr import Case, drive, observe
from ..lang import N, P, Some, freeze
from .C03 import _canon, _inv_eq, _same
from .common import generic_replay, run_families, std_case

ASSUMPTIONS = ["KeyNotRequired is a key marker: it is only placed in key position"]
from ..facts import effects as _effects  # noqa: E402
_FX = _effects.obligation("C18")
EXTRA_PROOF_FILES = [_FX[0]]
TRUSTED_EXTRA = [_FX[1]]
regenerate_facts = _FX[2]
KEY = G.S("k")

CONTEXTS = ["list", "utuple", "ntuple", "set", "mapval", "mapvalstrip", "mapkey", "dictany", "record", "class", "named2", "record2", "maybe", "lazy",
            "optional", "union1", "union2", "cache"]
STRIPK = ("Scalar", ("KStr",), None, [("Strip",)], [], [])


def wrap(ctx: str, v, x, rng):
    """(wrapped validator, wrapped input, lazy table)"""
    if ctx == "list":
        return ("ListV", v, [], [], None), ("VList", [x]), []
    if ctx == "utuple":
        return ("UTupleV", v, [], [], None), ("VTuple", [x]), []
    if ctx == "ntuple":
        return ("NTupleV", [v], None, None), ("VTuple", [x]), []
    if ctx == "set":
        return ("SetV", v, [], [], None), ("VSet", [x]), []
    if ctx == "mapval":
        return ("MapV", ("AlwaysValid",), v, [], [], None), ("VDict", [P(KEY, x)]), []
    if ctx == "mapvalstrip":
        # the key validator normalises the key: the value's verdict still sits at the key as the caller wrote it
        return ("MapV", STRIPK, v, [], [], None), ("VDict", [P(G.S(" k "), x)]), []
    if ctx == "mapkey":
        return ("MapV", v, ("AlwaysValid",), [], [], None), ("VDict", [P(x, G.I(0))]), []
    if ctx == "dictany":
        return ("DictAnyV", [P(KEY, v)], None, None, False), ("VDict", [P(KEY, x)]), []
    if ctx == "record":
        return ("RecordV", [P(KEY, v)], N(0), None, None, False), ("VDict", [P(KEY, x)]), []
    if ctx == "class":
        return (("ClassV", ("RkData",), N(G.C_SLOTS), [P(G.S("a"), P(v, True))], None, None, False, None),
                ("VDict", [P(G.S("a"), x)]), [])
    if ctx == "named2":
        # the last of three fields, the optional one before it absent: the value still lands in its own field
        INTV_ = ("Scalar", ("KInt",), None, [], [], [])
        return (("ClassV", ("RkNamed",), N(G.C_NAMED2), [P(G.S("x"), P(INTV_, True)), P(G.S("y"), P(INTV_, False)), P(G.S("z"), P(v, False))],
                 None, None, False, None), ("VDict", [P(G.S("x"), G.I(1)), P(G.S("z"), x)]), [])
    if ctx == "record2":
        # two optional keys with different validators: each key is checked by its own
        REJ = ("UserV", N(4), False)
        return (("RecordV", [P(G.S("k"), ("KeyNotRequired", v)), P(G.S("j"), ("KeyNotRequired", REJ))], N(2), None, None, False),
                ("VDict", [P(G.S("k"), x)]), [])
    if ctx == "maybe":
        return ("MaybeV", v), ("VJust", x), []
    if ctx == "lazy":
        return ("LazyV", N(0), True), x, [v]
    if ctx == "optional":
        return ("OptionalV", ("NoneV", None), v), x, []
    if ctx == "union1":
        return ("UnionV", [v]), x, []
    if ctx == "union2":
        return ("UnionV", [("UserV", N(4), False), v]), x, []
    if ctx == "cache":
        return ("CacheV", v), x, []
    raise KeyError(ctx)


def cases(tier: str, rng: random.Random) -> List[Case]:
    out: List[Case] = []
    n = 260 if tier == "quick" else 6000
    for _ in range(n):
        v = G.gen_validator(rng, rng.choice([0, 0, 1, 2]))
        x = G.valid_input(v, rng, [])
        r = rng.random()
        if r < 0.3:
            x = G.corrupt(x, rng)
        elif r < 0.4:
            x = rng.choice(G.HOSTILE)
        m = rng.choice(["sync", "async"])
        ctxs = rng.sample(CONTEXTS, 4 if tier == "quick" else 8)
        for c1 in ctxs:
            if c1 in ("set", "mapkey") and not G.is_hashable_term(x):
                continue
            wv, wx, lazy = wrap(c1, v, x, rng)
            cs = std_case(wv, wx, m, lazy=lazy, tag="a:ctx:" + c1)
            cs.extra = {"ctxs": [G.S(c1)]}
            out.append(cs)
            if rng.random() < 0.4:      # depth 2
                c2 = rng.choice([c for c in CONTEXTS if c != "lazy"])
                if c2 in ("set", "mapkey") and not G.is_hashable_term(wx):
                    continue
                wv2, wx2, lazy2 = wrap(c2, wv, wx, rng)
                cs2 = std_case(wv2, wx2, m, lazy=lazy or lazy2, tag="a:ctx2:" + c2 + "/" + c1)
                cs2.extra = {"ctxs": [G.S(c2), G.S(c1)]}
                out.append(cs2)
    # a present member whose value is None is a member like any other (both entry points, nesting)
    INTV = ("Scalar", ("KInt",), None, [], [], [])
    none_ok = [("OptionalV", ("NoneV", None), INTV), ("NoneV", None), ("AlwaysValid",), ("UnionV", [("NoneV", None), INTV]), INTV]
    for v in none_ok:
        for x in (G.NONE, G.I(1), G.S("s")):
            for c1 in ("record", "dictany", "class", "mapval", "list", "ntuple", "maybe"):
                for m in ("sync", "async"):
                    wv, wx, lazy = wrap(c1, v, x, rng)
                    cs = std_case(wv, wx, m, lazy=lazy, tag="a:ctx-none:" + c1)
                    cs.extra = {"ctxs": [G.S(c1)]}
                    out.append(cs)
                    c2 = rng.choice(["list", "record", "dictany", "optional", "cache", "union1"])
                    wv2, wx2, lazy2 = wrap(c2, wv, wx, rng)
                    cs2 = std_case(wv2, wx2, m, lazy=lazy or lazy2, tag="a:ctx2-none:" + c2 + "/" + c1)
                    cs2.extra = {"ctxs": [G.S(c2), G.S(c1)]}
                    out.append(cs2)
    # a record-class validator handed an instance reads it field by field: each field validator sees the
    # field's own value (context-free), whatever that value is
    for v, x in G.instance_cases(rng):
        for m in ("sync", "async"):
            out.append(std_case(v, x, m, tag="c:instances"))
    # an optional around an optional whose own "none" is customised: the outer accepts exactly None plus
    # whatever the inner optional accepts (an empty mapping, here)
    for v in (INTV, ("Scalar", ("KStr",), None, [("Strip",)], [], []), ("ListV", INTV, [], [], None)):
        for co in (5, 1, 0):
            inner_opt = ("OptionalV", ("NoneV", Some(("CoUser", N(co)))), v)
            for x in (("VDict", []), G.NONE, G.I(1), G.S(" s "), ("VList", [G.I(1)]), ("VDict", [P(G.S("a"), G.I(1))]), G.F1):
                for m in ("sync", "async"):
                    for wv, wx, ctxs in ((("OptionalV", ("NoneV", None), inner_opt), x, ["optional"]),
                                         (("ListV", ("OptionalV", ("NoneV", None), inner_opt), [], [], None), ("VList", [x]), ["list", "optional"])):
                        cs = std_case(wv, wx, m, tag="a:ctx-optopt:" + ctxs[0])
                        cs.extra = {"ctxs": [G.S(c_) for c_ in ctxs]}
                        out.append(cs)
    # refinement pairs: base validator and its refinement on the same input
    for _ in range(n):
        v = G.gen_validator(rng, rng.choice([0, 1, 2]))
        refined = refine(v, rng)
        if refined is None:
            continue
        x = G.valid_input(v, rng, [])
        if rng.random() < 0.3:
            x = G.corrupt(x, rng)
        m = rng.choice(["sync", "async"])
        a, b = std_case(v, x, m, tag="b:base"), std_case(refined, x, m, tag="b:refined")
        b.extra = {"base_term": v}
        out += [a, b]
    # look-alikes: adding a predicate / processor must not let subclasses and numeric look-alikes in
    look = [G.TRUE, G.FALSE, G.I(1), G.F1, G.D1, G.INTSUB, G.STRSUB, G.S("a"), G.B(b"a"), G.DATE1, G.DT1, G.UUID1, G.NONE]
    for kind in G.KINDS:
        base = ("Scalar", (kind,), None, [], [], [])
        for ref in (("Scalar", (kind,), None, [], [("PUser", N(0))], []),
                    ("Scalar", (kind,), None, [("ProcUser", N(0))], [], []),
                    ("Scalar", (kind,), None, [], [("PUser", N(0))], [("APred", N(0))])):
            for x in look:
                for m in ("sync", "async"):
                    a, b = std_case(base, x, m, tag="b:base"), std_case(ref, x, m, tag="b:refined")
                    b.extra = {"base_term": base}
                    out += [a, b]
    # unions of seven and eight variants (ends of the typed constructor's argument list)
    for v_, x_ in G.wide_union_cases():
        for m_ in ("sync", "async"):
            out.append(std_case(v_, x_, m_, tag="a:wide-union"))
    # a recursive-definition wrapper hands a failure through as it is - also when its target changed the value first
    LSTRP = ("Scalar", ("KStr",), None, [("Strip",)], [("PMinLength", 3)], [])
    LDEC = ("Scalar", ("KDecimal",), Some(("CoDecimal",)), [], [("PMin", G.D10, True)], [])
    for tgt, xs_ in ((LSTRP, [G.S("  a  "), G.S(" abc "), G.I(1)]), (LDEC, [G.S("0.5"), G.I(0), G.S("7")]),
                     (("ListV", LSTRP, [], [], Some(("CoUser", N(3)))), [("VTuple", [G.S(" a ")]), ("VList", [G.S(" abcd ")])])):
        for x_ in xs_:
            for m_ in ("sync", "async"):
                out.append(std_case(("LazyV", N(0), False), x_, m_, lazy=[tgt], tag="a:lazy-failure"))
                out.append(std_case(("ListV", ("LazyV", N(0), False), [], [], None), ("VList", [x_]), m_, lazy=[tgt], tag="a:lazy-failure"))
                out.append(std_case(("OptionalV", ("NoneV", None), ("LazyV", N(0), True)), x_, m_, lazy=[tgt], tag="a:lazy-failure"))
    # optionals whose none_validator is the user's own
    for v_, x_ in G.custom_none_cases():
        for m_ in ("sync", "async"):
            out.append(std_case(v_, x_, m_, tag="a:custom-none"))
    return out


def refine(v, rng):
    """Add a predicate / forbid unknown keys / make a key required."""
    c = v[0]
    if c == "Scalar":
        k = v[1][0]
        if k == "KType":
            return None
        p = rng.choice(G.typed_preds(k, rng))
        return ("Scalar", v[1], v[2], v[3], v[4] + [p], v[5])
    if c in ("ListV", "SetV", "UTupleV"):
        return (c, v[1], v[2] + [rng.choice(G.coll_preds(rng))], v[3], v[4])
    if c == "MapV":
        return (c, v[1], v[2], v[3] + [rng.choice(G.map_preds(rng))], v[4], v[5])
    if c == "RecordV" and not v[5]:
        return (c, v[1], v[2], v[3], v[4], True)
    if c == "DictAnyV":
        if not v[4] and rng.random() < 0.5:
            return (c, v[1], v[2], v[3], True)
        ks = list(v[1])
        for i, p in enumerate(ks):
            if p.b[0] == "KeyNotRequired":
                ks[i] = P(p.a, p.b[1])
                return (c, ks, v[2], v[3], v[4])
        return (c, v[1], v[2], v[3], True) if not v[4] else None
    if c == "ClassV" and not v[6]:
        return (c, v[1], v[2], v[3], v[4], v[5], True, v[7])
    return None


def _call(child: Any, mode: str, x: Any) -> Any:
    return child(x) if mode == "sync" else drive(child.validate_async(x))


def unwrap_obj(ctx: str, wv: Any, wx: Any):
    """(inner validator object, inner value object, how to read payload / error out)"""
    if ctx == "list":
        return wv.item_validator, wx[0]
    if ctx == "utuple":
        return wv.item_validator, wx[0]
    if ctx == "ntuple":
        return wv.fields[0], wx[0]
    if ctx == "set":
        return wv.item_validator, next(iter(wx))
    if ctx in ("mapval", "mapvalstrip"):
        return wv.value_validator, next(iter(wx.values()))
    if ctx == "mapkey":
        return wv.key_validator, next(iter(wx.keys()))
    if ctx == "dictany":
        return next(iter(wv.schema.values())), next(iter(wx.values()))
    if ctx == "record":
        return wv.keys[0][1], next(iter(wx.values()))
    if ctx == "class":
        return wv.schema["a"], wx["a"]
    if ctx == "named2":
        return wv.schema["z"], wx["z"]
    if ctx == "record2":
        return wv.keys[0][1].validator, wx["k"]
    if ctx == "maybe":
        return wv.validator, wx.val
    if ctx == "lazy":
        return wv.validator(), wx
    if ctx == "optional":
        return wv.non_none_validator, wx
    if ctx in ("union1",):
        return wv.validators[0], wx
    if ctx == "union2":
        return wv.validators[1], wx
    if ctx == "cache":
        return wv.validator, wx
    raise KeyError(ctx)


def inner_payload(ctx: str, payload: Any) -> Any:
    if ctx in ("list", "utuple", "ntuple"):
        return payload[0]
    if ctx == "set":
        return next(iter(payload))
    if ctx in ("mapval", "dictany", "mapvalstrip"):
        return next(iter(payload.values()))
    if ctx == "mapkey":
        return next(iter(payload.keys()))
    if ctx == "record":
        return payload[0]
    if ctx == "class":
        return payload.a
    if ctx == "named2":
        return payload.z
    if ctx == "record2":
        return payload[0].val          # into2 builds {0: Just(payload of k), 1: nothing}
    if ctx == "maybe":
        return payload.val
    return payload


def inner_error(ctx: str, inv: Any, wx: Any = None) -> Any:
    """the inner validator's error, read at the position the input has it (None when it is not there)"""
    e = inv.err_type
    if ctx in ("list", "utuple", "ntuple"):
        return e.indexes.get(0) if isinstance(e, KE.IndexErrs) and list(e.indexes) == [0] else None
    if ctx == "set":
        return e.item_errs[0] if isinstance(e, KE.SetErrs) and len(e.item_errs) == 1 else None
    if ctx in ("mapval", "mapvalstrip", "mapkey"):
        if not isinstance(e, KE.MapErr) or len(e.keys) != 1:
            return None
        k0 = next(iter(wx.keys())) if isinstance(wx, dict) and wx else None
        kv = next((v_ for k_, v_ in e.keys.items() if k_ is k0 or (type(k_) is type(k0) and k_ == k0)), None)
        if kv is None:
            return None
        return kv.key if ctx == "mapkey" else kv.val
    if ctx in ("dictany", "record", "class", "named2", "record2"):
        if ctx in ("named2", "record2"):
            key = "z" if ctx == "named2" else "k"
            return e.keys.get(key) if isinstance(e, KE.KeyErrs) and list(e.keys) == [key] else None
        if not isinstance(e, KE.KeyErrs) or len(e.keys) != 1:
            return None
        k0 = next(iter(wx.keys())) if isinstance(wx, dict) and wx else None
        return e.keys.get(k0) if k0 in e.keys else None
    if ctx == "maybe":
        return e.child if isinstance(e, KE.ContainerErr) else None
    if ctx == "optional":
        return e.variants[1] if isinstance(e, KE.UnionErrs) and len(e.variants) == 2 else None
    if ctx == "union1":
        return e.variants[0] if isinstance(e, KE.UnionErrs) and len(e.variants) == 1 else None
    if ctx == "union2":
        return e.variants[1] if isinstance(e, KE.UnionErrs) and len(e.variants) == 2 else None
    return inv      # lazy, cache: the inner error itself


def oracle(c: Case) -> Optional[dict]:
    ctx = c.ctx
    try:
        if c.tag.startswith("a:ctx"):
            if c.exc is not None:
                return None
            k = "".join(chr(z) for z in c.extra["ctxs"][0][1])
            if k == "optional" and c.px is None:
                return None
            iv, ix = unwrap_obj(k, c.vobj, c.px)
            try:
                r = _call(iv, c.mode, ix)
            except AssertionError:
                return {"signature": "C18:ctx-swallowed-assertion",
                        "what": f"inner validator refuses to run synchronously, yet in context '{k}' a result was returned: {c.raw!r}"}
            except Exception:
                return None
            got = c.raw
            if r.is_valid:
                if type(got) is not Valid:
                    return {"signature": f"C18:ctx:{k}", "what": f"inner validator accepts {ix!r} (payload {r.val!r}) but in context '{k}' the value is rejected: {got!r}"}
                try:
                    ip = inner_payload(k, got.val)
                except Exception:
                    return {"signature": f"C18:ctx:{k}", "what": f"payload in context '{k}' has the wrong shape: {got!r}"}
                ok = _same(ctx, ip, r.val)
                return None if ok else {"signature": f"C18:ctx-payload:{k}", "what": f"inner payload {r.val!r} but context '{k}' holds {ip!r}"}
            if type(got) is not Invalid:
                return {"signature": f"C18:ctx:{k}", "what": f"inner validator rejects {ix!r} but context '{k}' accepts: {got!r}"}
            ie = inner_error(k, got, c.px)
            ok = ie is not None and _inv_eq(ctx, ie, r)
            return None if ok else {"signature": f"C18:ctx-error:{k}", "what": f"inner error {r!r} is not the error at that position in context '{k}': {got!r}"}
        if c.tag == "c:instances" and c.v[0] == "ClassV" and c.exc is None:
            # the record reads an instance field by field: verdict and payload of every field are the field validator's own
            v, x = c.vobj, c.px
            bad_fields, pay = [], {}
            for name, fv in v.schema.items():
                try:
                    r = _call(fv, c.mode, getattr(x, name))
                except Exception:
                    return None
                if r.is_valid:
                    pay[name] = r.val
                else:
                    bad_fields.append((name, r))
            got = c.raw
            if not bad_fields:
                if type(got) is not Valid:
                    return {"signature": "C18:ctx:instance", "what": f"every field validator accepts its field of {x!r}, yet the record rejects the instance: {got!r}"}
                for name, w in pay.items():
                    if not _same(ctx, getattr(got.val, name), w):
                        return {"signature": "C18:ctx-payload:instance",
                                "what": f"field {name!r} of {x!r}: the field validator's payload is {w!r}, the record holds {getattr(got.val, name)!r}"}
                return None
            if type(got) is not Invalid or type(got.err_type) is not KE.KeyErrs:
                return {"signature": "C18:ctx:instance", "what": f"fields {[n for n, _ in bad_fields]} of {x!r} are rejected by their validators, the record returns {got!r}"}
            if set(got.err_type.keys) != {n for n, _ in bad_fields} or any(not _inv_eq(ctx, got.err_type.keys[n], r) for n, r in bad_fields):
                return {"signature": "C18:ctx-error:instance", "what": f"the field errors of {x!r} are {bad_fields!r}, the record reports {got!r}"}
            return None
        if c.tag == "b:refined":
            if c.exc is not None or type(c.raw) is not Valid:
                return None
            from ..build import Ctx as BCtx
            # the base validator must accept the same input with the same payload
            bctx = BCtx(c.classes, c.lazy)
            base = bctx.validator(c.extra["base_term"])
            from ..build import to_py
            bx = to_py(c.x, bctx.ct)
            try:
                r = _call(base, c.mode, bx)
            except Exception:
                return None
            from .C20 import same_result_cross
            if type(r) is not Valid or not same_result_cross(bctx, r, ctx, c.raw):
                return {"signature": "C18:refinement-widens",
                        "what": f"the refined validator {c.vobj!r} accepts {c.px!r} with payload {c.raw.val!r} but the unrefined one returns {r!r}"}
    except HarnessError:
        return None
    return None


def nontrivial(c: Case) -> bool:
    return c.obs is not None and c.obs[0] in ("OValid", "OInvalid")


def self_context(kind: str, xt, mode: str) -> Optional[str]:
    """A collection validator that contains itself (through Lazy) is its own context: nested one level
    deeper, between two good siblings, a value gets the verdict and payload it gets on its own."""
    from ..build import Ctx, to_py
    from .C03 import LZ, REC_DEFS
    lazy = REC_DEFS[kind]
    ctx = Ctx(G.STD_CLASSES, lazy)
    v = ctx.validator(LZ)
    x = to_py(xt, ctx.ct)
    if kind == "map":
        outer = {" p ": 1, " q ": x, " r ": 4}
        pick = lambda w: w["q"]
    elif kind == "list":
        outer = [1, x, 4]
        pick = lambda w: w[1]
    else:
        outer = (1, x, 4)
        pick = lambda w: w[1]
    try:
        ri = _call(v, mode, x)
        ro = _call(v, mode, outer)
    except RecursionError:
        return None
    if ri.is_valid != ro.is_valid:
        return f"on its own {x!r} gives {ri!r}; nested in {outer!r} under the same validator the result is {ro!r}"
    if ri.is_valid and not _same(ctx, pick(ro.val), ri.val):
        return f"on its own {x!r} has payload {ri.val!r}; nested in {outer!r} under the same validator the payload there is {pick(ro.val)!r} ({ro!r})"
    return None


def self_contexts(tier: str, rng: random.Random):
    from ..lang import to_json
    from .C03 import _rec_data
    bad, n = [], 0
    for kind in ("utuple", "utuple-plain", "list", "map"):
        for _ in range(40 if tier == "quick" else 1500):
            xt = _rec_data(kind, rng, rng.choice([0, 1, 2]))
            for m in ("sync", "async"):
                n += 1
                try:
                    r = self_context(kind, xt, m)
                except HarnessError:
                    continue
                if r and not bad:
                    bad.append({"kind": "oracle", "signature": "C18:self-context", "what": r,
                                "replay_case": {"selfctx": kind, "x": to_json(xt), "mode": m}})
    return bad, n


def coerced_contexts() -> Optional[dict]:
    """One-element contexts behind a coercer that *builds* the container from a bare value (x -> (x,), [x], {x}) and a
    pair context behind a coercer that splits a string: what the context validates are the elements of the coerced
    container - it accepts iff v accepts them, with v's payloads inside and v's own error at that position."""
    from koda import Just, nothing
    from koda_validate import (Coercer, DecimalValidator, IntValidator, ListValidator, MinLength, NTupleValidator, SetValidator, StringValidator,
                               UniformTupleValidator, strip)
    from koda_validate.errors import IndexErrs, SetErrs
    from ..corr import drive
    vs = [("StringValidator(MinLength(2), preprocessors=[strip])", lambda: StringValidator(MinLength(2), preprocessors=[strip]), ["abc", " ab ", "a", " a ", "", 5]),
          ("IntValidator()", lambda: IntValidator(), [1, "1", True, None]),
          ("DecimalValidator()", lambda: DecimalValidator(), ["1.5", 3, "x", 2.5])]

    def wrapping(build, kinds):
        return Coercer(lambda x: Just(build(x)) if type(x) in kinds else nothing, set(kinds))
    scal = (str, int, bool, float, type(None))
    ctxs = [("NTupleValidator.typed(fields=(v,), coerce=x -> (x,))", lambda v: NTupleValidator.typed(fields=(v,), coerce=wrapping(lambda x: (x,), scal)), tuple),
            ("UniformTupleValidator(v, coerce=x -> (x,))", lambda v: UniformTupleValidator(v, coerce=wrapping(lambda x: (x,), scal)), tuple),
            ("ListValidator(v, coerce=x -> [x])", lambda v: ListValidator(v, coerce=wrapping(lambda x: [x], scal)), list),
            ("SetValidator(v, coerce=x -> {x})", lambda v: SetValidator(v, coerce=wrapping(lambda x: {x}, scal)), set)]
    for vname, mkv, xs in vs:
        for cname, mkc, kind in ctxs:
            for x in xs:
                for mode in ("sync", "async"):
                    v = mkv()
                    c = mkc(v)
                    alone = v(x) if mode == "sync" else drive(v.validate_async(x))
                    try:
                        r = c(x) if mode == "sync" else drive(c.validate_async(x))
                    except Exception as e:  # noqa
                        return {"signature": "C18:coerced-context", "what": f"{cname} with v = {vname} ({mode}) on {x!r} raised {e!r}"}
                    where = f"{cname} with v = {vname} ({mode}) on {x!r}: v alone gives {alone!r}, the context gives {r!r}"
                    if alone.is_valid:
                        if not r.is_valid or type(r.val) is not kind or list(r.val) != [alone.val]:
                            return {"signature": "C18:coerced-context", "what": where}
                    else:
                        e = r.val if r.is_valid else r.err_type
                        inner = e.indexes.get(0) if isinstance(e, IndexErrs) else (e.item_errs[0] if isinstance(e, SetErrs) and e.item_errs else None)
                        if r.is_valid or inner is None or inner != alone:
                            return {"signature": "C18:coerced-context", "what": where}
    # a pair behind a coercer that splits "ab,cd"
    split = Coercer(lambda x: Just(tuple(x.split(","))) if type(x) is str and x.count(",") == 1 else nothing, {str})
    for mode in ("sync", "async"):
        v = StringValidator(MinLength(2), preprocessors=[strip])
        c = NTupleValidator.typed(fields=(v, v), coerce=split)
        for x, want in (("ab,cd", ("ab", "cd")), (" ab , cd ", ("ab", "cd")), ("a,cd", None), ("ab,c", None)):
            r = c(x) if mode == "sync" else drive(c.validate_async(x))
            parts = [v(p_) for p_ in x.split(",")]
            ok = (r.is_valid and r.val == want) if want is not None else (not r.is_valid and isinstance(r.err_type, IndexErrs)
                                                                        and {i: e_ for i, e_ in r.err_type.indexes.items()} == {i: p_ for i, p_ in enumerate(parts) if not p_.is_valid})
            if not ok:
                return {"signature": "C18:coerced-context", "what": f"NTupleValidator.typed(fields=(v, v), coerce=split at ',') ({mode}) on {x!r}: the parts alone give {parts!r}, the context gives {r!r}"}
    return None


def run(tier: str, rng: random.Random, proof_ok: bool) -> dict:
    rep = run_families("C18", cases(tier, rng), rng, oracle, nontrivial)
    bad, n = self_contexts(tier, rng)
    rep["violations"] += bad
    rep["coverage"]["self_containing_contexts"] = n
    cc = coerced_contexts()
    if cc:
        rep["violations"].append({"kind": "oracle", **cc, "replay_case": {"coerced_contexts": True}})
    from .hist import odd_equality_violation
    oe = odd_equality_violation("C18")     # a context returns the inner verdict also for values with unusual equality
    if oe:
        rep["violations"].append(oe)
    return rep


def replay(path: str) -> int:
    import json
    from ..lang import from_json
    rc = json.load(open(path)).get("replay_case")
    if isinstance(rc, dict) and rc.get("selfctx"):
        r = self_context(rc["selfctx"], from_json(rc["x"]), rc["mode"])
        print("property violated on this input: " + r if r else "property holds on this input")
        return 1 if r else 0
    if isinstance(rc, dict) and rc.get("coerced_contexts"):
        r_ = coerced_contexts()
        print("property violated: " + r_["what"] if r_ else "property holds for contexts behind container-building coercers")
        return 1 if r_ else 0
    from .hist import replay_special
    r = replay_special(rc, "C18") if isinstance(rc, dict) else None
    return r if r is not None else generic_replay(path, oracle)
