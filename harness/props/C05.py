"""C05 - unions pick the first match and list all failures; wrappers are transparent."""
from __future__ import annotations

import itertools
import random
from typing import Any, List, Optional

from koda import Just, nothing
from koda_validate import Invalid, Valid
from koda_validate.errors import ContainerErr, TypeErr, UnionErrs

from .. import gen as G
from .. import userlib as U
from ..build import HarnessError
from ..corr import Case, drive
from ..lang import N, P, Some, freeze
from .C03 import _canon, _inv_eq, _same
from .common import generic_replay, run_families, std_case
from .hist import odd_equality_violation, history_violation, replay_special

ASSUMPTIONS = [
    "cache wrappers are built on a faithful store (see C20)",
    "recursive definitions are exercised to the data depth Python's recursion limit allows",
]
from ..facts import effects as _effects  # noqa: E402
_FX = _effects.obligation("C05")
EXTRA_PROOF_FILES = [_FX[0]]
TRUSTED_EXTRA = [_FX[1]]
regenerate_facts = _FX[2]

INT = ("Scalar", ("KInt",), None, [], [], [])
STR = ("Scalar", ("KStr",), None, [], [], [])
STRIP = ("Scalar", ("KStr",), None, [("Strip",)], [], [])
UPPER = ("Scalar", ("KStr",), None, [("Upper",)], [], [])
DEC = ("Scalar", ("KDecimal",), Some(("CoDecimal",)), [], [], [])
FLOAT = ("Scalar", ("KFloat",), None, [], [], [])
BOOL = ("Scalar", ("KBool",), None, [], [], [])
ACCEPT_ALL = ("UserV", N(2), False)
ACCEPT_ALL_T = ("UserV", N(2), True)
REJECT_ALL = ("UserV", N(4), False)
REJECT_ALL_T = ("UserV", N(4), True)
ASYNC_ONLY = ("UserV", N(1), False)


def nested(depth: int, leaf):
    x = leaf
    for _ in range(depth):
        x = ("VList", [x])
    return x


def linked(depth: int, bad_at: Optional[int] = None):
    x = ("VNone",)
    for i in range(depth):
        val = G.S("bad") if bad_at == i else G.I(i)
        x = ("VDict", [P(G.S("v"), val), P(G.S("next"), x)])
    return x


def cases(tier: str, rng: random.Random) -> List[Case]:
    out: List[Case] = []
    kmax = 5 if tier == "quick" else 8
    n_random = 400 if tier == "quick" else 8000
    # (a) every accept/reject pattern of k variants (logging user-written variants)
    for k in range(1, kmax + 1):
        pats = list(itertools.product([True, False], repeat=k))
        if tier == "quick" and k > 4:
            pats = rng.sample(pats, 10)
        for pat in pats:
            vs = [(rng.choice([ACCEPT_ALL, ACCEPT_ALL_T]) if ok else rng.choice([REJECT_ALL, REJECT_ALL_T])) for ok in pat]
            for m in ("sync", "async"):
                out.append(std_case(("UnionV", vs), G.I(k), m, tag="a:patterns"))
    # the ends of the longer unions (the typed constructor spells out 1..8 variants by hand):
    # only the last variant accepts / nobody accepts / only the first accepts
    for k in range(2, 9):
        for pat in ([False] * (k - 1) + [True], [False] * k, [True] + [False] * (k - 1)):
            vs = [(ACCEPT_ALL if ok else rng.choice([REJECT_ALL, REJECT_ALL_T, INT])) for ok in pat]
            for _ in range(3):      # the builder picks typed / untyped at random
                for m in ("sync", "async"):
                    out.append(std_case(("UnionV", vs), G.S("s%d" % k), m, tag="a:ends"))
    # overlapping and payload-changing variants: order matters
    overl = [INT, STR, STRIP, UPPER, DEC, FLOAT, BOOL, ACCEPT_ALL, ("UserV", N(0), False), ("UserV", N(3), True)]
    for _ in range(60 if tier == "quick" else 600):
        vs = rng.sample(overl, rng.choice([2, 3, 4]))
        for x in [G.I(1), G.S(" a "), G.S("1.5"), G.TRUE, G.F1, G.NONE, G.D1]:
            out.append(std_case(("UnionV", vs), x, rng.choice(["sync", "async"]), tag="a:overlap"))
    # a later variant that would raise AssertionError must not be consulted after a match
    for vs in ([INT, ASYNC_ONLY], [ASYNC_ONLY, INT], [STRIP, ASYNC_ONLY, INT]):
        for x in (G.I(2), G.S(" q "), G.NONE):
            out += [std_case(("UnionV", vs), x, m, tag="a:later-raises") for m in ("sync", "async")]
    # optional / maybe
    for inner in (INT, STRIP, ("NoneV", None), ACCEPT_ALL, ("ListV", INT, [], [], None)):
        for x in (G.NONE, G.I(1), G.S(" a "), ("VList", [G.I(1)]), ("VList", [G.S("x")]), G.NOTHING, G.FALSE):
            for m in ("sync", "async"):
                out.append(std_case(("OptionalV", ("NoneV", None), inner), x, m, tag="a:optional"))
                out.append(std_case(("MaybeV", inner), ("VJust", x), m, tag="a:maybe"))
                out.append(std_case(("MaybeV", inner), x, m, tag="a:maybe"))
    # (b) wrappers around every validator kind
    for _ in range(n_random):
        lazy = [G.gen_validator(rng, rng.choice([0, 1, 2]))]
        inner = G.gen_validator(rng, rng.choice([0, 1, 2]))
        w = rng.choice(["lazy", "cache", "knr", "optional", "maybe", "union", "always"])
        if w == "lazy":
            v = ("LazyV", N(0), rng.random() < 0.5)
            x = G.valid_input(lazy[0], rng, lazy)
        elif w == "cache":
            v, x = ("CacheV", inner), G.valid_input(inner, rng, lazy)
        elif w == "knr":
            v, x = ("KeyNotRequired", inner), G.valid_input(inner, rng, lazy)
        elif w == "optional":
            v, x = ("OptionalV", ("NoneV", None), inner), G.valid_input(inner, rng, lazy)
        elif w == "maybe":
            v, x = ("MaybeV", inner), ("VJust", G.valid_input(inner, rng, lazy))
        elif w == "union":
            v = ("UnionV", [inner, G.gen_validator(rng, 1)])
            x = G.valid_input(inner, rng, lazy)
        else:
            v, x = ("AlwaysValid",), rng.choice(G.HOSTILE)
        r = rng.random()
        tag = "b:" + w
        if r < 0.3:
            x = G.corrupt(x, rng)
        elif r < 0.4:
            x = rng.choice(G.HOSTILE)
        for m in ("sync", "async"):
            out.append(std_case(v, x, m, lazy=lazy, tag=tag))
    # (c) self-referential definitions over deep data
    dmax = 40 if tier == "quick" else 120
    rec_list = [("ListV", ("LazyV", N(0), True), [], [], None)]
    rec_node = [("DictAnyV", [P(G.S("v"), INT), P(G.S("next"), ("OptionalV", ("NoneV", None), ("LazyV", N(0), True)))],
                 None, None, True)]
    rec_union = [("UnionV", [INT, ("ListV", ("LazyV", N(0), True), [], [], None)])]
    for d in list(range(0, 8)) + [dmax // 2, dmax]:
        for m in ("sync", "async"):
            out.append(std_case(rec_list[0], nested(d, ("VList", [])), m, lazy=rec_list, tag="c:rec", fuel=4 * d + 12))
            out.append(std_case(rec_list[0], nested(d, G.I(3)), m, lazy=rec_list, tag="c:rec", fuel=4 * d + 12))
            out.append(std_case(("LazyV", N(0), True), linked(d), m, lazy=rec_node, tag="c:rec", fuel=8 * d + 16))
            out.append(std_case(("LazyV", N(0), True), linked(d, bad_at=0 if d else None), m, lazy=rec_node, tag="c:rec", fuel=8 * d + 16))
            out.append(std_case(rec_union[0], nested(d, G.I(7)), m, lazy=rec_union, tag="c:rec", fuel=6 * d + 12))
            out.append(std_case(rec_union[0], nested(d, G.S("x")), m, lazy=rec_union, tag="c:rec", fuel=6 * d + 12))
    # a not-required key whose validator's payload is itself a Maybe: present with Just(x) is Just(Just(x)), present
    # with nothing is Just(nothing), absent is absent
    MB = ("MaybeV", INT)
    for rec in (("RecordV", [P(G.S("a"), ("KeyNotRequired", MB)), P(G.S("b"), ("KeyNotRequired", ("AlwaysValid",)))], N(2), None, None, False),
                ("DictAnyV", [P(G.S("a"), ("KeyNotRequired", MB)), P(G.S("b"), ("KeyNotRequired", ("KeyNotRequired", INT)))], None, None, False)):
        for kv in ([P(G.S("a"), ("VJust", G.I(5)))], [P(G.S("a"), G.NOTHING)], [], [P(G.S("b"), ("VJust", G.I(1)))], [P(G.S("b"), G.NOTHING)],
                   [P(G.S("a"), ("VJust", G.S("x")))], [P(G.S("b"), G.I(2))]):
            for m_ in ("sync", "async"):
                out.append(std_case(rec, ("VDict", kv), m_, tag="a:knr-maybe"))
    # a union whose last variant accepts anything: earlier variants still come first, with their own payloads
    STRIP_ = ("Scalar", ("KStr",), None, [("Strip",)], [("PNotBlank",)], [])
    DEC_ = ("Scalar", ("KDecimal",), Some(("CoDecimal",)), [], [], [])
    for vs_ in ([STRIP_, ("AlwaysValid",)], [DEC_, ("AlwaysValid",)], [INT, STRIP_, ("AlwaysValid",)], [("ListV", STRIP_, [], [], None), ("AlwaysValid",)],
                [("AlwaysValid",), STRIP_]):
        for x_ in (G.S(" a "), G.S("1.50"), G.I(3), G.S("  "), ("VList", [G.S(" q ")]), G.NONE):
            for m_ in ("sync", "async"):
                out.append(std_case(("UnionV", vs_), x_, m_, tag="a:trailing-any"))
    for x_ in (G.NONE, G.I(1), G.S("s")):
        for m_ in ("sync", "async"):
            out.append(std_case(("OptionalV", ("NoneV", Some(("CoUser", N(2)))), ("AlwaysValid",)), x_, m_, tag="a:trailing-any"))
    # a recursive-definition wrapper hands a failure through as it is - also when its target changed the value first
    LSTRP = ("Scalar", ("KStr",), None, [("Strip",)], [("PMinLength", 3)], [])
    LDEC = ("Scalar", ("KDecimal",), Some(("CoDecimal",)), [], [("PMin", G.D10, True)], [])
    for tgt, xs_ in ((LSTRP, [G.S("  a  "), G.S(" abc "), G.I(1)]), (LDEC, [G.S("0.5"), G.I(0), G.S("7")]),
                     (("ListV", LSTRP, [], [], Some(("CoUser", N(3)))), [("VTuple", [G.S(" a ")]), ("VList", [G.S(" abcd ")])])):
        for x_ in xs_:
            for m_ in ("sync", "async"):
                out.append(std_case(("LazyV", N(0), False), x_, m_, lazy=[tgt], tag="a:lazy-failure"))
                out.append(std_case(("ListV", ("LazyV", N(0), False), [], [], None), ("VList", [x_]), m_, lazy=[tgt], tag="a:lazy-failure"))
                out.append(std_case(("OptionalV", ("NoneV", None), ("LazyV", N(0), True)), x_, m_, lazy=[tgt], tag="a:lazy-failure"))
    # optionals whose none_validator is the user's own
    for v_, x_ in G.custom_none_cases():
        for m_ in ("sync", "async"):
            out.append(std_case(v_, x_, m_, tag="a:custom-none"))
    return out


def _call(child: Any, mode: str, x: Any) -> Any:
    return child(x) if mode == "sync" else drive(child.validate_async(x))


def oracle(c: Case) -> Optional[dict]:
    kind = c.v[0]
    v, x, ctx = c.vobj, c.px, c.ctx
    calls_during = list(c.calls)
    if c.exc is not None and kind not in ("UnionV",):
        return None
    got = c.raw
    try:
        if kind == "UnionV":
            if len(v.validators) != len(c.v[1]) or any(a is not b for a, b in zip(v.validators, getattr(c, "variant_objs", v.validators))):
                return {"signature": "C05:union-variants-lost",
                        "what": f"a union built from {len(c.v[1])} variants holds {len(v.validators)}: {v.validators!r}"}
            exp_calls = []
            errs = []
            winner = None
            for var in v.validators:
                try:
                    r = _call(var, c.mode, x)
                except AssertionError:
                    # the first non-rejecting variant raises: the union must propagate it
                    return None if type(c.exc) is AssertionError else {
                        "signature": "C05:union-assert", "what": f"variant raises AssertionError first, union returned {got!r}"}
                except Exception:
                    return None
                if r.is_valid:
                    winner = r
                    break
                errs.append(r)
            if c.exc is not None:
                return {"signature": "C05:union-consulted-later",
                        "what": f"union raised {c.exc!r} although variant-by-variant evaluation yields a result (a later variant was consulted?)"}
            if winner is not None:
                ok = type(got) is Valid and _same(ctx, got.val, winner.val)
                flat = all(t[0] in ("UserV", "Scalar", "EqualsV", "NoneV", "AlwaysValid", "IsDictV") for t in c.v[1])
                if ok and flat:
                    # user-written variants log their invocations: none after the winner
                    n_user_expected = sum(1 for t in c.v[1][: len(errs) + 1] if t[0] == "UserV")
                    n_user_got = len(calls_during)
                    if n_user_got > n_user_expected:
                        return {"signature": "C05:union-consulted-later",
                                "what": f"variants after the first accepting one were consulted: calls {calls_during}"}
                return None if ok else {"signature": "C05:union-first",
                                        "what": f"expected payload of the first accepting variant {winner!r}, got {got!r}"}
            ok = type(got) is Invalid and type(got.err_type) is UnionErrs and got.validator is v and got.value is x \
                and len(got.err_type.variants) == len(errs) and all(_inv_eq(ctx, a, b) for a, b in zip(got.err_type.variants, errs))
            return None if ok else {"signature": "C05:union-errs", "what": f"expected every variant's error in order, got {got!r}"}
        if kind == "OptionalV":
            custom_none = c.v[1] != ("NoneV", None)
            if x is None and not custom_none:
                ok = type(got) is Valid and got.val is None
                return None if ok else {"signature": "C05:optional-none", "what": f"Optional(None) returned {got!r}"}
            if custom_none:
                # the none_validator it was built with decides what counts as None - it, not a default one
                rn = _call(v.none_validator, c.mode, x)
                if rn.is_valid:
                    ok = type(got) is Valid and got.val is None
                    return None if ok else {"signature": "C05:optional-none",
                                            "what": f"the optional's own none_validator accepts {x!r}; expected Valid(None), got {got!r}"}
            r = _call(v.non_none_validator, c.mode, x)
            if r.is_valid:
                ok = type(got) is Valid and _same(ctx, got.val, r.val)
            else:
                ok = type(got) is Invalid and type(got.err_type) is UnionErrs and got.validator is v and got.value is x \
                    and len(got.err_type.variants) == 2 and _inv_eq(ctx, got.err_type.variants[1], r)
                if ok and custom_none:
                    ok = _inv_eq(ctx, got.err_type.variants[0], rn) and got.err_type.variants[0].validator is v.none_validator
                elif ok:
                    ok = type(got.err_type.variants[0].err_type) is TypeErr
            return None if ok else {"signature": "C05:optional-inner", "what": f"Optional disagrees with its none / inner validators ({r!r}): {got!r}"}
        if kind == "MaybeV":
            if x is nothing:
                ok = type(got) is Valid and got.val is nothing
            elif type(x) is Just:
                r = _call(v.validator, c.mode, x.val)
                if r.is_valid:
                    ok = type(got) is Valid and type(got.val) is Just and _same(ctx, got.val.val, r.val)
                else:
                    ok = type(got) is Invalid and type(got.err_type) is ContainerErr and got.validator is v \
                        and got.value is x and _inv_eq(ctx, got.err_type.child, r)
            else:
                ok = type(got) is Invalid and type(got.err_type) is TypeErr and got.value is x and got.validator is v
            return None if ok else {"signature": "C05:maybe", "what": f"MaybeValidator({x!r}) returned {got!r}"}
        if kind in ("LazyV", "CacheV", "KeyNotRequired"):
            inner = v.validator() if kind == "LazyV" else v.validator
            if kind == "CacheV":
                inner = v.validator
            r = _call(inner, c.mode, x)
            if kind == "KeyNotRequired" and r.is_valid:
                ok = type(got) is Valid and type(got.val) is Just and _same(ctx, got.val.val, r.val)
            elif r.is_valid:
                ok = type(got) is Valid and _same(ctx, got.val, r.val)
            else:
                ok = type(got) is Invalid and _inv_eq(ctx, got, r)
            return None if ok else {"signature": "C05:wrapper-transparent",
                                    "what": f"{kind} returned {got!r} but the validator it stands for returns {r!r}"}
        if kind == "AlwaysValid":
            ok = type(got) is Valid and got.val is x
            return None if ok else {"signature": "C05:always-valid", "what": f"AlwaysValid returned {got!r}"}
    except HarnessError:
        return None
    except AssertionError:
        return None if False else {"signature": "C05:inner-assertion-swallowed",
                                   "what": f"the wrapped validator refuses to run synchronously yet the wrapper returned {got!r}"}
    return None


def check_odd_values() -> List[dict]:
    """Values that are themselves library objects (an Invalid, a Valid, a validator) are values like any other:
    AlwaysValid and wrappers around it hand them back unchanged, inside a Valid."""
    from koda_validate import AlwaysValid, ListValidator, OptionalValidator, UnionValidator, always_valid
    bad = []
    odd = [Invalid(TypeErr(int), "x", always_valid), Valid(3), always_valid, TypeErr(str)]
    vs = [always_valid, AlwaysValid(), OptionalValidator(always_valid), UnionValidator.untyped(always_valid),
          ListValidator(always_valid)]
    for v in vs:
        for o in odd:
            x = [o] if isinstance(v, ListValidator) else o
            for mode in ("sync", "async"):
                try:
                    r = _call(v, mode, x)
                except Exception as e:  # noqa
                    r = e
                ok = type(r) is Valid and (r.val is x or (isinstance(v, ListValidator) and type(r.val) is list and len(r.val) == 1 and r.val[0] is o))
                if not ok:
                    bad.append({"signature": "C05:always-valid", "kind": "oracle",
                                "what": f"{v!r} ({mode}) on the value {x!r} returned {r!r}; it accepts every value unchanged",
                                "replay_case": {"direct": "odd-values"}})
                    return bad
    return bad


def check_result_map() -> List[dict]:
    """Valid.map / Invalid.map (koda_validate/valid.py), checked directly."""
    bad = []
    inv = Invalid(TypeErr(int), "x", None)  # type: ignore
    for val in (1, True, 2.0, "a", None, [1], {"k": 2}):
        f = lambda z: (z, "mapped")
        r0 = Valid(val)
        r = r0.map(f)
        if not (type(r) is Valid and r.val == (val, "mapped")):
            bad.append({"signature": "C05:valid-map", "kind": "oracle", "what": f"Valid({val!r}).map(f) = {r!r}",
                        "replay_case": {"direct": "result-map"}})
        # the new payload is what the function returned - the very object, also when it equals the old one
        for conv in (float, int, str, (lambda z: list(z) if isinstance(z, list) else z)):
            made = []
            def g(z, conv=conv, made=made):
                try:
                    y = conv(z)
                except Exception:  # noqa
                    y = ("unconvertible", z)
                made.append(y)
                return y
            rr = Valid(val).map(g)
            if not (type(rr) is Valid and made and rr.val is made[-1]):
                bad.append({"signature": "C05:valid-map", "kind": "oracle",
                            "what": f"Valid({val!r}).map(f) holds {getattr(rr, 'val', rr)!r} ({type(getattr(rr, 'val', rr)).__name__}), f returned {made[-1] if made else None!r} ({type(made[-1]).__name__ if made else None})",
                            "replay_case": {"direct": "result-map"}})
        # a function that itself returns a result (another validator used as the function, the Valid constructor):
        # the payload is what it returned - a result inside a result
        from koda_validate import IntValidator as _IV, StringValidator as _SV, always_valid as _AV
        for fn in (_IV(), _SV(), _AV, Valid, (lambda z: Invalid(TypeErr(int), z, _AV))):
            try:
                inner = fn(val)
                rr = Valid(val).map(fn)
            except Exception:  # noqa
                continue
            if not (type(rr) is Valid and type(rr.val) is type(inner) and rr.val == inner):
                bad.append({"signature": "C05:valid-map", "kind": "oracle",
                            "what": f"Valid({val!r}).map(f) with f returning the result {inner!r} gives {rr!r}, not Valid of that result",
                            "replay_case": {"direct": "result-map"}})
        # the result that was mapped is still the result of the validation it came from
        if r0.val is not val:
            bad.append({"signature": "C05:valid-map-receiver", "kind": "oracle",
                        "what": f"Valid({val!r}).map(f) changed the result it was called on into {r0!r}", "replay_case": {"direct": "result-map"}})
    # ... in particular a result handed out by a cache wrapper: mapping it must not change what the
    # wrapper answers next time
    from ..build import Ctx
    for mode in ("sync", "async"):
        ctx = Ctx(G.STD_CLASSES, [])
        cache = ctx.validator(("CacheV", INT))
        first = _call(cache, mode, 7)
        first.map(lambda z: "<%r>" % (z,))
        again = _call(cache, mode, 7)
        if not (type(again) is Valid and again.val == 7):
            bad.append({"signature": "C05:valid-map-receiver", "kind": "oracle",
                        "what": f"after mapping the result of cache(7), cache(7) ({mode}) returns {again!r}; the wrapped validator returns Valid(7)",
                        "replay_case": {"direct": "result-map"}})
    if inv.map(lambda z: 1) is not inv:
        bad.append({"signature": "C05:invalid-map", "kind": "oracle", "what": "Invalid.map did not return the Invalid untouched",
                    "replay_case": {"direct": "result-map"}})
    return bad


def nontrivial(c: Case) -> bool:
    return c.obs is not None and c.obs[0] in ("OValid", "OInvalid")


INT_INC = ("UserV", N(0), False)
USTRIP = ("UserV", N(3), True)
WRAP_HISTORIES = [
    (INT_INC, [G.I(1), G.I(2), G.I(3), G.S("x")]),            # payload of one input is another input
    (USTRIP, [G.S(" a "), G.S("a"), G.S(" a"), G.I(0)]),
    (DEC, [G.S("1.5"), G.D15, G.S("1.50"), G.I(1)]),
    (("Scalar", ("KInt",), Some(("CoUser", N(2))), [], [], []), [G.TRUE, G.I(1), G.I(0), G.NONE]),
    (("ListV", INT_INC, [], [], None), [("VList", [G.I(1)]), ("VList", [G.I(2)]), ("VList", [])]),
]


def wrapper_histories(tier: str, rng: random.Random):
    """Wrappers stay transparent on a used instance: any history of calls, either style."""
    bad, n = [], 0
    for inner, alpha in WRAP_HISTORIES:
        wraps = [("CacheV", inner), ("LazyV", N(0), False), ("OptionalV", ("NoneV", None), ("CacheV", inner)),
                 ("UnionV", [("CacheV", inner), ("NoneV", None)]), ("MaybeV", ("CacheV", inner))]
        for w in wraps:
            triples = list(itertools.product(alpha, repeat=3))
            seqs = list(itertools.product(alpha, repeat=2)) + rng.sample(triples, min(len(triples), 6 if tier == "quick" else 40))
            for xs in seqs:
                ops = [(rng.choice(["sync", "async"]), (("VJust", x) if w[0] == "MaybeV" else x)) for x in xs]
                n += 1
                v = history_violation("C05", w, [inner], ops, what="wrapper no longer transparent: ")
                if v and not any(b["signature"] == v["signature"] for b in bad):
                    bad.append(v)
    return bad, n


def check_lazy_designation() -> List[dict]:
    """Lazy stands for whatever its thunk designates *when a value is validated*, recurrent or not: it can be built
    before its target exists (forward references between definitions), building it does not call the thunk, and after
    the name the thunk reads has been rebound it stands for the new target - bare and inside other validators."""
    from koda_validate import IntValidator, Lazy, ListValidator, OptionalValidator, StringValidator
    from koda_validate.maybe import MaybeValidator
    from koda import Just
    from ..corr import drive
    bad: List[dict] = []

    def report(what):
        if not bad:
            bad.append({"kind": "oracle", "signature": "C05:lazy-designation", "what": what, "replay_case": {"direct": "lazy-designation"}})
    for recurrent in (True, False):
        for wrap_name, wrap, wx, unwrap in (("bare", lambda l: l, lambda x: x, lambda w: w), ("inside a list", lambda l: ListValidator(l), lambda x: [x], lambda w: w[0]),
                                            ("inside an optional", lambda l: OptionalValidator(l), lambda x: x, lambda w: w),
                                            ("inside a maybe", lambda l: MaybeValidator(l), lambda x: Just(x), lambda w: w.val)):
            for mode in ("sync", "async"):
                reg: dict = {}
                calls: list = []

                def thunk():
                    calls.append(1)
                    return reg["target"]
                where = f"Lazy(thunk, recurrent={recurrent}) {wrap_name} ({mode})"
                try:
                    lz = Lazy(thunk, recurrent=recurrent)
                    v = wrap(lz)
                except BaseException as e:  # noqa
                    report(f"{where}: building it before its target is defined raised {e!r}")
                    continue
                if calls:
                    report(f"{where}: building it called the thunk {len(calls)} time(s)")
                run_ = (lambda x: v(x)) if mode == "sync" else (lambda x: drive(v.validate_async(x)))
                for target, good, wrong in ((IntValidator(), 5, "s"), (StringValidator(), "s", 5), (ListValidator(IntValidator()), [1], "s")):
                    reg["target"] = target
                    n0 = len(calls)
                    try:
                        rg, rw = run_(wx(good)), run_(wx(wrong))
                    except BaseException as e:  # noqa
                        report(f"{where} with the thunk now designating {target!r}: raised {e!r}")
                        break
                    alone_g, alone_w = target(good), target(wrong)
                    if not rg.is_valid or unwrap(rg.val) != alone_g.val or rw.is_valid:
                        report(f"{where} with the thunk now designating {target!r}: {good!r} gave {rg!r} and {wrong!r} gave {rw!r}; the target itself gives {alone_g!r} and {alone_w!r}")
                        break
                    if len(calls) == n0:
                        report(f"{where}: two validations did not consult the thunk at all")
                        break
    return bad


def run(tier: str, rng: random.Random, proof_ok: bool) -> dict:
    rep = run_families("C05", cases(tier, rng), rng, oracle, nontrivial)
    rep["violations"] += check_result_map()
    rep["violations"] += check_odd_values()
    rep["violations"] += check_lazy_designation()
    oe = odd_equality_violation("C05")
    if oe:
        rep["violations"].append(oe)
    bad, n = wrapper_histories(tier, rng)
    rep["violations"] += bad
    rep["coverage"]["wrapper_histories_on_one_instance"] = n
    return rep


def replay(path: str) -> int:
    import json
    rc = json.load(open(path)).get("replay_case")
    if isinstance(rc, dict) and rc.get("direct") == "odd-values":
        bad = check_odd_values()
        for b in bad:
            print("property violated:", b["what"])
        print("property holds for library objects as values" if not bad else "")
        return 1 if bad else 0
    if isinstance(rc, dict) and rc.get("direct") == "lazy-designation":
        bad = check_lazy_designation()
        for b in bad:
            print("property violated:", b["what"])
        print("property holds: Lazy stands for what its thunk designates at validation time" if not bad else "")
        return 1 if bad else 0
    if isinstance(rc, dict) and rc.get("direct") == "result-map":
        bad = check_result_map()
        for b in bad:
            print("property violated:", b["what"])
        print("property holds for Valid.map / Invalid.map" if not bad else "")
        return 1 if bad else 0
    r = replay_special(rc, "C05") if isinstance(rc, dict) else None
    if r is not None:
        return r
    if isinstance(rc, dict) and rc.get("v", {}).get("c") == "UnionV":
        # the builder picks the typed or the untyped constructor at random: try both
        from ..corr import observe
        from .common import case_from_json
        for seed in range(8):
            c = case_from_json(rc)
            observe(c, random.Random(seed))
            v = oracle(c)
            if v:
                print("property violated on this input:", v["what"])
                return 1
        print("property holds on this input (typed and untyped constructors)")
        return 0
    return generic_replay(path, oracle)


from ..facts import attach as _attach, typechecks as _typechecks  # noqa: E402
_attach(globals(), _typechecks.obligation("C05"))
