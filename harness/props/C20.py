"""C20 - caching wrappers are transparent over any history of calls."""
from __future__ import annotations

import itertools
import os
import random
import time
from concurrent.futures import ThreadPoolExecutor
from typing import Any, List, Optional, Tuple

from koda import Just, nothing
from koda_validate import Validator
from koda_validate.base import CacheValidatorBase

from .. import gen as G
from .. import userlib as U
from ..build import Ctx, HarnessError, from_py, to_py
from ..corr import GEN, HEADER, Oracles, drive, run_coq_file, subvalues
from ..lang import N, P, Some, coq, freeze, to_json, from_json
from .C03 import _canon

ASSUMPTIONS = [
    "the store is faithful: a lookup returns what was stored for that very input, nothing otherwise (key_sound)",
    "for mixed sync/async histories the wrapped validator has no async-only check (mode_indep); async-only histories need no such assumption",
]


class Yield:
    def __await__(self):
        yield


class Counting(Validator):  # type: ignore
    """Counts how often the wrapped validator really runs."""

    def __init__(self, inner: Any) -> None:
        self.inner = inner
        self.runs: List[Tuple[str, Any]] = []

    def __call__(self, val: Any) -> Any:
        self.runs.append(("sync", val))
        return self.inner(val)

    async def validate_async(self, val: Any) -> Any:
        self.runs.append(("async", val))
        return await self.inner.validate_async(val)


class LogCache(CacheValidatorBase):  # type: ignore
    """A faithful store keyed by identity ('id') or by typed structural equality ('eq')."""

    def __init__(self, validator: Any, policy: str, ct: Any) -> None:
        super().__init__(validator)
        self.policy, self.ct = policy, ct
        self.store: List[Tuple[Any, Any]] = []
        self.log: List[tuple] = []

    def _find(self, val: Any) -> Any:
        for k, r in self.store:
            if k is val:
                return Just(r)
            if self.policy == "eq":
                try:
                    if freeze(from_py(k, self.ct)) == freeze(from_py(val, self.ct)):
                        return Just(r)
                except HarnessError:
                    pass
        return nothing

    def cache_get_sync(self, val: Any) -> Any:
        r = self._find(val)
        self.log.append(("get", val, r.is_just))
        return r

    def cache_set_sync(self, val: Any, cache_val: Any) -> None:
        self.log.append(("set", val, cache_val))
        self.store.append((val, cache_val))

    async def cache_get_async(self, val: Any) -> Any:
        await Yield()
        return self.cache_get_sync(val)

    async def cache_set_async(self, val: Any, cache_val: Any) -> None:
        await Yield()
        self.cache_set_sync(val, cache_val)


def same_result(ctx, a, b) -> bool:
    try:
        return freeze(_canon(ctx.result(a))) == freeze(_canon(ctx.result(b)))
    except HarnessError:
        return a == b


def run_history(vt, lazy, ops, policy, shared_objects=True):
    """Run a history on a real cache; returns (ctx, cache, counting, outs, inputs, excs)."""
    ctx = Ctx(G.STD_CLASSES, lazy)
    inner = ctx.validator(vt)
    cnt = Counting(inner)
    cache = LogCache(cnt, policy, ctx.ct)
    pool = {}
    outs, ins = [], []
    for mode, xt in ops:
        key = freeze(xt)
        if shared_objects and key in pool:
            x = pool[key]
        else:
            x = to_py(xt, ctx.ct)
            pool.setdefault(key, x)
        ins.append(x)
        try:
            outs.append(cache(x) if mode == "sync" else drive(cache.validate_async(x)))
        except Exception as e:  # noqa
            outs.append(e)
    return ctx, cache, cnt, outs, ins


def check_history(vt, lazy, ops, policy) -> Optional[dict]:
    ctx, cache, cnt, outs, ins = run_history(vt, lazy, ops, policy, shared_objects=(policy == "id" or True))
    fresh = Ctx(G.STD_CLASSES, lazy)   # an uncached twin for the expected results
    # NB: Ctx() resets the plain-object registry; results are compared structurally
    inner2 = fresh.validator(vt)
    li = 0
    runs_expected = 0
    for i, ((mode, xt), out, x) in enumerate(zip(ops, outs, ins)):
        try:
            exp = inner2(to_py(xt, fresh.ct)) if mode == "sync" else drive(inner2.validate_async(to_py(xt, fresh.ct)))
        except Exception as e:  # noqa
            exp = e
        # consume this call's log entries
        g = cache.log[li] if li < len(cache.log) else None
        if g is None or g[0] != "get" or g[1] is not x:
            return {"signature": "C20:no-lookup", "what": f"call {i} did not start with a lookup of its own input"}
        li += 1
        hit = g[2]
        if hit:
            if li < len(cache.log) and cache.log[li][0] == "set" and cache.log[li][1] is x and False:
                pass
        else:
            runs_expected += 1
            if isinstance(exp, Exception):
                pass   # the wrapped validator raised: nothing is stored
            else:
                s = cache.log[li] if li < len(cache.log) else None
                if s is None or s[0] != "set" or s[1] is not x or s[2] is not out:
                    return {"signature": "C20:miss-not-stored",
                            "what": f"call {i} missed but did not store exactly the (input, result) pair it computed: log={cache.log[li - 1: li + 1]!r}"}
                li += 1
        if isinstance(exp, Exception) or isinstance(out, Exception):
            if type(exp) is not type(out) and not (hit and not isinstance(out, Exception)):
                return {"signature": "C20:exception-mismatch", "what": f"call {i}: cache gave {out!r}, wrapped validator gives {exp!r}"}
            continue
        if not same_result_cross(ctx, out, fresh, exp):
            return {"signature": "C20:result-differs",
                    "what": f"call {i} ({mode}, {x!r}) returned {out!r}; the wrapped validator returns {exp!r}"}
    if li != len(cache.log):
        return {"signature": "C20:extra-store-traffic", "what": f"unexpected store operations: {cache.log[li:]!r}"}
    if len(cnt.runs) != runs_expected:
        return {"signature": "C20:runs-not-once-per-miss",
                "what": f"wrapped validator ran {len(cnt.runs)} times for {runs_expected} misses in {len(ops)} calls"}
    return None


def same_result_cross(ctx_a, a, ctx_b, b) -> bool:
    """Compare results built by two independent builds of the same tree (who by term)."""
    try:
        ta = _canon(ctx_a.result(a))
    except HarnessError:
        return False
    try:
        tb = _canon(ctx_b.result(b))
    except HarnessError:
        return False
    return freeze(strip_ids(ta)) == freeze(strip_ids(tb))


def strip_ids(t):
    """plain-object identity tags are per build; drop them for cross-build comparison"""
    if isinstance(t, tuple):
        if t and t[0] == "VObj" and t[2] and isinstance(t[2][0], P) and t[2][0].a == ("VStr", [35]):
            return ("VObj", t[1], [])
        return tuple(strip_ids(x) for x in t)
    if isinstance(t, list):
        return [strip_ids(x) for x in t]
    if isinstance(t, P):
        return P(strip_ids(t.a), strip_ids(t.b))
    if isinstance(t, Some):
        return Some(strip_ids(t.x))
    return t


def interleavings(n_tasks_steps: List[int]):
    """All schedules: sequences of task indices, each task i resumed steps[i] times."""
    def rec(rem, acc):
        if not any(rem):
            yield list(acc)
            return
        for i, r in enumerate(rem):
            if r:
                rem[i] -= 1
                acc.append(i)
                yield from rec(rem, acc)
                acc.pop()
                rem[i] += 1
    yield from rec(list(n_tasks_steps), [])


def check_interleavings(vt, lazy, xts, policy, limit: int) -> Tuple[Optional[dict], int]:
    """Every interleaving of overlapping async calls returns what each call returns alone."""
    # results alone, and number of suspension points of each call
    alone, steps = [], []
    for xt in xts:
        ctx = Ctx(G.STD_CLASSES, lazy)
        cache = LogCache(Counting(ctx.validator(vt)), policy, ctx.ct)
        co = cache.validate_async(to_py(xt, ctx.ct))
        n = 0
        try:
            while True:
                co.send(None)
                n += 1
        except StopIteration:
            pass
        except Exception:  # noqa
            pass
        steps.append(n + 1)
        # what the call must return: what the wrapped validator returns, no cache involved
        ctx = Ctx(G.STD_CLASSES, lazy)
        co = ctx.validator(vt).validate_async(to_py(xt, ctx.ct))
        try:
            while True:
                co.send(None)
        except StopIteration as s:
            alone.append((ctx, s.value))
        except Exception as e:  # noqa
            alone.append((ctx, e))
    count = 0
    for sc in interleavings(steps):
        count += 1
        if count > limit:
            break
        ctx = Ctx(G.STD_CLASSES, lazy)
        cache = LogCache(Counting(ctx.validator(vt)), policy, ctx.ct)
        xs = [to_py(xt, ctx.ct) for xt in xts]
        cos = [cache.validate_async(x) for x in xs]
        res: List[Any] = [None] * len(cos)
        done = [False] * len(cos)
        for i in sc:
            if done[i]:
                continue
            try:
                cos[i].send(None)
            except StopIteration as s:
                res[i], done[i] = s.value, True
            except Exception as e:  # noqa
                res[i], done[i] = e, True
        for i, co in enumerate(cos):
            while not done[i]:   # steps may differ when another task filled the cache first
                try:
                    co.send(None)
                except StopIteration as s:
                    res[i], done[i] = s.value, True
                except Exception as e:  # noqa
                    res[i], done[i] = e, True
        for i, (r, (actx, a)) in enumerate(zip(res, alone)):
            if isinstance(a, Exception) or isinstance(r, Exception):
                if type(a) is not type(r):
                    return ({"signature": "C20:interleaving", "what": f"schedule {sc}: task {i} gave {r!r}, alone it gives {a!r}"}, count)
                continue
            if not same_result_cross(ctx, r, actx, a):
                return ({"signature": "C20:interleaving",
                         "what": f"schedule {sc}: task {i} on {xs[i]!r} returned {r!r}; alone it returns {a!r}",
                         "schedule": sc}, count)
    return None, count


def event_terms(ctx, cache, ops, outs) -> list:
    """The observed log as the model's event lists, one list per call (log entries are
    attributed to calls by their 'get' markers; anything unexpected is kept as it is)."""
    evs: list = []
    li = 0
    for (mode, xt), out in zip(ops, outs):
        ev: list = []
        first = True
        while li < len(cache.log) and (first or cache.log[li][0] != "get"):
            g = cache.log[li]
            li += 1
            first = False
            x_t = from_py(g[1], ctx.ct)
            if g[0] == "get":
                ev.append(("EGet", x_t, bool(g[2])))
                if not g[2]:
                    ev.append(("ERun", ("Sync",) if mode == "sync" else ("Async",), x_t))
            else:
                ev.append(("ESet", x_t, ctx.result(g[2])))
        evs.append(ev)
    return evs


def check_gather(vt, lazy, xts, policy) -> Optional[dict]:
    """Overlapping calls started together on a real event loop: each returns what the wrapped validator
    returns for its own input, and the wrapped validator runs once per miss."""
    import asyncio
    alone = []
    for xt in xts:
        ctx = Ctx(G.STD_CLASSES, lazy)
        v = ctx.validator(vt)
        try:
            alone.append((ctx, drive(v.validate_async(to_py(xt, ctx.ct)))))
        except Exception as e:  # noqa
            alone.append((ctx, e))
    ctx = Ctx(G.STD_CLASSES, lazy)
    cnt = Counting(ctx.validator(vt))
    cache = LogCache(cnt, policy, ctx.ct)
    xs = [to_py(xt, ctx.ct) for xt in xts]

    async def together():
        return await asyncio.gather(*[cache.validate_async(x) for x in xs], return_exceptions=True)
    res = drive(together())
    for i, (r, (actx, a)) in enumerate(zip(res, alone)):
        if isinstance(a, Exception) or isinstance(r, Exception):
            if type(a) is not type(r):
                return {"signature": "C20:overlapping", "what": f"calls {xs!r} started together: call {i} gave {r!r}, the wrapped validator gives {a!r}"}
            continue
        if not same_result_cross(ctx, r, actx, a):
            return {"signature": "C20:overlapping", "what": f"calls {xs!r} started together: call {i} returned {r!r}, the wrapped validator returns {a!r}"}
    misses = sum(1 for ev in cache.log if ev[0] == "get" and not ev[2])
    if len(cnt.runs) != misses:
        return {"signature": "C20:runs-not-once-per-miss",
                "what": f"calls {xs!r} started together: {misses} lookups missed but the wrapped validator ran {len(cnt.runs)} times"}
    return None


def nested_caches() -> Optional[dict]:
    """A cache around a validator that itself contains cached validators: every wrapper, at every level, looks its
    own input up, runs its validator exactly on a miss and stores exactly that result - also while an outer
    wrapper's call is in progress."""
    from koda_validate import IntValidator, ListValidator, MapValidator, StringValidator
    for mode in ("sync", "async"):
        for policy in ("id", "eq"):
            ct = Ctx(G.STD_CLASSES, []).ct
            c_item = Counting(IntValidator())
            item = LogCache(c_item, policy, ct)
            c_key = Counting(StringValidator())
            key = LogCache(c_key, policy, ct)
            c_outer = Counting(ListValidator(MapValidator(key=key, value=item)))
            outer = LogCache(c_outer, policy, ct)
            one = 1
            xs = [[{"a": one, "b": one}], [{"a": one, "b": "x"}], [{"a": one}]]
            xs.append(xs[0])
            for x in xs:
                try:
                    r = outer(x) if mode == "sync" else drive(outer.validate_async(x))
                except Exception as e:  # noqa
                    return {"signature": "C20:nested", "what": f"nested cache wrappers ({mode}, {policy}) raised {e!r} on {x!r}"}
                exp = c_outer.inner(x) if False else None
            for name, cache, cnt in (("item", item, c_item), ("key", key, c_key), ("outer", outer, c_outer)):
                gets = [ev for ev in cache.log if ev[0] == "get"]
                misses = [ev for ev in gets if not ev[2]]
                sets = [ev for ev in cache.log if ev[0] == "set"]
                if len(cnt.runs) != len(misses) or len(sets) != len(misses):
                    return {"signature": "C20:nested",
                            "what": f"nested cache wrappers ({mode}, {policy} store): the {name} wrapper had {len(gets)} lookups, {len(misses)} misses, "
                                    f"{len(sets)} stores and its validator ran {len(cnt.runs)} times"}
            # every element reached its own wrapper: 1 looked up 5 times as a value ... (at least once per occurrence)
            if len([ev for ev in item.log if ev[0] == "get"]) < 5 or len([ev for ev in key.log if ev[0] == "get"]) < 5:
                return {"signature": "C20:nested", "what": f"nested cache wrappers ({mode}, {policy} store): inner wrappers were bypassed: "
                                                            f"item lookups {len([ev for ev in item.log if ev[0] == 'get'])}, key lookups {len([ev for ev in key.log if ev[0] == 'get'])}"}
    return None


def several_event_loops(prefix: str = "C20") -> Optional[dict]:
    """One shared instance used by overlapping tasks under one event loop, then under another, then under a third
    (each `asyncio.run` makes a new one): every call returns what the wrapped validator returns alone."""
    import asyncio
    from koda_validate import IntValidator, ListValidator, Min, StringValidator
    for policy in ("eq", "id"):
        ct = Ctx(G.STD_CLASSES, []).ct
        cnt = Counting(IntValidator(Min(0)))
        cache = LogCache(cnt, policy, ct)
        plain = ListValidator(cache)
        batches = [[1, 1, -1], [2, 1, "x"], [-1, 3, 3], [[1, -1], [2], [1]]]
        for bi, xs in enumerate(batches):
            target = plain if isinstance(xs[0], list) else cache

            async def together(target=target, xs=xs):
                return await asyncio.gather(*[target.validate_async(x) for x in xs], return_exceptions=True)
            loop = asyncio.new_event_loop()
            try:
                res = loop.run_until_complete(together())
            except Exception as e:  # noqa
                return {"signature": f"{prefix}:event-loops", "what": f"batch {bi} of overlapping calls {xs!r} under a new event loop raised {e!r}"}
            finally:
                loop.close()
            for x, r in zip(xs, res):
                ref = ListValidator(IntValidator(Min(0))) if isinstance(x, list) else IntValidator(Min(0))
                want = ref(x)
                if isinstance(r, Exception) or r.is_valid != want.is_valid or (r.is_valid and r.val != want.val):
                    return {"signature": f"{prefix}:event-loops",
                            "what": f"a cache ({policy} store) shared by overlapping tasks under {bi + 1} successive event loops: {x!r} gave {r!r}; "
                                    f"the wrapped validator alone gives {want!r}"}
    return None


def cache_variants() -> Optional[dict]:
    """The wrapper stands for *the object it was given*, through that object's public entry points, whatever class the
    cache itself is: (i) a cache directly around another cache with another store policy, (ii) cache classes that
    inherit their hooks (a subclass adding nothing, one overriding only the setters, hooks from a mixin), (iii) a
    wrapped validator that is a user subclass of a built-in one overriding __call__ / validate_async."""
    from koda_validate import IntValidator, PredicateAsync, StringValidator

    def call(v, x, mode):
        return v(x) if mode == "sync" else drive(v.validate_async(x))

    class Inherits(LogCache):
        pass

    class OnlySetters(LogCache):
        def cache_set_sync(self, val, cache_val):
            self.log.append(("set*", val))
            LogCache.cache_set_sync(self, val, cache_val)

        async def cache_set_async(self, val, cache_val):
            await Yield()
            self.cache_set_sync(val, cache_val)

    class HooksMixin:
        def cache_get_sync(self, val):
            return LogCache.cache_get_sync(self, val)

        def cache_set_sync(self, val, cache_val):
            LogCache.cache_set_sync(self, val, cache_val)

        async def cache_get_async(self, val):
            await Yield()
            return LogCache.cache_get_sync(self, val)

        async def cache_set_async(self, val, cache_val):
            await Yield()
            LogCache.cache_set_sync(self, val, cache_val)

    class FromMixin(HooksMixin, CacheValidatorBase):  # type: ignore
        def __init__(self, validator, policy, ct):
            CacheValidatorBase.__init__(self, validator)
            self.policy, self.ct, self.store, self.log = policy, ct, [], []
        _find = LogCache._find

    class Shouting(StringValidator):
        """normalises its input before validating - consistently through both entry points"""
        def __call__(self, val):
            return super().__call__(val.strip().upper() if isinstance(val, str) else val)

        async def validate_async(self, val):
            return await super().validate_async(val.strip().upper() if isinstance(val, str) else val)

    for mode in ("sync", "async"):
        ct = Ctx(G.STD_CLASSES, []).ct
        # (i) identity-keyed cache in front of an equality-keyed one (and the other way round)
        for outer_p, inner_p in (("id", "eq"), ("eq", "id")):
            cnt = Counting(IntValidator())
            inner = LogCache(cnt, inner_p, ct)
            outer = LogCache(inner, outer_p, ct)
            if outer.validator is not inner:
                return {"signature": "C20:variants", "what": "a cache built around another cache does not hold the object it was given"}
            one = 1
            for x in (one, 1.0, True, one, "s", 1.0):
                n_inner = len([ev for ev in inner.log if ev[0] == "get"])
                hit = outer._find(x).is_just
                expected = None if hit else call(LogCache(Counting(IntValidator()), inner_p, ct), x, mode)
                r = call(outer, x, mode)
                asked_inner = len([ev for ev in inner.log if ev[0] == "get"]) > n_inner
                if hit == asked_inner:
                    return {"signature": "C20:variants",
                            "what": f"cache ({outer_p}) around cache ({inner_p}), {mode}, input {x!r}: the outer store {'held' if hit else 'did not hold'} it, "
                                    f"yet the inner cache was {'asked' if asked_inner else 'not asked'}"}
                if expected is not None and (r.is_valid != expected.is_valid):
                    return {"signature": "C20:variants", "what": f"cache around cache, {mode}: {x!r} gave {r!r}; the wrapped cache alone gives {expected!r}"}
        # (ii) cache classes that inherit their hooks
        for cls in (Inherits, OnlySetters, FromMixin):
            for policy in ("id", "eq"):
                cnt = Counting(IntValidator())
                cache = cls(cnt, policy, ct)
                a = 7
                seq = [a, a, "x", "x", a]
                for x in seq:
                    call(cache, x, mode)
                # every first occurrence runs the validator and is stored; every repetition is served from the store
                if len(cnt.runs) != 2 or len(cache.store) != 2:
                    return {"signature": "C20:variants",
                            "what": f"{cls.__name__} ({policy} store, {mode}): after {seq!r} the wrapped validator ran {len(cnt.runs)} times and the store holds "
                                    f"{len(cache.store)} entries; two inputs are new, three are repetitions"}
        # (iv) the wrapped validator is handed the caller's own object (what it returns names it by identity)
        from koda_validate import AlwaysValid, IsDictValidator, ListValidator as _LV
        for wrapped, xs_ in ((AlwaysValid(), [[1, 2], {"k": 1}, {3}]), (IsDictValidator(), [{"k": 1}, [1]]), (IntValidator(), [[1], {"a": 1}, {1}]),
                             (_LV(IntValidator()), [["x"], {"k": 1}])):
            cache_ = LogCache(Counting(wrapped), "id", ct)
            for x in xs_:
                r = call(cache_, x, mode)
                held = r.val if r.is_valid else r.value
                direct = call(wrapped, x, mode)
                dheld = direct.val if direct.is_valid else direct.value
                if (dheld is x) and held is not x:
                    return {"signature": "C20:variants",
                            "what": f"cache around {wrapped!r} ({mode}) on {x!r}: the wrapped validator alone hands back the caller's own object, "
                                    f"through the cache the result holds another object ({r!r})"}
        # (v) a stored result is a stored result whichever entry point asks: async miss, then a sync call - also when the
        # wrapped validator itself could not run synchronously
        class _Even(PredicateAsync):      # type: ignore
            async def validate_async(self, val):
                return val % 2 == 0
        async_only = IntValidator(predicates_async=[_Even()])
        cache2 = LogCache(async_only, "eq", ct)
        for x in (2, 3, "s"):
            first = drive(cache2.validate_async(x))
            try:
                second = cache2(x)
            except Exception as e:  # noqa
                return {"signature": "C20:variants",
                        "what": f"cache around a validator with async-only predicates: {x!r} was validated (and stored) asynchronously; the sync call for the stored input raised {e!r}"}
            if second.is_valid != first.is_valid:
                return {"signature": "C20:variants", "what": f"async miss then sync hit on {x!r}: {first!r} then {second!r}"}
        # (vi) a call in which the wrapped validator raised produced no result: nothing is stored for it, asking again
        # asks the validator again
        cache3 = LogCache(IntValidator(predicates_async=[_Even()]), "eq", ct)
        for attempt in (1, 2):
            try:
                r_ = cache3(4)
                return {"signature": "C20:variants",
                        "what": f"cache around a validator that cannot run synchronously: sync call {attempt} for a value never validated before returned {r_!r} instead of raising as the validator does"}
            except AssertionError:
                pass
            except Exception as e:  # noqa
                return {"signature": "C20:variants", "what": f"cache around a validator that cannot run synchronously: sync call {attempt} raised {e!r}, the validator alone raises AssertionError"}
        if cache3.store:
            return {"signature": "C20:variants", "what": f"calls in which the wrapped validator raised left entries in the store: {cache3.store!r}"}
        after = drive(cache3.validate_async(4))
        if not getattr(after, "is_valid", False):
            return {"signature": "C20:variants", "what": f"after two sync calls that raised, the awaited call for the same value returned {after!r}; the validator alone accepts it"}
        # (iii) a wrapped user subclass overriding the public entry points
        v = Shouting()
        cache = LogCache(v, "eq", ct)
        for x in (" ab ", "cd", " ab ", 5):
            want = call(Shouting(), x, mode)
            got = call(cache, x, mode)
            if got.is_valid != want.is_valid or (got.is_valid and got.val != want.val):
                return {"signature": "C20:variants",
                        "what": f"cache around a StringValidator subclass that overrides __call__ / validate_async ({mode}): {x!r} gave {got!r}; the validator alone gives {want!r}"}
    return None


def run(tier: str, rng: random.Random, proof_ok: bool) -> dict:
    t0 = time.time()
    violations: List[dict] = []
    seen = set()
    n_hist = n_inter = n_sched = 0
    samples = []
    INT = ("Scalar", ("KInt",), None, [], [("PMin", G.I(0), False)], [])
    STRIP = ("Scalar", ("KStr",), None, [("Strip",)], [("PNotBlank",)], [])
    AINT = ("Scalar", ("KInt",), None, [], [], [("APred", N(2)), ("APred", N(3))])
    fixed = [(INT, [G.I(1), G.I(-1), G.TRUE]), (STRIP, [G.S(" a "), G.S("a"), G.S("  ")]),
             (("ListV", INT, [], [], None), [("VList", [G.I(1)]), ("VList", [G.I(-1)]), ("VList", [])]),
             (("Scalar", ("KInt",), Some(("CoUser", N(2))), [], [], []), [G.I(1), G.TRUE, G.F1]),
             (("UnionV", [INT, STRIP]), [G.I(5), G.S(" x"), G.NONE])]
    L = 4 if tier == "quick" else 6
    coq_items = []
    # (a) every history up to length L over a 3-input alphabet x {sync, async}
    for vt, alpha in fixed:
        for k in range(0, L + 1):
            hs = list(itertools.product([(m, x) for m in ("sync", "async") for x in alpha], repeat=k))
            if len(hs) > (120 if tier == "quick" else 4000):
                hs = rng.sample(hs, 120 if tier == "quick" else 4000)
            for ops in hs:
                for policy in ("id", "eq"):
                    n_hist += 1
                    r = check_history(vt, [], list(ops), policy)
                    if r and r["signature"] not in seen:
                        seen.add(r["signature"])
                        violations.append({"kind": "oracle", **r,
                                           "replay_case": {"v": to_json(vt), "ops": [[m, to_json(x)] for m, x in ops], "policy": policy}})
                if k and rng.random() < (0.15 if tier == "quick" else 0.05):
                    coq_items.append((vt, [], list(ops)))
    # (b) random wrapped validators of every kind, sampled histories up to length 200 (thorough)
    G.WF_ONLY[0] = True
    for _ in range(120 if tier == "quick" else 2500):
        lazy = [G.gen_validator(rng, 1, allow_async=False)]
        vt = G.gen_validator(rng, rng.choice([0, 1, 2]), allow_async=False, lazy_n=1)
        alpha = [G.valid_input(vt, rng, lazy), G.corrupt(G.valid_input(vt, rng, lazy), rng), rng.choice(G.HOSTILE)]
        n = rng.choice([1, 2, 3, 5, 8, 12] + ([50, 200] if tier != "quick" else []))
        ops = [(rng.choice(["sync", "async"]), rng.choice(alpha)) for _ in range(n)]
        try:
            r = check_history(vt, lazy, ops, rng.choice(["id", "eq"]))
        except HarnessError:
            continue
        n_hist += 1
        if r and r["signature"] not in seen:
            seen.add(r["signature"])
            violations.append({"kind": "oracle", **r,
                               "replay_case": {"v": to_json(vt), "lazy": to_json(lazy), "ops": [[m, to_json(x)] for m, x in ops], "policy": "eq"}})
        if len(ops) <= 5 and rng.random() < 0.5:
            coq_items.append((vt, lazy, ops))
        if len(samples) < 3:
            samples.append({"wrapped": coq(vt)[:200], "history": [[m, coq(x)[:60]] for m, x in ops[:6]]})
    G.WF_ONLY[0] = False
    # (c) all interleavings of 2-3 overlapping async calls (async-only predicates allowed here)
    for vt, alpha in fixed + [(AINT, [G.I(2), G.I(3), G.I(0)]), (("ListV", AINT, [], [], None), [("VList", [G.I(2)]), ("VList", [G.I(3), G.I(0)]), ("VList", [])])]:
        for k in (2, 3):
            for xts in itertools.product(alpha, repeat=k):
                if k == 3 and rng.random() < (0.8 if tier == "quick" else 0.0):
                    continue
                n_inter += 1
                r, c = check_interleavings(vt, [], list(xts), rng.choice(["id", "eq"]), 400 if tier == "quick" else 20000)
                n_sched += c
                if r and r["signature"] not in seen:
                    seen.add(r["signature"])
                    violations.append({"kind": "oracle", **r,
                                       "replay_case": {"v": to_json(vt), "inputs": [to_json(x) for x in xts], "interleaving": True}})
    # (c') the same call sets, and equal-but-distinct inputs, started together on a real event loop
    LAZYV = [("ListV", AINT, [], [], None)]
    together = fixed + [(AINT, [G.I(2), G.I(3), G.I(0)]), (INT, [G.I(1), G.TRUE, G.F1, G.D1]), (INT, [G.I(0), G.FALSE, G.F0]),
                        (("ListV", AINT, [], [], None), [("VList", [G.I(2)]), ("VList", [G.I(3), G.I(0)]), ("VList", [])]),
                        (("DictAnyV", [P(G.S("a"), AINT)], None, None, False), [("VDict", [P(G.S("a"), G.I(2))]), ("VDict", [P(G.S("a"), G.I(3))])]),
                        (("UserV", N(1), False), [G.I(2), G.I(3)]),
                        (("OptionalV", ("NoneV", None), AINT), [G.NONE, G.I(2), G.I(3)])]
    n_gather = 0
    for vt, alpha in together:
        for k in (2, 3):
            for xts in itertools.product(alpha, repeat=k):
                if k == 3 and rng.random() < (0.6 if tier == "quick" else 0.0):
                    continue
                for policy in ("id", "eq"):
                    n_gather += 1
                    try:
                        r = check_gather(vt, [], list(xts), policy)
                    except HarnessError:
                        continue
                    if r and r["signature"] not in seen:
                        seen.add(r["signature"])
                        violations.append({"kind": "oracle", **r,
                                           "replay_case": {"v": to_json(vt), "inputs": [to_json(x) for x in xts], "gather": policy}})
    # (a') async-only histories over wrapped validators whose async-only checks sit at or below the top
    for vt, alpha in [(AINT, [G.I(2), G.I(3)]), (("ListV", AINT, [], [], None), [("VList", [G.I(2)]), ("VList", [G.I(3)]), ("VList", [])]),
                      (("UserV", N(1), False), [G.I(2), G.I(3)]), (("OptionalV", ("NoneV", None), AINT), [G.NONE, G.I(2)]),
                      (("LazyV", N(0), False), [("VList", [G.I(2)]), ("VList", [G.I(5)])])]:
        for k in range(1, 4):
            for xs in itertools.product(alpha, repeat=k):
                ops = [("async", x) for x in xs]
                for policy in ("id", "eq"):
                    n_hist += 1
                    r = check_history(vt, LAZYV, ops, policy)
                    if r and r["signature"] not in seen:
                        seen.add(r["signature"])
                        violations.append({"kind": "oracle", **r,
                                           "replay_case": {"v": to_json(vt), "lazy": to_json(LAZYV), "ops": [[m, to_json(x)] for m, x in ops], "policy": policy}})
    nc = nested_caches()
    if nc and nc["signature"] not in seen:
        seen.add(nc["signature"])
        violations.append({"kind": "oracle", **nc, "replay_case": {"nested": True}})
    sel = several_event_loops("C20")
    if sel and sel["signature"] not in seen:
        seen.add(sel["signature"])
        violations.append({"kind": "oracle", **sel, "replay_case": {"event_loops": True}})
    cv = cache_variants()
    if cv and cv["signature"] not in seen:
        seen.add(cv["signature"])
        violations.append({"kind": "oracle", **cv, "replay_case": {"variants": True}})
    # (d) correspondence: the model's history function on the same histories
    mism, n_coq = model_histories(coq_items, violations)
    cov = {"evaluations": n_hist + n_sched, "distinct_nontrivial": n_hist + n_inter,
           "rule": "histories (exhaustive to length L over 3-input alphabets x {sync, async} x {identity, equality} stores, plus sampled) and schedules (all interleavings of 2-3 overlapping async calls at their real suspension points)",
           "histories": n_hist, "interleaved_call_sets": n_inter, "schedules": n_sched, "call_sets_started_together": n_gather,
           "model_histories_compared": n_coq, "mismatches": mism, "samples": samples or [{"note": "see rule"}],
           "traces_validated_against_impl": n_coq, "corr_wall_s": round(time.time() - t0, 1)}
    return {"violations": violations, "coverage": cov}


def model_histories(items, violations) -> Tuple[int, int]:
    """Evaluate Model/Cache.history in Coq on the same histories and compare outputs and events."""
    if not items:
        return 0, 0
    os.makedirs(GEN, exist_ok=True)
    lines = []
    orc = Oracles()
    for vt, lazy, ops in items:
        try:
            ctx, cache, cnt, outs, ins = run_history(vt, lazy, ops, "eq")
            if any(isinstance(o, Exception) for o in outs):
                continue
            out_terms = [ctx.result(o) for o in outs]
            evs = event_terms(ctx, cache, ops, outs)
            xs_seen = [from_py(x, ctx.ct) for x in ins]
        except (HarnessError, IndexError, TypeError):
            continue
        acc: list = []
        subvalues(vt, acc)
        for x in xs_seen:
            subvalues(x, acc)
        for t in acc:
            orc.add_value(t, ctx.ct)
        class _C:
            re_log = list(U.RE_LOG)
            email_log = list(U.EMAIL_LOG)
        orc.harvest_logs(_C)
        env = f"(mk_env {coq(ctx.ct.coq())} {coq(lazy)} oracle_tbl re_tbl email_tbl case_tbl)"
        ops_c = coq([P(("Sync",) if m == "sync" else ("Async",), x) for (m, _), x in zip(ops, xs_seen)])
        lhs = (f"(let '(_, rs, evs) := history (fun m x => canon_outcome (run {env} m 60%nat {coq(vt)} x)) pyval_eqb [] {ops_c} in (rs, evs))")
        rhs = f"({coq([('canon_outcome', o) for o in out_terms])}, {coq([[_canon_ev(e) for e in ev] for ev in evs])})"
        lines.append((lhs, rhs, (vt, ops)))
    per = 150
    files = []
    for k in range(0, len(lines), per):
        chunk = lines[k:k + per]
        path = os.path.join(GEN, f"cases_C20_p{os.getpid()}_{k // per}.v")
        body = [HEADER.replace("Corr.Check.", "Corr.Check Model.Cache."), orc.coq(), "Goal True.\n"]
        for i, (lhs, rhs, _) in enumerate(chunk):
            body.append(f"  chk_eq {i}%nat {lhs} {rhs}.\n")
        body.append("exact I. Qed.\n")
        open(path, "w").write("".join(body))
        files.append((path, chunk))
    with ThreadPoolExecutor(max_workers=16) as ex:
        results = list(ex.map(lambda fc: run_coq_file(fc[0]), files))
    mism = 0
    for (path, chunk), (status, mm, raw) in zip(files, results):
        if status != "ok":
            violations.append({"kind": "correspondence", "signature": None,
                               "what": f"correspondence file {os.path.basename(path)} failed to evaluate", "log": raw[-1500:]})
        for idx, model in mm:
            mism += 1
            if mism <= 2:
                vt, ops = chunk[idx][2]
                violations.append({"kind": "correspondence", "signature": None,
                                   "what": "correspondence family 'C20-history' no longer checks: model and implementation differ on a history",
                                   "case": {"v": to_json(vt), "ops": [[m, to_json(x)] for m, x in ops]},
                                   "model_outcome": model[:1500], "observed_outcome": chunk[idx][1][:1500]})
        if status == "ok" and not mm:
            for ext in (".v", ".vo", ".vok", ".vos", ".glob"):
                try:
                    os.remove(path[:-2] + ext)
                except OSError:
                    pass
    return mism, len(lines)


def _canon_ev(e):
    if e[0] == "ESet":
        return ("ESet", e[1], ("canon_outcome", e[2]))
    return e


def replay(path: str) -> int:
    import json
    j = json.load(open(path))
    rc = j.get("replay_case")
    if not rc:
        print("no input in replay file:", j.get("what"))
        return 1
    if rc.get("nested"):
        r = nested_caches()
        print("violation:" if r else "property holds for nested cache wrappers", r["what"] if r else "")
        return 1 if r else 0
    if rc.get("event_loops"):
        r = several_event_loops("C20")
        print("violation:" if r else "property holds under several event loops", r["what"] if r else "")
        return 1 if r else 0
    if rc.get("variants"):
        r = cache_variants()
        print("violation:" if r else "property holds for caches over caches, inherited hooks and overridden entry points", r["what"] if r else "")
        return 1 if r else 0
    vt = from_json(rc["v"])
    lazy = from_json(rc.get("lazy", []))
    if rc.get("interleaving"):
        r, _ = check_interleavings(vt, lazy, [from_json(x) for x in rc["inputs"]], "eq", 100000)
    elif rc.get("gather"):
        r = check_gather(vt, lazy, [from_json(x) for x in rc["inputs"]], rc["gather"])
    else:
        r = check_history(vt, lazy, [(m, from_json(x)) for m, x in rc["ops"]], rc.get("policy", "eq"))
    print("violation:" if r else "property holds on this history", r["what"] if r else "")
    return 1 if r else 0
