"""C17 - validated output is a fixed point: re-validating a payload returns it unchanged."""
from __future__ import annotations

import random
from typing import Any, List, Optional

from koda_validate import Invalid, Valid

from .. import gen as G
from ..build import HarnessError
from ..corr import Case, drive, observe
from ..lang import N, P, Some, coq, freeze
from .C03 import _canon
from .common import generic_replay, run_families, std_case

ASSUMPTIONS = [
    "trees use no user-defined coercers and only idempotent processors; union variants return their input; RecordValidator only with the dict-building target; class defaults are accepted by their own field validators",
    "Coq theorems are partial: proved on the fragment Fixpoint.fp_ok (incl. sets / maps without container predicates, DictValidatorAny and Dataclass / NamedTuple / TypedDict validators with string keys and no whole-object validator); RecordValidator targets and container predicates on the payload are covered by re-validation in the correspondence",
]
from ..facts import effects as _effects  # noqa: E402
_FX = _effects.obligation("C17")
EXTRA_PROOF_FILES = [_FX[0]]
TRUSTED_EXTRA = [_FX[1]]
regenerate_facts = _FX[2]

IDEM_PROCS = [("Strip",), ("Upper",), ("Lower",), ("ProcUser", N(0))]


def fp_scalar(rng: random.Random, kind: Optional[str] = None, plain: bool = False):
    kind = kind or rng.choice(G.KINDS)
    co = None
    if kind in G.DEFAULT_CO and not plain and rng.random() < 0.6:
        co = Some((G.DEFAULT_CO[kind],))
    pre = []
    if kind in ("KStr", "KBytes") and not plain:
        pre = [rng.choice(IDEM_PROCS) for _ in range(rng.choice([0, 0, 1, 2]))]
    ps = [rng.choice(G.typed_preds(kind, rng)) for _ in range(rng.choice([0, 0, 1, 2]))]
    ps = [p for p in ps if not (kind in ("KDecimal", "KDatetime") and p[0] in ("PMin", "PMax", "PEqualTo", "PMultipleOf", "PChoices"))]
    aps = [("APred", N(rng.choice([0, 2, 3])))] if rng.random() < 0.15 else []
    return ("Scalar", (kind,), co, pre, ps, aps)


def fp_tree(rng: random.Random, depth: int, lazy_n: int = 0):
    if depth <= 0:
        r = rng.random()
        if r < 0.75:
            return fp_scalar(rng)
        if r < 0.8:
            return ("NoneV", None)
        if r < 0.88:
            return ("EqualsV", rng.choice(G.ATOMS_HASHABLE[:30]), [])
        if r < 0.94:
            return ("AlwaysValid",)
        return ("IsDictV",)
    sub = lambda: fp_tree(rng, depth - 1, lazy_n)
    cps = lambda: [rng.choice(G.coll_preds(rng)) for _ in range(rng.choice([0, 0, 0, 1]))]
    obj = lambda: (None if rng.random() < 0.7 else Some(N(rng.choice([0, 2]))))
    r = rng.random()
    if r < 0.13:
        return ("ListV", sub(), cps(), [], None)
    if r < 0.2:
        return ("SetV", sub(), cps(), [], None)
    if r < 0.28:
        return ("UTupleV", sub(), cps(), [], rng.choice([None, Some(("CoTupleOrList",))]))
    if r < 0.38:
        return ("NTupleV", [sub() for _ in range(rng.choice([0, 1, 2, 3]))], obj(), rng.choice([None, Some(("CoTupleOrList",))]))
    if r < 0.46:
        mps = [rng.choice(G.map_preds(rng)) for _ in range(rng.choice([0, 0, 0, 1]))]
        return ("MapV", sub(), sub(), mps, [], None)
    if r < 0.54:
        k = rng.choice([0, 1, 2, 3])
        return ("RecordV", [P(G.I(i), sub()) for i in range(k)], N(2), obj(), None, rng.random() < 0.4)
    if r < 0.62:
        keys = rng.sample(G.LEAF_KEYS, rng.choice([0, 1, 2, 3]))
        ks = [P(k, (("KeyNotRequired", sub()) if rng.random() < 0.35 else sub())) for k in keys]
        return ("DictAnyV", ks, obj(), None, rng.random() < 0.4)
    if r < 0.74:
        # defaults must be accepted by their own field validators (C_DATA.b = 5, C_NAMED.y = "d")
        cid = rng.choice(list(G.CLASS_SCHEMAS))
        rk, flds = G.CLASS_SCHEMAS[cid]
        dflt_ok = {(G.C_DATA, "b"): [("AlwaysValid",), ("Scalar", ("KInt",), None, [], [], [])],
                   (G.C_DERIVED2, "b"): [("AlwaysValid",), ("Scalar", ("KInt",), None, [], [], [])],
                   (G.C_SLOTSUB, "b"): [("AlwaysValid",), ("Scalar", ("KInt",), None, [], [], [])],
                   (G.C_NAMED, "y"): [("AlwaysValid",), ("Scalar", ("KStr",), None, [("Strip",)], [], [])],
                   (G.C_FACTORY, "b"): [("AlwaysValid",), ("ListV", ("AlwaysValid",), [], [], None)],
                   (G.C_NAMED2, "y"): [("AlwaysValid",), ("Scalar", ("KStr",), None, [("Strip",)], [], [])],
                   (G.C_NAMED2, "z"): [("AlwaysValid",), ("Scalar", ("KInt",), None, [], [], [])]}
        schema = [P(G.S(nm), P(rng.choice(dflt_ok[(cid, nm)]) if (cid, nm) in dflt_ok else sub(), req)) for nm, req in flds]
        return ("ClassV", (rk,), N(cid), schema, obj(), None, rng.random() < 0.4, None)
    if r < 0.82:
        kinds = rng.sample(G.KINDS, rng.choice([1, 2, 3]))
        return ("UnionV", [fp_scalar(rng, k, plain=True) for k in kinds])
    if r < 0.88:
        return ("OptionalV", ("NoneV", None), sub())
    if r < 0.93:
        return ("MaybeV", sub())
    if r < 0.96 and lazy_n:
        return ("LazyV", N(rng.randrange(lazy_n)), True)
    return ("CacheV", sub())


def strip_user_coercers(t):
    """gen_classv may add a no-coerce coercer; those are built-in and fine."""
    return t


INT_ = ("Scalar", ("KInt",), None, [], [], [])


def cases(tier: str, rng: random.Random) -> List[Case]:
    out: List[Case] = []
    n = 1300 if tier == "quick" else 30000
    for _ in range(n):
        lazy = [fp_tree(rng, rng.choice([0, 1]))]
        v = fp_tree(rng, rng.choice([0, 1, 2, 2, 3]), lazy_n=1)
        x = G.valid_input(v, rng, lazy)
        m = rng.choice(["sync", "async"])
        c1 = std_case(v, x, m, lazy=lazy, tag="b:first")
        try:
            observe(c1)
        except HarnessError:
            continue
        out.append(c1)
        if c1.obs and c1.obs[0] == "OValid":
            c2 = std_case(v, c1.obs[1], m, lazy=lazy, tag="b:refed")
            c2.first_input = x
            out.append(c2)
    # instances holding other instances / opaque objects: accepted as they are, and again when fed back
    for v, x in G.instance_cases(rng):
        for m in ("sync", "async"):
            c1 = std_case(v, x, m, tag="a:instances")
            try:
                observe(c1)
            except HarnessError:
                continue
            out.append(c1)
            if c1.obs and c1.obs[0] == "OValid":
                c2 = std_case(v, c1.obs[1], m, tag="a:instances-refed")
                c2.first_input = x
                out.append(c2)
    # every text of the parse pool (midnight timestamps, texts around byte order marks, ...) through the text-reading
    # scalars and the stripping string validator - bare and as list items: whatever is accepted is accepted again
    texts_ = list(G.PARSE_STRS) + [G.S(t_) for t_ in ("\ufeff name", "name \ufeff", "\ufeff  x  \ufeff", " \ufeffy", "z\ufeff ")]
    tvs = [("Scalar", (k_,), Some((G.DEFAULT_CO[k_],)), [], [], []) for k_ in ("KDecimal", "KUuid", "KDate", "KDatetime")] + \
          [("Scalar", ("KStr",), None, [("Strip",)], [], []), ("Scalar", ("KStr",), None, [("Strip",), ("Upper",)], [("PNotBlank",)], [])]
    for v in tvs:
        for x in texts_:
            for vv, xx in ((v, x), (("ListV", v, [], [], None), ("VList", [x]))):
                m = "sync" if (len(out) % 2) else "async"
                c1 = std_case(vv, xx, m, tag="a:texts")
                try:
                    observe(c1)
                except HarnessError:
                    continue
                out.append(c1)
                if c1.obs and c1.obs[0] == "OValid":
                    c2 = std_case(vv, c1.obs[1], m, tag="a:texts-refed")
                    c2.first_input = xx
                    out.append(c2)
    # uniqueness over rows that come in as lists of mappings and go out as tuples of mappings, and over records that
    # are rebuilt in schema order
    ROW = ("NTupleV", [("IsDictV",), INT_], None, Some(("CoTupleOrList",)))
    UROW = ("UTupleV", ("IsDictV",), [], [], Some(("CoTupleOrList",)))
    REC = ("DictAnyV", [P(G.S("x"), INT_), P(G.S("y"), INT_)], None, None, False)
    d1 = ("VDict", [P(G.S("x"), G.I(1)), P(G.S("y"), G.I(2))])
    d1p = ("VDict", [P(G.S("y"), G.I(2)), P(G.S("x"), G.I(1))])
    d2 = ("VDict", [P(G.S("x"), G.I(1)), P(G.S("y"), G.I(3))])
    for v, xs in ((("ListV", ROW, [("PUniqueItems",)], [], None), [[("VList", [d1, G.I(1)]), ("VList", [d2, G.I(2)])], [("VList", [d1, G.I(1)]), ("VList", [d1, G.I(1)])]]),
                  (("ListV", UROW, [("PUniqueItems",)], [], None), [[("VList", [d1]), ("VList", [d2, d1])], [("VTuple", [d1])]]),
                  (("UTupleV", REC, [("PUniqueItems",)], [], Some(("CoTupleOrList",))), [[d1, d2], [d1, d1p], [d1p, d2], [d1]]),
                  (("ListV", REC, [("PUniqueItems",)], [], None), [[d1, d1p], [d1, d2], [d2, d1p, d1]])):
        for x in xs:
            for m in ("sync", "async"):
                c1 = std_case(v, ("VList", x), m, tag="a:unique-rows")
                try:
                    observe(c1)
                except HarnessError:
                    continue
                out.append(c1)
                if c1.obs and c1.obs[0] == "OValid":
                    c2 = std_case(v, c1.obs[1], m, tag="a:unique-rows-refed")
                    c2.first_input = ("VList", x)
                    out.append(c2)
    # unions over a dataclass and its subclass, dataclasses with extra instance state
    INT = ("Scalar", ("KInt",), None, [], [], [])
    def cls_v(cid, strict=False):
        rk, flds = G.CLASS_SCHEMAS[cid]
        return ("ClassV", (rk,), N(cid), [P(G.S(nm), P(INT, req)) for nm, req in flds], None, None, strict, None)
    for v in [("UnionV", [cls_v(G.C_BASE2), cls_v(G.C_DERIVED2)]), ("UnionV", [cls_v(G.C_DERIVED2), cls_v(G.C_BASE2)]),
              cls_v(G.C_POSTINIT, True), cls_v(G.C_SLOTSUB, True), cls_v(G.C_SLOTSUB), cls_v(G.C_DERIVED2, True),
              ("ListV", cls_v(G.C_POSTINIT, True), [], [], None)]:
        for x in [("VDict", [P(G.S("a"), G.I(1))]), ("VDict", [P(G.S("a"), G.I(1)), P(G.S("b"), G.I(2))]),
                  ("VList", [("VDict", [P(G.S("a"), G.I(1))])])]:
            for m in ("sync", "async"):
                c1 = std_case(v, x, m, tag="a:classes")
                try:
                    observe(c1)
                except HarnessError:
                    continue
                out.append(c1)
                if c1.obs and c1.obs[0] == "OValid":
                    out.append(std_case(v, c1.obs[1], m, tag="a:classes-refed"))
    return out


def oracle(c: Case) -> Optional[dict]:
    """v(v(x).val) == Valid(v(x).val), same types, on the implementation."""
    if c.exc is not None or type(c.raw) is not Valid:
        return None
    ctx = c.ctx
    w = c.raw.val
    try:
        r2 = c.vobj(w) if c.mode == "sync" else drive(c.vobj.validate_async(w))
    except Exception as e:  # noqa
        return {"signature": "C17:revalidation-raised", "what": f"re-validating the payload {w!r} raised {e!r}"}
    try:
        same = type(r2) is Valid and freeze(_canon(ctx.result(r2))) == freeze(_canon(ctx.result(c.raw)))
    except HarnessError:
        return None
    if same:
        return None
    sig = "C17:not-a-fixed-point"
    leaves = _leaf_failures(r2) if type(r2) is Invalid else []
    if leaves and _container_pred_on_payload(c.v) and all(
            type(l.err_type).__name__ == "PredicateErrs" and type(l.validator).__name__ in (
                "ListValidator", "SetValidator", "UniformTupleValidator", "MapValidator") for l in leaves):
        # every failure of the second run, at whatever depth, is a container predicate judging a payload container
        sig = "C17:container-predicate-on-payload"
    return {"signature": sig, "what": f"{c.vobj!r} accepted {c.px!r} with payload {w!r}, but re-validating the payload gives {r2!r}"}


def _leaf_failures(inv, depth: int = 0) -> list:
    """The Invalids of an error tree that have no child errors."""
    if type(inv) is not Invalid or depth > 60:
        return []
    e = inv.err_type
    kids = []
    for attr in ("keys", "indexes"):
        d = getattr(e, attr, None)
        if type(d) is dict:
            for k in d.values():
                kids += [k] if type(k) is Invalid else [x for x in (getattr(k, "key", None), getattr(k, "val", None)) if x is not None]
    for attr in ("variants", "item_errs"):
        kids += list(getattr(e, attr, None) or [])
    if type(getattr(e, "child", None)) is Invalid:
        kids.append(e.child)
    if not kids:
        return [inv]
    out = []
    for k in kids:
        out += _leaf_failures(k, depth + 1)
    return out


def _container_pred_on_payload(t) -> bool:
    """Does some collection in the tree carry a container predicate over payload-changing children?"""
    if isinstance(t, tuple):
        if t and t[0] in ("ListV", "SetV", "UTupleV") and t[2]:
            return True
        if t and t[0] == "MapV" and t[3]:
            return True
        return any(_container_pred_on_payload(x) for x in t[1:])
    if isinstance(t, list):
        return any(_container_pred_on_payload(x) for x in t)
    if isinstance(t, P):
        return _container_pred_on_payload(t.a) or _container_pred_on_payload(t.b)
    if isinstance(t, Some):
        return _container_pred_on_payload(t.x)
    return False


STRIP = ("Scalar", ("KStr",), None, [("Strip",)], [], [])
WITNESS = ("ListV", STRIP, [("PUniqueItems",)], [], None)
WITNESS_X = ("VList", [G.S(" a"), G.S("a ")])


def probe_known(k: dict) -> bool:
    c = std_case(WITNESS, WITNESS_X, "sync")
    observe(c)
    r = oracle(c)
    return bool(r) and r["signature"] == k["signature"]


def nontrivial(c: Case) -> bool:
    return c.obs is not None and c.obs[0] == "OValid" and c.v[0] not in ("Scalar", "AlwaysValid")


def instance_fields_kept() -> Optional[dict]:
    """An instance of the record class is accepted as it is: every field keeps its value *and its type*, also when the
    value equals the field's declared default (False / 0.0 against a default of 0, 1.0 against 1)."""
    import dataclasses as _dc
    from typing import NamedTuple, Union
    from koda_validate import DataclassValidator, NamedTupleValidator, Valid
    NT = NamedTuple("NT", [("name", str), ("a", Union[int, bool, float]), ("b", Union[int, float])])
    NT.__new__.__defaults__ = (0, 1)
    NT._field_defaults = {"a": 0, "b": 1}
    DC = _dc.make_dataclass("DC", [("name", str), ("a", Union[int, bool, float], _dc.field(default=0)), ("b", Union[int, float], _dc.field(default=1))])
    for cls, V in ((NT, NamedTupleValidator), (DC, DataclassValidator)):
        v = V(cls)
        for a, b in ((False, 1.0), (0.0, 1), (0, True) if False else (0, 1), (True, 2.5), (False, 1)):
            inst = cls("n", a, b)
            for mode in ("sync", "async"):
                r = v(inst) if mode == "sync" else drive(v.validate_async(inst))
                ok = type(r) is Valid and type(r.val) is cls and (r.val.a, r.val.b) == (a, b) and type(r.val.a) is type(a) and type(r.val.b) is type(b)
                if not ok:
                    return {"signature": "C17:instance-fields", "what": f"{V.__name__} ({mode}) given the instance {inst!r} returned {r!r}: the fields do not keep their values and types"}
                r2 = v(r.val) if mode == "sync" else drive(v.validate_async(r.val))
                if type(r2) is not Valid or (r2.val.a, r2.val.b) != (a, b) or type(r2.val.a) is not type(a) or type(r2.val.b) is not type(b):
                    return {"signature": "C17:instance-fields", "what": f"{V.__name__} ({mode}): its payload {r.val!r} comes back as {r2!r} when validated again"}
    return None


def run(tier: str, rng: random.Random, proof_ok: bool) -> dict:
    rep = run_families("C17", cases(tier, rng), rng, oracle, nontrivial)
    from .C04 import object_stage_payload
    ifk = instance_fields_kept()
    if ifk:
        rep["violations"].append({"kind": "oracle", **ifk, "replay_case": {"instance_fields_kept": True}})
    osp = object_stage_payload("C17")      # record validators with whole-object checks accept their own payloads
    if osp:
        rep["violations"].append({"kind": "oracle", **osp, "replay_case": {"object_stage_payload": True}})
    # a case on which model and implementation already disagree about the *first* run is a broken
    # correspondence in its own right; the recorded finding (signature container-predicate-on-payload)
    # explains second runs only and must not absorb it
    shown = 0
    unlike = False
    for c, model in rep.get("mismatches", []):
        try:
            r = oracle(c)
        except Exception:  # noqa
            r = None
        if r and r["signature"] == "C17:container-predicate-on-payload" and not model.lstrip("( ").startswith("OValid") and not unlike:
            # the model contains the mechanism of the recorded finding (container predicates see the coerced input,
            # not the payload) and yet does not accept this input: the broken fixed point is not that finding
            unlike = True
            rep["violations"].append({"kind": "oracle", "signature": "C17:not-a-fixed-point",
                                      "what": r["what"] + f" (the model, recorded finding included, answers the first run with {model[:200]})",
                                      "replay_case": c.to_json(), "observed": coq(c.obs)})
        if r and r["signature"] == "C17:container-predicate-on-payload" and shown < 2:
            shown += 1
            rep["violations"].append({"kind": "correspondence", "signature": None,
                                      "what": f"correspondence family 'C17' no longer checks: model and implementation differ on the first run of case tag={c.tag} mode={c.mode}",
                                      "case": c.to_json(), "model_outcome": model, "observed_outcome": coq(c.obs)})
    return rep


def replay(path: str) -> int:
    import json
    rc = json.load(open(path)).get("replay_case")
    if isinstance(rc, dict) and rc.get("instance_fields_kept"):
        r = instance_fields_kept()
        print("property violated: " + r["what"] if r else "property holds: instances keep their field values and types")
        return 1 if r else 0
    if isinstance(rc, dict) and rc.get("object_stage_payload"):
        from .C04 import object_stage_payload
        r = object_stage_payload("C17")
        print("property violated: " + r["what"] if r else "property holds: record validators with whole-object checks accept their own payloads")
        return 1 if r else 0
    return generic_replay(path, oracle)
