"""bin/check <Cxx> <quick|thorough> [--replay file]

Decides one property:
  1. (re)builds the Coq development with a full .vo build and recompiles
     Properties/Cxx.v, reading its Print Assumptions output;
  2. runs the property's correspondence families: the implementation in /repo
     and the model (vm_compute inside Coq) on the same generated cases;
  3. runs the property's direct oracle (the property stated on the
     implementation alone) on every case, and - if an obligation or the
     correspondence broke - on a wider neighbourhood, to find a replay;
  4. writes evidence/<id>.json and prints VIOLATION / KNOWN-FINDING lines.
"""
from __future__ import annotations

import fcntl
import glob
import hashlib
import importlib
import json
import os
import random
import re
import subprocess
import sys
import time
from typing import Any, Dict, List, Optional, Tuple

ROOT = os.path.dirname(os.path.dirname(os.path.abspath(__file__)))
COQ = os.path.join(ROOT, "coq")
REPO = os.environ.get("KV_REPO", "/repo")

ALLOWED_AXIOMS: set = set()   # the development is expected to be closed under the global context

TRUSTED_BASE = [
    "Coq 8.16.1 kernel (coqc), vm_compute for correspondence files, examples and generated-fact lemmas; no native_compute",
    "axioms: none expected (every property theorem must print 'Closed under the global context')",
    "hand-written Gallina model of Python values/primitives (coq/theories/Base) - modelled, tied to CPython 3.12 only by the correspondence",
    "correspondence harness (harness/*.py: builder, observer, generators) and fact translator (harness/facts)",
    "user callbacks and stdlib parsers are universally quantified env fields in theorems; harness/userlib.py + Corr/UserLib.v only instantiate them for execution",
]


def limit_memory() -> None:
    """Every coqc (also under make) gets an address-space ceiling: a proof script that diverges must fail, not swap."""
    import resource
    cap = 16 * 1024 ** 3
    resource.setrlimit(resource.RLIMIT_AS, (cap, cap))


def sh(cmd: List[str], timeout: int, cwd: str = COQ) -> Tuple[int, str]:
    try:
        p = subprocess.run(cmd, capture_output=True, text=True, timeout=timeout, cwd=cwd, preexec_fn=limit_memory)
        return p.returncode, p.stdout + p.stderr
    except subprocess.TimeoutExpired:
        return 124, "timeout"


def theory_files() -> List[str]:
    order = ["Base", "Model", "Spec", "Proofs", "Corr", "Properties"]
    out: List[str] = []
    for d in order:
        out += sorted(glob.glob(os.path.join(COQ, "theories", d, "*.v")))
    return [os.path.relpath(f, COQ) for f in out]


def gen_fact_files() -> List[str]:
    from .rundir import GEN
    return [os.path.relpath(f, COQ) for f in sorted(glob.glob(os.path.join(GEN, "Facts_*.v")))]


def ensure_build(timeout: int = 1500) -> Tuple[bool, str]:
    """Full .vo build of theories + generated facts (incremental via make)."""
    lock = open(os.path.join(COQ, ".build.lock"), "w")
    fcntl.flock(lock, fcntl.LOCK_EX)
    try:
        files = theory_files()   # generated facts are compiled per property, not in the shared build
        proj = "-Q theories KV\n-Q generated KVGen\n" + "\n".join(files) + "\n"
        pp = os.path.join(COQ, "_CoqProject")
        old = open(pp).read() if os.path.exists(pp) else ""
        if old != proj or not os.path.exists(os.path.join(COQ, "Makefile")):
            with open(pp, "w") as f:
                f.write(proj)
            rc, out = sh(["coq_makefile", "-f", "_CoqProject", "-o", "Makefile"], 120)
            if rc != 0:
                return False, out
        rc, out = sh(["make", "-j16"], timeout)
        return rc == 0, out
    finally:
        fcntl.flock(lock, fcntl.LOCK_UN)
        lock.close()


FORBIDDEN = re.compile(r"\b(Admitted|admit|Axiom|Parameter|Conjecture|Admit Obligations)\b|Unset Guard|bypass_check|type-in-type|impredicative-set")


def grep_gate() -> List[str]:
    bad = []
    for f in theory_files() + gen_fact_files():
        txt = open(os.path.join(COQ, f)).read()
        txt = re.sub(r"\(\*.*?\*\)", "", txt, flags=re.S)
        for m in FORBIDDEN.finditer(txt):
            bad.append(f"{f}: {m.group(0)}")
    return bad


def property_obligations(pid: str, extra_files: List[str] = ()) -> dict:
    """Recompile Properties/<pid>.v and parse Print Assumptions."""
    res = {"obligations": 0, "discharged": 0, "axioms": [], "theorems": [], "ok": True, "log": ""}
    from . import rundir
    for rel in [f"theories/Properties/{pid}.v"] + [rundir.rel(f) for f in extra_files]:
        path = os.path.join(COQ, rel)
        if not os.path.exists(path):
            res["ok"] = False
            res["log"] += f"missing {rel}\n"
            continue
        src = open(path).read()
        src_nc = re.sub(r"\(\*.*?\*\)", "", src, flags=re.S)
        names = re.findall(r"^\s*(?:Theorem|Example|Lemma|Corollary)\s+(\w+)", src_nc, flags=re.M)
        rc, out = sh(["coqc", "-Q", "theories", "KV", "-Q", rundir.GEN_REL, "KVGen", rel], 900)
        res["log"] += out[-3000:]
        if rc != 0:
            res["ok"] = False
            res["obligations"] += max(len(names), 1)
            continue
        closed = out.count("Closed under the global context")
        ax = re.findall(r"Axioms:\n((?:.+\n?)+?)(?=\n\S|\Z)", out)
        axioms = []
        for block in ax:
            for line in block.splitlines():
                m = re.match(r"^(\S+)\s*:", line)
                if m:
                    axioms.append(m.group(1))
        res["axioms"] += axioms
        res["theorems"] += names
        res["obligations"] += len(names)
        res["discharged"] += len(names)
        bad_ax = [a for a in axioms if a not in ALLOWED_AXIOMS]
        if bad_ax:
            res["ok"] = False
            res["log"] += f"unexpected axioms: {bad_ax}\n"
        nprint = len(re.findall(r"Print Assumptions", src_nc))
        if closed + len(ax) < nprint:
            res["ok"] = False
            res["log"] += "Print Assumptions output missing\n"
    return res


EDITED_RESULTS_PROPS = ("C02", "C03", "C04", "C05", "C13", "C14", "C17", "C19")
OTHER_USES_PROPS = ("C01", "C02", "C03", "C04", "C05", "C06", "C13", "C14", "C17", "C18", "C19")


def purge_stale_cases() -> None:
    """Run directories are kept while their run is alive (a mismatching run's files are its evidence until the
    next run starts); directories and legacy files of processes that no longer exist are removed here so that
    coq/generated cannot grow without bound."""
    import shutil
    base = os.path.join(COQ, "generated")
    for d in glob.glob(os.path.join(base, "run_*")):
        m = re.match(r"run_(\d+)$", os.path.basename(d))
        if not m or not os.path.isdir(d):
            continue
        try:
            os.kill(int(m.group(1)), 0)
            continue                      # its run is still going
        except ProcessLookupError:
            pass
        except OSError:
            continue
        try:
            if time.time() - os.path.getmtime(d) > 120:
                shutil.rmtree(d, ignore_errors=True)
        except OSError:
            pass
    for f in glob.glob(os.path.join(base, "cases_*")) + glob.glob(os.path.join(base, "Facts_*")):
        try:
            if time.time() - os.path.getmtime(f) > 120:
                os.remove(f)
        except OSError:
            pass


def load_known() -> dict:
    p = os.path.join(ROOT, "known_findings.json")
    if os.path.exists(p):
        return json.load(open(p))
    return {"findings": [], "fixed": []}


def main(argv: List[str]) -> int:
    if len(argv) < 3:
        print(__doc__)
        return 2
    pid, tier = argv[1], argv[2]
    replay = None
    if "--replay" in argv:
        replay = argv[argv.index("--replay") + 1]
    seed = int(os.environ.get("VERIF_SEED", "20260930"))
    tier = os.environ.get("VERIF_TIER", tier)
    if tier not in ("quick", "thorough"):
        tier = "quick"
    sys.path.insert(0, REPO)
    mod = importlib.import_module(f"harness.props.{pid}")
    if replay:
        try:
            rc_ = (json.load(open(replay)).get("replay_case") or {})
        except Exception:  # noqa
            rc_ = {}
        if isinstance(rc_, dict) and rc_.get("scribble"):
            from .props.hist import replay_special
            return replay_special(rc_, pid)
        return mod.replay(replay)

    t0 = time.time()
    rng = random.Random(seed)
    violations: List[dict] = []
    notes: List[str] = []
    purge_stale_cases()

    # 1. proofs
    facts_ok, facts_log = True, ""
    if hasattr(mod, "regenerate_facts"):
        facts_ok, facts_log = mod.regenerate_facts()
    ok, out = ensure_build()
    bad = grep_gate()
    obl = property_obligations(pid, getattr(mod, "EXTRA_PROOF_FILES", []))
    proof_ok = ok and obl["ok"] and not bad and facts_ok
    if not proof_ok:
        failing = "build" if not ok else ("forbidden: " + ",".join(bad) if bad else "Properties/%s.v or generated facts" % pid)
        notes.append("proof obligation broken: " + failing)
        tail = (out if not ok else obl["log"] + facts_log)[-1500:]
        violations.append({"kind": "proof", "what": failing, "log": tail})

    # 2-3. correspondence + direct oracle
    try:
        rep = mod.run(tier, rng, proof_ok)
    except Exception as e:  # the machinery itself broke on this tree: never pass silently
        import traceback
        rep = {"violations": [{"kind": "correspondence", "signature": None,
                               "what": f"the correspondence machinery of {pid} could not run on this tree: {type(e).__name__}: {e}",
                               "log": traceback.format_exc()[-2000:]}],
               "coverage": {"evaluations": 0, "distinct_nontrivial": 0}}
    violations += rep.get("violations", [])
    # histories in which the caller edits, in place, the results it was handed (properties about what a validator
    # returns hold of every call, also after that)
    if pid in EDITED_RESULTS_PROPS and "coverage" in rep:
        try:
            from .props.hist import scribble_violation
            sv, n_sv = scribble_violation(pid)
            rep["coverage"]["histories_with_edited_results"] = n_sv
            if sv:
                violations.append(sv)
        except Exception as e:  # noqa
            import traceback
            violations.append({"kind": "correspondence", "signature": None,
                               "what": f"the edited-results histories of {pid} could not run on this tree: {type(e).__name__}: {e}",
                               "log": traceback.format_exc()[-1500:]})
    # histories in which the validator is also put to its other uses (described, printed, compared, errors rendered)
    if pid in OTHER_USES_PROPS and "coverage" in rep:
        try:
            from .props.hist import other_uses_violation
            ov, n_ov = other_uses_violation(pid)
            rep["coverage"]["histories_with_other_uses"] = n_ov
            if ov:
                violations.append(ov)
        except Exception as e:  # noqa
            import traceback
            violations.append({"kind": "correspondence", "signature": None,
                               "what": f"the other-uses histories of {pid} could not run on this tree: {type(e).__name__}: {e}",
                               "log": traceback.format_exc()[-1500:]})
    known = load_known()
    known_here = [k for k in known.get("findings", []) if k["property"] == pid]
    real: List[dict] = []
    known_hit: Dict[str, dict] = {}
    for v in violations:
        sig = v.get("signature")
        k = next((k for k in known_here if sig is not None and k["signature"] == sig), None)
        if k is not None:
            known_hit[k["signature"]] = k
        else:
            real.append(v)
    # findings listed in the file are always probed by their own witness
    for k in known_here:
        if k["signature"] not in known_hit and hasattr(mod, "probe_known"):
            if mod.probe_known(k):
                known_hit[k["signature"]] = k
    for k in known_hit.values():
        print(f"KNOWN-FINDING: property={pid} {k['what']}")

    wall = time.time() - t0
    cov = rep.get("coverage", {})
    cov.update({
        "obligations": obl["obligations"],
        "discharged": obl["discharged"] if proof_ok else max(obl["discharged"] - 1, 0),
        "checker_cmd": f"cd /verif/coq && make -j16 && coqc -Q theories KV -Q generated KVGen theories/Properties/{pid}.v  (Print Assumptions parsed; grep gate for Admitted/Axiom/...)",
        "trusted_base": TRUSTED_BASE + getattr(mod, "TRUSTED_EXTRA", []),
        "theorems": obl["theorems"],
        "axioms_reported": obl["axioms"],
        "known_findings_reported": sorted(known_hit),
    })
    evidence = {
        "property_id": pid,
        "tier": tier,
        "seed": seed,
        "level": "proof",
        "coverage": cov,
        "assumptions": getattr(mod, "ASSUMPTIONS", []),
        "wall_s": round(wall, 2),
        "violations": len(real),
    }
    os.makedirs(os.path.join(ROOT, "evidence"), exist_ok=True)
    with open(os.path.join(ROOT, "evidence", f"{pid}.json"), "w") as f:
        json.dump(evidence, f, indent=1, default=str)

    if real:
        os.makedirs(os.path.join(ROOT, "replays"), exist_ok=True)
        # one VIOLATION line per distinct replay, most concrete first
        real.sort(key=lambda v: 0 if v.get("replay_case") else 1)
        shown = 0
        for v in real[:5]:
            h = hashlib.sha1(json.dumps(v, sort_keys=True, default=str).encode()).hexdigest()[:10]
            path = os.path.join(ROOT, "replays", f"{pid}-{h}.json")
            with open(path, "w") as f:
                json.dump({"property": pid, "seed": seed, **v}, f, indent=1, default=str)
            suffix = "" if v.get("replay_case") else " no-failing-input-found"
            print(f"VIOLATION property={pid} replay={path}{suffix}")
            shown += 1
        print(f"{pid}: {len(real)} violation(s); {'; '.join(notes)}")
        return 1
    print(f"{pid} {tier}: ok - {obl['discharged']}/{obl['obligations']} obligations, "
          f"{cov.get('evaluations', 0)} cases, {wall:.1f}s")
    try:        # nothing to keep from a clean run
        import shutil
        from . import rundir
        shutil.rmtree(rundir.GEN, ignore_errors=True)
    except Exception:  # noqa
        pass
    return 0


if __name__ == "__main__":
    sys.exit(main(sys.argv))
