"""G1 - eq-fields: which constructor slots every validator __eq__ compares, and with which
operator.  Extracted from the source on every run and emitted as coq/generated/Facts_eq.v:
the mask [src_mask] on which Model/Eq.veqb is instantiated, plus the lemma that it is full
(every behaviour-relevant slot is compared).  Fail-closed: an __eq__ that is not a flat
conjunction of recognised comparisons yields an empty mask for its kind."""
from __future__ import annotations

import ast
import os
import sys
from typing import Dict, List, Optional, Tuple

# class -> (file, vkind, {attribute: slot})
CLASSES = {
    "_ToTupleStandardValidator": ("_internal.py", "KScalar", {"_TYPE": 0, "coerce": 1, "preprocessors": 2, "predicates": 3, "predicates_async": 4}),
    "NoneValidator": ("none.py", "KNone", {"coerce": 0}),
    "EqualsValidator": ("generic.py", "KEquals", {"match": 0, "preprocessors": 1}),
    "ListValidator": ("list.py", "KList", {"item_validator": 0, "predicates": 1, "predicates_async": 2, "coerce": 3}),
    "SetValidator": ("set.py", "KSet", {"item_validator": 0, "predicates": 1, "predicates_async": 2, "coerce": 3}),
    "UniformTupleValidator": ("tuple.py", "KUTuple", {"item_validator": 0, "predicates": 1, "predicates_async": 2, "coerce": 3}),
    "NTupleValidator": ("tuple.py", "KNTuple", {"fields": 0, "validate_object": 1, "coerce": 2}),
    "MapValidator": ("dictionary.py", "KMap", {"key_validator": 0, "value_validator": 1, "predicates": 2, "predicates_async": 3, "coerce": 4}),
    "RecordValidator": ("dictionary.py", "KRecord", {"keys": 0, "into": 1, "validate_object": 2, "validate_object_async": 3, "fail_on_unknown_keys": 4}),
    "DictValidatorAny": ("dictionary.py", "KDictAny", {"schema": 0, "validate_object": 1, "validate_object_async": 2, "fail_on_unknown_keys": 3}),
    "DataclassValidator": ("dataclasses.py", "KData", {"data_cls": 1, "schema": 2, "validate_object": 3, "validate_object_async": 4, "fail_on_unknown_keys": 5, "coerce": 6}),
    "NamedTupleValidator": ("namedtuple.py", "KNamed", {"named_tuple_cls": 1, "schema": 2, "validate_object": 3, "validate_object_async": 4, "fail_on_unknown_keys": 5, "coerce": 6}),
    "TypedDictValidator": ("typeddict.py", "KTyped", {"td_cls": 1, "schema": 2, "required_keys": 7, "validate_object": 3, "validate_object_async": 4, "fail_on_unknown_keys": 5, "coerce": 6}),
    "UnionValidator": ("union.py", "KUnion", {"validators": 0}),
    "OptionalValidator": ("none.py", "KOptional", {"none_validator": 0, "non_none_validator": 1}),
    "MaybeValidator": ("maybe.py", "KMaybe", {"validator": 0}),
    "Lazy": ("generic.py", "KLazy", {"validator": 0, "recurrent": 1}),
    "KeyNotRequired": ("dictionary.py", "KKnr", {"validator": 0}),
    "CacheValidatorBase": ("base.py", "KCache", {"validator": 0}),
}
# slots that must be compared by value (==): callables may be equal-but-distinct bound methods
MUST_BE_EQ = {("KNTuple", 1), ("KRecord", 2), ("KRecord", 3), ("KDictAny", 1), ("KDictAny", 2),
              ("KData", 3), ("KData", 4), ("KNamed", 3), ("KNamed", 4), ("KTyped", 3), ("KTyped", 4)}
# the class slot of dataclass / named tuple validators fixes the requiredness flags (slot 7)
IMPLIES = {("KData", 1): 7, ("KNamed", 1): 7}


def conjuncts(e) -> List[ast.AST]:
    if isinstance(e, ast.BoolOp) and isinstance(e.op, ast.And):
        out = []
        for v in e.values:
            out += conjuncts(v)
        return out
    return [e]


def attr_of(node) -> Optional[Tuple[str, str]]:
    """self.a / other.a -> (owner, attr); type(self.a) -> (owner, 'type:'+a)"""
    if isinstance(node, ast.Attribute) and isinstance(node.value, ast.Name) and node.value.id in ("self", "other"):
        return node.value.id, node.attr
    if isinstance(node, ast.Call) and isinstance(node.func, ast.Name) and node.func.id == "type" and node.args:
        inner = attr_of(node.args[0])
        if inner:
            return inner[0], "type:" + inner[1]
        if isinstance(node.args[0], ast.Name) and node.args[0].id in ("self", "other"):
            return node.args[0].id, "type:"
    return None


def analyse_eq(fn: ast.FunctionDef) -> Tuple[bool, Dict[str, str], List[str]]:
    """(has type check, {attr: op}, unrecognised conjuncts)"""
    body = [s for s in fn.body if not (isinstance(s, ast.Expr) and isinstance(s.value, ast.Constant))]
    if len(body) != 1 or not isinstance(body[0], ast.Return):
        return False, {}, ["not a single return"]
    typecheck = False
    fields: Dict[str, str] = {}
    unknown: List[str] = []
    for c in conjuncts(body[0].value):
        if isinstance(c, ast.Compare) and len(c.ops) == 1 and isinstance(c.ops[0], (ast.Eq, ast.Is)):
            l, r = attr_of(c.left), attr_of(c.comparators[0])
            op = "is" if isinstance(c.ops[0], ast.Is) else "=="
            if l and r and {l[0], r[0]} == {"self", "other"} and l[1] == r[1]:
                if l[1] == "type:":
                    typecheck = True
                else:
                    fields[l[1]] = op if l[1] not in fields else fields[l[1]] + "," + op
                continue
        unknown.append(ast.unparse(c))
    return typecheck, fields, unknown


def dataclass_fields(cls: ast.ClassDef) -> Optional[List[str]]:
    is_dc = any((isinstance(d, ast.Name) and d.id == "dataclass") or
                (isinstance(d, ast.Attribute) and d.attr == "dataclass") or
                (isinstance(d, ast.Call) and ast.unparse(d.func).endswith("dataclass"))
                for d in cls.decorator_list)
    if not is_dc:
        return None
    out = []
    for s in cls.body:
        if isinstance(s, ast.AnnAssign) and isinstance(s.target, ast.Name) and "ClassVar" not in ast.unparse(s.annotation):
            out.append(s.target.id)
    return out


def extract(repo: str) -> Dict[str, dict]:
    res: Dict[str, dict] = {}
    for cname, (file, kind, slots) in CLASSES.items():
        tree = ast.parse(open(os.path.join(repo, "koda_validate", file)).read())
        cls = next((n for n in tree.body if isinstance(n, ast.ClassDef) and n.name == cname), None)
        info = {"kind": kind, "compared": {}, "problems": []}
        if cls is None:
            info["problems"].append("class not found")
            res[cname] = info
            continue
        eq = next((n for n in cls.body if isinstance(n, ast.FunctionDef) and n.name == "__eq__"), None)
        if eq is not None:
            tc, fields, unknown = analyse_eq(eq)
            if not tc:
                info["problems"].append("no type(self)/type(other) check")
            info["problems"] += ["unrecognised: " + u for u in unknown]
            for a, op in fields.items():
                base = a[5:] if a.startswith("type:") else a
                if base in slots:
                    key = slots[base]
                    prev = info["compared"].get(key, "")
                    info["compared"][key] = (prev + "," if prev else "") + (("type-" + op) if a.startswith("type:") else op)
                else:
                    info["problems"].append(f"compares unknown attribute {a}")
        else:
            dc = dataclass_fields(cls)
            if dc is None:
                info["problems"].append("no __eq__ and not a dataclass")
            else:
                for a in dc:
                    if a in slots:
                        info["compared"][slots[a]] = "=="
        res[cname] = info
    return res


def emit(repo: str, out_path: str) -> dict:
    data = extract(repo)
    rows, bad_ops, problems = [], [], []
    for cname, info in data.items():
        k = info["kind"]
        problems += [f"{cname}: {p}" for p in info["problems"]]
        compared = dict(info["compared"])
        if info["problems"]:
            compared = {}           # fail closed
        if k == "KEquals" and compared.get(0, "") and not ("type-is" in compared[0] and "==" in compared[0]):
            bad_ops.append(f"{cname}: match must be compared by type and by value, got {compared[0]}")
            compared.pop(0)
        for slot, op in list(compared.items()):
            if (k, slot) in MUST_BE_EQ and "==" not in op.split(","):
                bad_ops.append(f"{cname}: slot {slot} compared with '{op}', not '=='")
                compared.pop(slot)
        for (kk, s), implied in IMPLIES.items():
            if kk == k and s in compared:
                compared[implied] = "implied"
        for slot in sorted(compared):
            rows.append(f"  | {k}, {slot} => true")
    lines = ["(* GENERATED by harness/facts/eqfields.py from /repo on every run - do not edit. *)",
             "From Coq Require Import List Bool.",
             "From KV Require Import Model.Eq.",
             "(* src_mask k i = true: the __eq__ of validator kind k compares constructor slot i by value *)",
             "Definition src_mask (k : vkind) (i : nat) : bool :=", "  match k, i with"] + rows + \
            ["  | _, _ => false", "  end.",
             "(* every slot that can influence behaviour is compared: equality is a congruence *)",
             "Lemma src_mask_full : mask_full_b src_mask = true.", "Proof. vm_compute. reflexivity. Qed."]
    open(out_path, "w").write("\n".join(lines) + "\n")
    return {"data": data, "bad_ops": bad_ops, "problems": problems}


if __name__ == "__main__":
    import json
    d = extract(sys.argv[1] if len(sys.argv) > 1 else "/repo")
    for k, v in d.items():
        print(k, v)
