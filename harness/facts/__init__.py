

def attach(g: dict, obl) -> None:
    """Add one generated-fact obligation (file, trusted-base line, regenerate function) to a property module."""
    rel, note, regen = obl
    g["EXTRA_PROOF_FILES"] = list(g.get("EXTRA_PROOF_FILES", [])) + [rel]
    g["TRUSTED_EXTRA"] = list(g.get("TRUSTED_EXTRA", [])) + [note]
    prev = g.get("regenerate_facts")

    def both():
        ok1, m1 = prev() if prev else (True, "")
        ok2, m2 = regen()
        return ok1 and ok2, "; ".join(m for m in (m1, m2) if m)
    g["regenerate_facts"] = both
