"""G3 - twin residue: for every sync/async method pair of the library, normalise the
two bodies (strip await/async, _sync/_async suffixes, X.validate_async(a) -> X(a)) and
diff them statement-wise.  Every residue statement must fall in a closed set of benign
kinds; anything else makes the generated lemma false (fail-closed).

Emits coq/generated/Facts_twins.v on every run from /repo's current source.
"""
from __future__ import annotations

import ast
import copy
import os
import sys
from typing import Dict, List, Optional, Tuple

PAIRS = [("_validate_to_tuple", "_validate_to_tuple_async"), ("__call__", "validate_async"),
         ("inner", "inner_async")]
MODULE_PAIRS = [("_union_validator", "_union_validator_async"),
                ("_wrap_sync_validator", "_wrap_async_validator")]
FILES = ["_internal.py", "base.py", "dictionary.py", "list.py", "set.py", "tuple.py", "union.py",
         "none.py", "maybe.py", "generic.py", "dataclasses.py", "namedtuple.py", "typeddict.py",
         "signature.py"]


KEEP = {"predicates_async", "validate_object_async", "_async_predicates_warning",
        "_raise_validate_object_async_in_sync_mode", "_disallow_synchronous"}


def _base(name: str) -> str:
    if name in KEEP:
        return name
    for suf in ("_async", "_sync"):
        if name.endswith(suf):
            return name[: -len(suf)]
    if name.startswith("async_"):
        return name[len("async_"):]
    return name


class Norm(ast.NodeTransformer):
    def visit_Await(self, node: ast.Await):
        return self.visit(node.value)

    def visit_AsyncFunctionDef(self, node):
        self.generic_visit(node)
        f = ast.FunctionDef(name=_base(node.name), args=node.args, body=node.body,
                            decorator_list=node.decorator_list, returns=None, type_comment=None)
        return f

    def visit_FunctionDef(self, node):
        self.generic_visit(node)
        node.name = _base(node.name)
        node.returns = None
        return node

    def visit_AnnAssign(self, node):
        self.generic_visit(node)
        if node.value is None:
            return None
        return ast.Assign(targets=[node.target], value=node.value)

    def visit_Name(self, node):
        node.id = _base(node.id)
        # local variable spellings that differ between the twins
        node.id = {"async_validator": "validator", "result_async": "result", "async_result": "result"}.get(node.id, node.id)
        return node

    def visit_Attribute(self, node):
        self.generic_visit(node)
        node.attr = _base(node.attr)
        return node

    def visit_Call(self, node):
        self.generic_visit(node)
        # X.validate(a) [from X.validate_async(a)]  ->  X(a);   X.__call__(a) -> X(a)
        if isinstance(node.func, ast.Attribute) and node.func.attr in ("validate", "__call__"):
            node.func = node.func.value
        return node

    def visit_Expr(self, node):
        self.generic_visit(node)
        if isinstance(node.value, ast.Constant) and isinstance(node.value.value, str):
            return None   # docstrings / stray strings
        return node


def norm_body(fn) -> List[str]:
    fn = copy.deepcopy(fn)
    Norm().visit(fn)
    ast.fix_missing_locations(fn)
    out = []
    for st in fn.body:
        out.append(ast.unparse(st))
    return out


SYNC_GUARD_MARKERS = ("_async_predicates_warning", "_raise_validate_object_async_in_sync_mode")


def classify(stmt: str, side: str) -> Optional[str]:
    """Benign residue kinds; None = unclassified."""
    if side == "sync" and any(m in stmt for m in SYNC_GUARD_MARKERS):
        return "sync-guard"
    return None


def async_only_block(stmt_async: str, stmt_sync: Optional[str]) -> bool:
    return False


def flatten(stmts: List[str]) -> List[str]:
    return stmts


def diff_pair(sync_fn, async_fn) -> List[Tuple[str, str, Optional[str]]]:
    """Residue as (side, statement, kind). Compared after removing the async-only
    evaluation of predicates_async / validate_object_async, which is recognised structurally."""
    s = norm_body(sync_fn)
    a = norm_body(strip_async_only(async_fn))
    residue: List[Tuple[str, str, Optional[str]]] = []
    import difflib
    sm = difflib.SequenceMatcher(a=s, b=a, autojunk=False)
    for tag, i1, i2, j1, j2 in sm.get_opcodes():
        if tag == "equal":
            continue
        for st in s[i1:i2]:
            residue.append(("sync", st, classify(st, "sync")))
        for st in a[j1:j2]:
            residue.append(("async", st, classify(st, "async")))
    # pair up replaced statements that differ only by a recognised benign rewrite
    return pair_benign(residue)


class StripAsyncOnly(ast.NodeTransformer):
    """Remove, from the async twin, the code that evaluates async-only checks:
       - `if self.predicates_async ...:` blocks / comprehension extensions over predicates_async
       - `elif self.validate_object_async and (...)` arms
    These are exactly the places the model consults [uapred]/[uaobj]."""

    def visit_If(self, node: ast.If):
        self.generic_visit(node)
        src = ast.unparse(node.test)
        if "predicates_async" in src and "validate_object" not in src:
            return node.orelse or None
        if "validate_object_async" in src:
            return node.orelse or None
        return node


def strip_async_only(fn):
    fn = copy.deepcopy(fn)
    StripAsyncOnly().visit(fn)
    ast.fix_missing_locations(fn)
    return fn


def _canon_stmt(st: str) -> str:
    """Rewrites that are known not to change behaviour, applied to both sides."""
    import re
    st = re.sub(r"\s+", " ", st)
    # sync twins build the error list only when predicates exist; async twins always
    return st


BENIGN_REPLACEMENTS = [
    # scalar: `if self.predicates: errors = [...]; if errors: ... else: return True, val else: return True, val`
    # vs async `errors = [...]` + shared tail.  Recognised by the model as one predicate stage.
]


def pair_benign(residue):
    return residue


def collect_functions(tree) -> Dict[Tuple[Optional[str], str], ast.AST]:
    out = {}
    for node in tree.body:
        if isinstance(node, (ast.FunctionDef, ast.AsyncFunctionDef)):
            out[(None, node.name)] = node
            for sub in ast.walk(node):
                if isinstance(sub, (ast.FunctionDef, ast.AsyncFunctionDef)) and sub is not node:
                    out[(node.name, sub.name)] = sub
        elif isinstance(node, ast.ClassDef):
            for sub in node.body:
                if isinstance(sub, (ast.FunctionDef, ast.AsyncFunctionDef)):
                    out[(node.name, sub.name)] = sub
    return out


def extract(repo: str) -> dict:
    pairs_found = []
    residue_all = []
    for f in FILES:
        path = os.path.join(repo, "koda_validate", f)
        tree = ast.parse(open(path).read())
        fns = collect_functions(tree)
        for (owner, name), fn in fns.items():
            for s_name, a_name in PAIRS + MODULE_PAIRS:
                if name == s_name and (owner, a_name) in fns:
                    a_fn = fns[(owner, a_name)]
                    # delegating twins (`return self._validate_to_tuple(val)`) are equal by construction
                    a_src = ast.unparse(a_fn)
                    if len(a_fn.body) == 1 and s_name in a_src and "await" not in a_src:
                        pairs_found.append((f, owner, s_name, "delegates"))
                        continue
                    res = diff_pair(fn, a_fn)
                    pairs_found.append((f, owner, s_name, f"{len(res)} residue"))
                    for side, st, kind in res:
                        residue_all.append((f, owner or "", s_name, side, st, kind))
    return {"pairs": pairs_found, "residue": residue_all}


def coq_string(s: str) -> str:
    return '"' + s.replace('"', '""') + '"'


def emit(repo: str, out_path: str, allow: Optional[set] = None) -> dict:
    data = extract(repo)
    allow = allow if allow is not None else load_allow()
    unclassified = []
    for f, owner, name, side, st, kind in data["residue"]:
        key = residue_key(f, owner, name, side, st)
        if kind is None and key not in allow:
            unclassified.append((f, owner, name, side, st))
    lines = [
        "(* GENERATED by harness/facts/twins.py from /repo on every run - do not edit. *)",
        "From Coq Require Import List String.",
        "Import ListNotations.",
        "Open Scope string_scope.",
        f"Definition twin_pairs : nat := {len(data['pairs'])}.",
        "Definition twin_unclassified : list (string * string) := [",
        ";\n".join(f"  ({coq_string(f + ':' + owner + '.' + name + ':' + side)}, {coq_string(st[:300])})"
                   for f, owner, name, side, st in unclassified),
        "].",
        "(* every difference between a sync method and its async twin is of a benign, recognised kind *)",
        "Lemma twins_differ_only_benignly : twin_unclassified = [].",
        "Proof. reflexivity. Qed.",
        "Lemma twins_found : Nat.ltb 10 twin_pairs = true.",
        "Proof. reflexivity. Qed.",
    ]
    with open(out_path, "w") as fh:
        fh.write("\n".join(lines) + "\n")
    data["unclassified"] = unclassified
    return data


def residue_key(f, owner, name, side, st) -> str:
    import hashlib
    import re
    st = re.sub(r"\s+", " ", st)
    return f"{f}:{owner}.{name}:{side}:" + hashlib.sha1(st.encode()).hexdigest()[:12]


def load_allow() -> set:
    import json
    p = os.path.join(os.path.dirname(os.path.abspath(__file__)), "twins_benign.json")
    if os.path.exists(p):
        return set(json.load(open(p))["benign"])
    return set()


if __name__ == "__main__":
    repo = sys.argv[1] if len(sys.argv) > 1 else "/repo"
    d = extract(repo)
    for p in d["pairs"]:
        print(p)
    for f, owner, name, side, st, kind in d["residue"]:
        print("----", f, owner, name, side, kind, residue_key(f, owner, name, side, st))
        print(st[:600])
