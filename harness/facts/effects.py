"""G2 - write effects: for every function of the package (outside __init__/__new__/dunder
bookkeeping) list the stores that can reach shared or caller-owned state: attribute / subscript
stores and mutating method calls whose receiver is rooted at a parameter, self, cls, a global
or a local that aliases one of those; del; global / nonlocal.  Emitted as
coq/generated/Facts_effects.v on every run; C13, C10 and C20 depend on the table being empty
(modulo the reviewed singleton stores).  Fail-closed: unknown receivers count as writes."""
from __future__ import annotations

import ast
import os
import sys
from typing import Dict, List, Set, Tuple

MUTATORS = {"append", "extend", "add", "update", "pop", "remove", "clear", "insert", "sort", "reverse",
            "setdefault", "popitem", "discard", "__setitem__", "__delitem__", "appendleft", "difference_update",
            "intersection_update", "symmetric_difference_update"}
SKIP_FUNCS = {"__init__", "__repr__", "__eq__", "__hash__", "__post_init__"}


def root_name(node) -> str:
    while isinstance(node, (ast.Attribute, ast.Subscript, ast.Call)):
        node = node.value if not isinstance(node, ast.Call) else node.func
    return node.id if isinstance(node, ast.Name) else "?"


def is_fresh_expr(e) -> bool:
    """An expression that certainly allocates a new object / is a call result (not an alias of an argument)."""
    if isinstance(e, (ast.List, ast.Dict, ast.Set, ast.Tuple, ast.ListComp, ast.DictComp, ast.SetComp,
                      ast.GeneratorExp, ast.Constant, ast.JoinedStr, ast.BinOp, ast.Compare, ast.UnaryOp)):
        return True
    if isinstance(e, ast.BoolOp):
        # `a or b` / `a and b` evaluate to one of their operands: `xs = obj.items or []` aliases obj.items
        return all(is_fresh_expr(v) for v in e.values)
    if isinstance(e, ast.Await):
        return is_fresh_expr(e.value)
    if isinstance(e, ast.Call):
        return True
    if isinstance(e, ast.IfExp):
        return is_fresh_expr(e.body) and is_fresh_expr(e.orelse)
    if isinstance(e, ast.NamedExpr):
        return is_fresh_expr(e.value)
    return False


class FnEffects(ast.NodeVisitor):
    def __init__(self, fn, globals_: Set[str]):
        self.fn = fn
        a = fn.args
        self.params = {x.arg for x in a.posonlyargs + a.args + a.kwonlyargs}
        if a.vararg:
            self.params.add(a.vararg.arg)
        if a.kwarg:
            self.params.add(a.kwarg.arg)
        self.globals = globals_
        self.tainted: Set[str] = set()
        self.locals: Set[str] = set()
        self.writes: List[str] = []
        # two passes so that aliasing through later assignments is seen
        for _ in range(3):
            for node in ast.walk(fn):
                self._assigns(node)

    def _targets(self, t):
        if isinstance(t, ast.Name):
            yield t.id
        elif isinstance(t, (ast.Tuple, ast.List)):
            for x in t.elts:
                yield from self._targets(x)

    def _tainted_expr(self, e) -> bool:
        if e is None or is_fresh_expr(e):
            return False
        if isinstance(e, ast.BoolOp):
            return any(self._tainted_expr(v) for v in e.values)
        if isinstance(e, ast.IfExp):
            return self._tainted_expr(e.body) or self._tainted_expr(e.orelse)
        r = root_name(e)
        return r in self.params or r in self.tainted or r in self.globals or r == "?"

    def _assigns(self, node):
        pairs = []
        if isinstance(node, ast.Assign):
            pairs = [(t, node.value) for t in node.targets]
        elif isinstance(node, ast.AnnAssign) and node.value is not None:
            pairs = [(node.target, node.value)]
        elif isinstance(node, ast.NamedExpr):
            pairs = [(node.target, node.value)]
        elif isinstance(node, (ast.For, ast.AsyncFor)):
            pairs = [(node.target, node.iter)]
        for t, v in pairs:
            for name in self._targets(t):
                self.locals.add(name)
                if isinstance(node, (ast.For, ast.AsyncFor)):
                    # loop variables bind elements of the iterated object: aliases of caller data
                    if self._tainted_expr(v) or root_name(v) in self.params:
                        self.tainted.add(name)
                elif self._tainted_expr(v):
                    self.tainted.add(name)

    def shared(self, node) -> bool:
        r = root_name(node)
        if r in ("self", "cls"):
            return True
        if r in self.params or r in self.tainted:
            return True
        if r in self.locals:
            return False
        return True    # globals, builtins, unknown: fail closed

    def run(self):
        for node in ast.walk(self.fn):
            if isinstance(node, (ast.FunctionDef, ast.AsyncFunctionDef)) and node is not self.fn:
                continue
            if isinstance(node, (ast.Assign, ast.AugAssign, ast.AnnAssign)):
                tgts = node.targets if isinstance(node, ast.Assign) else [node.target]
                for t in tgts:
                    for sub in ([t] if not isinstance(t, (ast.Tuple, ast.List)) else t.elts):
                        if isinstance(sub, (ast.Attribute, ast.Subscript)) and self.shared(sub):
                            self.writes.append("store " + ast.unparse(sub))
                # an in-place operator on a name that aliases shared state (`xs = obj.items or []; xs += more`) extends
                # the shared object itself when it is a list / set / dict; numbers and strings are rebound, which the
                # syntax cannot tell apart - fail closed, the reviewed list names the numeric ones
                if isinstance(node, ast.AugAssign) and isinstance(node.target, ast.Name) and \
                        (node.target.id in self.tainted or node.target.id in self.params or node.target.id in self.globals):
                    self.writes.append("augassign " + node.target.id + " " + type(node.op).__name__)
            elif isinstance(node, ast.Delete):
                for t in node.targets:
                    if isinstance(t, (ast.Attribute, ast.Subscript)) and self.shared(t):
                        self.writes.append("del " + ast.unparse(t))
            elif isinstance(node, (ast.Global, ast.Nonlocal)):
                self.writes.append(type(node).__name__.lower() + " " + ",".join(node.names))
            elif isinstance(node, ast.Call) and isinstance(node.func, ast.Attribute) and node.func.attr in MUTATORS:
                if self.shared(node.func.value):
                    self.writes.append("call " + ast.unparse(node.func))
            elif isinstance(node, ast.Call) and node.args and (
                    (isinstance(node.func, ast.Name) and node.func.id in ("setattr", "delattr"))
                    or (isinstance(node.func, ast.Attribute) and node.func.attr in ("__setattr__", "__delattr__"))):
                # setattr(obj, name, value) / object.__setattr__(obj, name, value): a store spelled as a call
                if self.shared(node.args[0]):
                    self.writes.append("call " + ast.unparse(node.func) + " on " + ast.unparse(node.args[0]))
        return self.writes


def extract(repo: str) -> List[Tuple[str, str, str]]:
    out: List[Tuple[str, str, str]] = []
    base = os.path.join(repo, "koda_validate")
    files = []
    for root, _dirs, fs in os.walk(base):
        for f in fs:
            if f.endswith(".py"):
                files.append(os.path.join(root, f))
    for path in sorted(files):
        rel = os.path.relpath(path, base)
        tree = ast.parse(open(path).read())
        globals_ = {t.id for n in tree.body if isinstance(n, (ast.Assign, ast.AnnAssign))
                    for t in (n.targets if isinstance(n, ast.Assign) else [n.target]) if isinstance(t, ast.Name)}

        def visit(body, owner):
            for node in body:
                if isinstance(node, ast.ClassDef):
                    visit(node.body, node.name)
                elif isinstance(node, (ast.FunctionDef, ast.AsyncFunctionDef)):
                    if node.name not in SKIP_FUNCS:
                        for w in FnEffects(node, globals_).run():
                            out.append((rel, (owner + "." if owner else "") + node.name, w))
                    # nested functions (closures)
                    for sub in ast.walk(node):
                        if isinstance(sub, (ast.FunctionDef, ast.AsyncFunctionDef)) and sub is not node:
                            for w in FnEffects(sub, globals_ | {a.arg for a in node.args.args}).run():
                                out.append((rel, (owner + "." if owner else "") + node.name + "." + sub.name, w))
        visit(tree.body, "")
    return sorted(set(out))


def load_benign() -> Set[str]:
    import json
    p = os.path.join(os.path.dirname(os.path.abspath(__file__)), "effects_benign.json")
    if os.path.exists(p):
        return set(json.load(open(p))["benign"])
    return set()


def key(t: Tuple[str, str, str]) -> str:
    return "|".join(t)


def emit(repo: str, out_path: str) -> dict:
    ws = extract(repo)
    benign = load_benign()
    bad = [w for w in ws if key(w) not in benign]
    q = lambda s: '"' + s.replace('"', "'") + '"'
    lines = ["(* GENERATED by harness/facts/effects.py from /repo on every run - do not edit. *)",
             "From Coq Require Import List String.", "Import ListNotations.", "Open Scope string_scope.",
             f"Definition functions_with_reviewed_writes : nat := {len(ws) - len(bad)}.",
             "(* stores that can reach shared or caller-owned state and are not on the reviewed list *)",
             "Definition unreviewed_writes : list (string * (string * string)) := [",
             ";\n".join(f"  ({q(a)}, ({q(b)}, {q(c)}))" for a, b, c in bad), "].",
             "Lemma no_unreviewed_writes : unreviewed_writes = [].", "Proof. reflexivity. Qed."]
    open(out_path, "w").write("\n".join(lines) + "\n")
    return {"all": ws, "bad": bad}


def obligation(pid: str):
    """For a property whose model treats validators as values: (generated file, trusted-base line,
    regenerate function).  The generated lemma fails when a function on the validation path stores
    into its validator, its input or module state - per-call scratch fields, memo tables, 'last used'
    hints - which the model cannot express."""
    root = os.path.dirname(os.path.dirname(os.path.dirname(os.path.abspath(__file__))))
    rel = f"generated/Facts_effects_{pid}.v"
    note = (f"fact translator harness/facts/effects.py (python ast) regenerates coq/{rel} from /repo on every run: "
            "no function of the package stores into its validator object, its input or module state "
            "(the model's validators are immutable values; histories, re-entrant and overlapping calls cannot matter)")

    def regen():
        try:
            from ..rundir import GEN as _gen
            d = emit(os.environ.get("KV_REPO", "/repo"), os.path.join(_gen, os.path.basename(rel)))
            if d["bad"]:
                return True, "stores to the validator object / caller-owned / module state: " + "; ".join(key(w) for w in d["bad"][:4])
            return True, ""
        except Exception as e:  # noqa
            return False, f"effects extractor failed: {e}"
    return rel, note, regen


if __name__ == "__main__":
    for w in extract(sys.argv[1] if len(sys.argv) > 1 else "/repo"):
        print(key(w))
