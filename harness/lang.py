"""Case language shared by the Coq model and the Python builder.

A term is one of
  ("Ctor", arg, ...)   constructor application (constructors are the Coq ones)
  int                  a Z literal
  N(k)                 a nat literal
  bool                 true / false
  list                 a Coq list
  P(a, b)              a pair
  None / Some(x)       option
The same tree is printed to Coq text (coq()) and turned into live
koda_validate objects (harness/build.py), so the two sides consume one input.
"""
from __future__ import annotations


class N:
    __slots__ = ("k",)

    def __init__(self, k: int):
        assert isinstance(k, int) and k >= 0
        self.k = k

    def __eq__(self, o):
        return isinstance(o, N) and o.k == self.k

    def __hash__(self):
        return hash(("N", self.k))

    def __repr__(self):
        return f"N({self.k})"


class P:
    __slots__ = ("a", "b")

    def __init__(self, a, b):
        self.a, self.b = a, b

    def __eq__(self, o):
        return isinstance(o, P) and (o.a, o.b) == (self.a, self.b)

    def __hash__(self):
        return hash(("P", freeze(self.a), freeze(self.b)))

    def __repr__(self):
        return f"P({self.a!r}, {self.b!r})"


class Some:
    __slots__ = ("x",)

    def __init__(self, x):
        self.x = x

    def __eq__(self, o):
        return isinstance(o, Some) and o.x == self.x

    def __hash__(self):
        return hash(("Some", freeze(self.x)))

    def __repr__(self):
        return f"Some({self.x!r})"


def freeze(t):
    if isinstance(t, list):
        return ("#list",) + tuple([freeze(x) for x in t])
    if isinstance(t, tuple):
        return tuple([freeze(x) for x in t])
    return t


def coq(t) -> str:
    """Print a term as Coq text. Terms mirror the data, so deep data gives deep terms: the printer (harness code,
    not the code under test) works under a recursion limit of its own."""
    import sys
    old = sys.getrecursionlimit()
    if old >= 20000:
        return _coq(t)
    sys.setrecursionlimit(20000)
    try:
        return _coq(t)
    finally:
        sys.setrecursionlimit(old)


def _coq(t) -> str:
    if t is None:
        return "None"
    if t is True:
        return "true"
    if t is False:
        return "false"
    if isinstance(t, int):
        return f"({t})%Z"
    if isinstance(t, N):
        return f"{t.k}%nat"
    if isinstance(t, P):
        return f"({_coq(t.a)}, {_coq(t.b)})"
    if isinstance(t, Some):
        return f"(Some {_coq(t.x)})"
    if isinstance(t, list):
        return "[" + "; ".join([_coq(x) for x in t]) + "]"
    if isinstance(t, tuple):
        if len(t) == 1:
            return t[0]
        return "(" + t[0] + " " + " ".join([_coq(x) for x in t[1:]]) + ")"
    raise TypeError(f"not a term: {t!r}")


def to_json(t):
    """JSON-serialisable form (for replay files and evidence samples)."""
    if t is None or isinstance(t, (bool, int)):
        return t
    if isinstance(t, N):
        return {"nat": t.k}
    if isinstance(t, P):
        return {"pair": [to_json(t.a), to_json(t.b)]}
    if isinstance(t, Some):
        return {"some": to_json(t.x)}
    if isinstance(t, list):
        return [to_json(x) for x in t]
    if isinstance(t, tuple):
        return {"c": t[0], "a": [to_json(x) for x in t[1:]]}
    raise TypeError(f"not a term: {t!r}")


def from_json(j):
    if j is None or isinstance(j, (bool, int)):
        return j
    if isinstance(j, list):
        return [from_json(x) for x in j]
    if "nat" in j:
        return N(j["nat"])
    if "pair" in j:
        return P(from_json(j["pair"][0]), from_json(j["pair"][1]))
    if "some" in j:
        return Some(from_json(j["some"]))
    return (j["c"],) + tuple([from_json(x) for x in j["a"]])


def size(t) -> int:
    if isinstance(t, (list, tuple)):
        return 1 + sum([size(x) for x in t])
    if isinstance(t, P):
        return 1 + size(t.a) + size(t.b)
    if isinstance(t, Some):
        return 1 + size(t.x)
    return 1
