"""Every run of a check writes its generated Coq files (case files, regenerated facts) into a directory of
its own, coq/generated/run_<pid>, mapped to the logical path KVGen for that run only: concurrent runs - of the
same or of different properties, against /repo or against a scratch copy - cannot see each other's files."""
import os

ROOT = os.path.dirname(os.path.dirname(os.path.abspath(__file__)))
RUN = f"run_{os.getpid()}"
GEN_REL = f"generated/{RUN}"
GEN = os.path.join(ROOT, "coq", "generated", RUN)
os.makedirs(GEN, exist_ok=True)


def rel(path: str) -> str:
    """generated/X.v -> generated/run_<pid>/X.v (relative to coq/)"""
    return path.replace("generated/", GEN_REL + "/", 1) if path.startswith("generated/") else path
