(* SigCheck: canonical form of a wrapper trace (sets compared up to iteration order). *)
From Coq Require Import ZArith List Bool.
From KV Require Import Base.PyVal Base.Prims Model.Validator Model.Sem Model.Signature Corr.Canon.
Import ListNotations.

Definition canon_wres (r : wres) : wres :=
  match r with
  | WArgsErr errs => WArgsErr (map (fun e => (fst e, canon_inv (snd e))) errs)
  | WRetErr i => WRetErr (canon_inv i)
  | WReturn v => WReturn (canon v)
  | WAbort o => WAbort (canon_outcome o)
  | WRaise e => WRaise e
  end.

Definition canon_trace (t : option (list pyval * list (nat * pyval)) * wres)
  : option (list pyval * list (nat * pyval)) * wres :=
  (option_map (fun ak => (map canon (fst ak), map (fun kv => (fst kv, canon (snd kv))) (snd ak))) (fst t),
   canon_wres (snd t)).
