(* UserLib: the finite family of user callbacks used to *execute* cases in the
   correspondence check; each definition has a twin with the same id in
   harness/userlib.py.  Theorems never mention this file: they quantify over
   every environment. *)
From Coq Require Import ZArith List Bool.
From KV Require Import Base.PyVal Base.Prims Model.Validator.
Import ListNotations.
Open Scope Z_scope.

Definition sized (x : pyval) : option Z :=
  match py_len x with Ok n => Some n | Exn _ => None end.

(* id 2 *)
Definition parity (x : pyval) : bool :=
  match unsub x with
  | VInt z => Z.even z
  | _ => match sized x with Some n => Z.even n | None => false end
  end.

(* id 3 *)
Definition nonzero (x : pyval) : bool :=
  match unsub x with
  | VBool _ => true
  | VInt z => negb (z =? 0)
  | _ => match sized x with Some n => negb (n =? 0) | None => true end
  end.

Definition u_pred (id : nat) (x : pyval) : bool :=
  match id with
  | 0%nat => true
  | 1%nat => false
  | 2%nat => parity x
  | _ => nonzero x
  end.

Definition u_proc (id : nat) (x : pyval) : pyval :=
  match id with
  | 0%nat => x
  | 1%nat =>
      match x with
      | VInt z => VInt (z + 1)
      | VStr s => VStr (s ++ [120])
      | VBytes s => VBytes (s ++ [120])
      | _ => x
      end
  | _ =>
      match x with
      | VStr s => VStr (rev s)
      | VBytes s => VBytes (rev s)
      | VList xs => VList (rev xs)
      | VTuple xs => VTuple (rev xs)
      | _ => x
      end
  end.

Definition u_coerce (id : nat) (x : pyval) : option pyval :=
  match id with
  | 0%nat => None
  | 1%nat => Some x
  | 2%nat =>
      match x with
      | VBool b => Some (VInt (if b then 1 else 0))
      | VInt _ => Some x
      | _ => None
      end
  | 3%nat =>
      match x with
      | VList _ => Some x
      | VTuple xs => Some (VList xs)
      | _ => None
      end
  | 4%nat => Some (VInt 7)
  | 5%nat =>
      match x with
      | VNone => Some (VDict [])
      | VDict _ => Some x
      | _ => None
      end
  | _ =>
      match x with
      | VList xs => Some (VTuple xs)
      | VTuple _ => Some x
      | _ => None
      end
  end.

Definition u_compat (id : nat) : list pytype :=
  match id with
  | 0%nat => []
  | 1%nat => [TInt]
  | 2%nat => [TBool; TInt]
  | 3%nat => [TList; TTuple]
  | 4%nat => [TStr]
  | 5%nat => [TNone; TDict]
  | _ => [TList; TTuple]
  end.

Fixpoint enumerate_from (i : Z) (xs : list pyval) : list (pyval * pyval) :=
  match xs with
  | [] => []
  | x :: xs' => (VInt i, x) :: enumerate_from (i + 1) xs'
  end.

Definition u_into (id : nat) (args : list pyval) : pyval :=
  match id with
  | 0%nat => VTuple args
  | 1%nat => VList args
  | _ => VDict (enumerate_from 0 args)
  end.

Definition obj_size (obj : pyval) : Z :=
  match sized obj with
  | Some n => n
  | None => match obj with VObj _ fs => zlen fs | _ => 0 end
  end.

Definition u_obj (id : nat) (obj : pyval) : option errtype :=
  match id with
  | 0%nat => None
  | 1%nat => Some (CustomErr 1)
  | 3%nat => Some (CustomErr 100)          (* a SerializableErr *)
  | _ => if Z.even (obj_size obj) then None else Some (CustomErr 2)
  end.

Definition u_valid (id : nat) (flav : bool) (m : mode) (x : pyval) : outcome :=
  let self := UserV id flav in
  match id with
  | 0%nat =>
      match x with
      | VInt z => OValid (VInt (z + 1))
      | _ => OInvalid (Invalid (TypeErr TInt) x self)
      end
  | 1%nat =>
      match m with
      | Sync => OAssert
      | Async => if parity x then OValid x else OInvalid (Invalid (CustomErr 3) x self)
      end
  | 2%nat => OValid x
  | 3%nat =>
      match x with
      | VStr s => OValid (VStr (strip_with is_space_uni s))
      | _ => OInvalid (Invalid (TypeErr TStr) x self)
      end
  | _ => OInvalid (Invalid (CustomErr 4) x self)
  end.

Definition okind_eqb (a b : okind) : bool :=
  match a, b with
  | OkDecimal, OkDecimal | OkUuid, OkUuid | OkDate, OkDate | OkDatetime, OkDatetime => true
  | _, _ => false
  end.

Definition oracle_miss : pyval := VObj 999%nat [].

Definition default_cls : cls :=
  {| ckind_of := CkPlain; chash_of := true; cfields_of := [] |}.

Section MkEnv.
  Variable classes_tbl : list cls.
  Variable lazy_tbl : list validator.
  Variable oracle_tbl : list (okind * (pyval * option pyval)).
  Variable re_tbl : list (nat * (list Z * bool)).
  Variable email_tbl : list (list Z * bool).
  Variable case_tbl : list (bool * (list Z * list Z)).

  Definition lookup_oracle (k : okind) (x : pyval) : option pyval :=
    match find (fun e => okind_eqb k (fst e) && pyval_eqb x (fst (snd e))) oracle_tbl with
    | Some e => snd (snd e)
    | None => Some oracle_miss
    end.

  Definition lookup_re (id : nat) (s : list Z) : bool :=
    match find (fun e => Nat.eqb id (fst e) && list_eqb Z.eqb s (fst (snd e))) re_tbl with
    | Some e => snd (snd e)
    | None => false
    end.

  Definition lookup_email (s : list Z) : bool :=
    match find (fun e => list_eqb Z.eqb s (fst e)) email_tbl with
    | Some e => snd e
    | None => false
    end.

  Definition lookup_case (up : bool) (s : list Z) : list Z :=
    match find (fun e => Bool.eqb up (fst e) && list_eqb Z.eqb s (fst (snd e))) case_tbl with
    | Some e => snd (snd e)
    | None => [63; 63; 63]
    end.

  Definition mk_env : env :=
    {| classes := fun c => nth c classes_tbl default_cls;
       upred := u_pred;
       uapred := u_pred;
       uproc := u_proc;
       ucoerce := u_coerce;
       ucompat := u_compat;
       uinto := u_into;
       uobj := u_obj;
       uaobj := u_obj;
       uvalid := u_valid;
       lazy_env := fun r => nth r lazy_tbl AlwaysValid;
       oracle := lookup_oracle;
       re_match := lookup_re;
       email_match := lookup_email;
       case_map := lookup_case |}.
End MkEnv.
