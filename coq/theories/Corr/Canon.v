(* Canon: canonical form of outcomes for comparison with observations.
   Python sets have no defined iteration order, so every VSet is sorted by a
   serialisation key on both sides before the two outcomes are compared. *)
From Coq Require Import ZArith List Bool.
From KV Require Import Base.PyVal Base.Prims Model.Validator.
Import ListNotations.
Open Scope Z_scope.

Definition b2z (b : bool) : Z := if b then 1 else 0.

Definition float_tokens (f : pyfloat) : list Z :=
  match f with
  | FNan => [0]
  | FInf n => [1; b2z n]
  | FFin n m e => [2; b2z n; m; e]
  end.

Definition dec_tokens (d : pydec) : list Z :=
  match d with
  | DNan n s => [0; b2z n; b2z s]
  | DInf n => [1; b2z n]
  | DFin n c e => [2; b2z n; c; e]
  end.

Fixpoint tokens (v : pyval) : list Z :=
  match v with
  | VNone => [0]
  | VBool b => [1; b2z b]
  | VInt z => [2; z]
  | VFloat f => 3 :: float_tokens f
  | VStr s => 4 :: zlen s :: s
  | VBytes s => 5 :: zlen s :: s
  | VDecimal d => 6 :: dec_tokens d
  | VUuid n => [7; n]
  | VDate o => [8; o]
  | VDatetime u t => 9 :: u :: match t with Some o => [1; o] | None => [0] end
  | VList xs => 10 :: zlen xs :: flat_map tokens xs
  | VTuple xs => 11 :: zlen xs :: flat_map tokens xs
  | VSet xs => 12 :: zlen xs :: flat_map tokens xs
  | VDict kvs => 13 :: zlen kvs :: flat_map (fun kv => tokens (fst kv) ++ tokens (snd kv)) kvs
  | VJust x => 14 :: tokens x
  | VNothing => [15]
  | VObj c fs => 16 :: Z.of_nat c :: zlen fs
                  :: flat_map (fun kv => tokens (fst kv) ++ tokens (snd kv)) fs
  | VSub c b => 17 :: Z.of_nat c :: tokens b
  end.

Fixpoint insert_sorted (x : pyval) (xs : list pyval) : list pyval :=
  match xs with
  | [] => [x]
  | y :: ys => if lex_leb false (tokens x) (tokens y) then x :: xs else y :: insert_sorted x ys
  end.

Definition sort_vals (xs : list pyval) : list pyval := fold_right insert_sorted [] xs.

Fixpoint canon (v : pyval) : pyval :=
  match v with
  | VList xs => VList (map canon xs)
  | VTuple xs => VTuple (map canon xs)
  | VSet xs => VSet (sort_vals (map canon xs))
  | VDict kvs => VDict (map (fun kv => (canon (fst kv), canon (snd kv))) kvs)
  | VJust x => VJust (canon x)
  | VObj c fs => VObj c (map (fun kv => (canon (fst kv), canon (snd kv))) fs)
  | VSub c b => VSub c (canon b)
  | _ => v
  end.

Fixpoint canon_inv (i : invalid) : invalid :=
  match i with
  | Invalid e v w => Invalid (canon_err e) (canon v) w
  end
with canon_err (e : errtype) : errtype :=
  match e with
  | ContainerErr c => ContainerErr (canon_inv c)
  | ExtraKeysErr ks => ExtraKeysErr (map canon ks)
  | KeyErrs ks => KeyErrs (map (fun kv => (canon (fst kv), canon_inv (snd kv))) ks)
  | MapErr ks =>
      MapErr (map (fun kv => (canon (fst kv),
                              (option_map canon_inv (fst (snd kv)),
                               option_map canon_inv (snd (snd kv))))) ks)
  | IndexErrs ix => IndexErrs (map (fun kv => (fst kv, canon_inv (snd kv))) ix)
  | SetErrs xs => SetErrs (map canon_inv xs)
  | UnionErrs xs => UnionErrs (map canon_inv xs)
  | _ => e
  end.

Definition canon_outcome (o : outcome) : outcome :=
  match o with
  | OValid w => OValid (canon w)
  | OInvalid i => OInvalid (canon_inv i)
  | _ => o
  end.
