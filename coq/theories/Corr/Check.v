(* Check: the comparison tactic used by generated correspondence files. *)
From Coq Require Import ZArith List Bool.
From KV Require Import Base.PyVal Base.Prims Model.Validator Model.Sem Corr.UserLib Corr.Canon.

(* evaluate the model on one case and compare it, syntactically after
   canonicalisation, with the outcome observed on the implementation *)
Ltac chk idx E m fuel v x obs :=
  let a := eval vm_compute in (canon_outcome (run E m fuel v x)) in
  let b := eval vm_compute in (canon_outcome obs) in
  first [ constr_eq a b | idtac "MISMATCH" idx "MODEL" a ].

(* generic: compare two already-built terms of any type *)
Ltac chk_eq idx a0 b0 :=
  let a := eval vm_compute in a0 in
  let b := eval vm_compute in b0 in
  first [ constr_eq a b | idtac "MISMATCH" idx "MODEL" a ].

(* C01's projection: outcome class, top-level error kind / exception kind only *)
Definition errkind (e : errtype) : Z :=
  match e with
  | TypeErr _ => 1 | CoercionErr _ _ => 2 | ContainerErr _ => 3 | ExtraKeysErr _ => 4
  | KeyErrs _ => 5 | MapErr _ => 6 | MissingKeyErr => 7 | IndexErrs _ => 8 | SetErrs _ => 9
  | UnionErrs _ => 10 | PredicateErrs _ => 11 | CustomErr _ => 12
  end%Z.

Definition exnkind (e : exn) : Z :=
  match e with
  | ExType => 1 | ExAttribute => 2 | ExInvalidOp => 3 | ExZeroDiv => 4 | ExValue => 5 | ExOther => 6
  end%Z.

Definition oclass (o : outcome) : Z :=
  match o with
  | OValid _ => 0
  | OInvalid (Invalid e _ _) => errkind e
  | OAssert => 20
  | ORaise e => 30 + exnkind e
  | ONoFuel => 99
  end%Z.

Ltac chk_class idx E m fuel v x obs :=
  let a := eval vm_compute in (oclass (run E m fuel v x)) in
  let b := eval vm_compute in (oclass obs) in
  first [ constr_eq a b | idtac "MISMATCH" idx "MODEL" a ].
