(* Check: the comparison tactic used by generated correspondence files. *)
From Coq Require Import ZArith List Bool.
From KV Require Import Base.PyVal Base.Prims Model.Validator Model.Sem Corr.UserLib Corr.Canon.

(* evaluate the model on one case and compare it, syntactically after
   canonicalisation, with the outcome observed on the implementation *)
Ltac chk idx E m fuel v x obs :=
  let a := eval vm_compute in (canon_outcome (run E m fuel v x)) in
  let b := eval vm_compute in (canon_outcome obs) in
  first [ constr_eq a b | idtac "MISMATCH" idx "MODEL" a ].

(* generic: compare two already-built terms of any type *)
Ltac chk_eq idx a0 b0 :=
  let a := eval vm_compute in a0 in
  let b := eval vm_compute in b0 in
  first [ constr_eq a b | idtac "MISMATCH" idx "MODEL" a ].
