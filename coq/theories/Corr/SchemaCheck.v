(* SchemaCheck: finite text tables for the correspondence files of C10 / C11. *)
From Coq Require Import ZArith List Bool.
From KV Require Import Base.PyVal Base.Prims Model.Validator Model.Schema.
Import ListNotations.

Definition tk_eqb (a b : textkind) : bool :=
  match a, b with
  | TkStr, TkStr | TkIso, TkIso | TkDecodeUtf8, TkDecodeUtf8 | TkPrefixBytes, TkPrefixBytes
  | TkSuffixBytes, TkSuffixBytes | TkPattern, TkPattern | TkNtuple, TkNtuple => true
  | _, _ => false
  end.

Fixpoint text_lookup (t : list (textkind * (pyval * option jstring))) (k : textkind) (v : pyval)
  : option jstring :=
  match t with
  | [] => None
  | (k', (v', r)) :: rest => if tk_eqb k k' && pyval_eqb v v' then r else text_lookup rest k v
  end.

From KV Require Import Model.Sem Model.SchemaSat.

Fixpoint re_tbl_search (t : list (jstring * (list Z * bool))) (p : jstring) (s : list Z) : bool :=
  match t with
  | [] => false
  | (p', (s', b)) :: r => if jstr_eqb p p' && jstr_eqb s s' then b else re_tbl_search r p s
  end.

(* C11: (verdict of the model schema under the model's sat, verdict of the model validator) *)
Definition c11_eval (E : env) (text : textkind -> pyval -> option jstring)
           (re : jstring -> list Z -> bool) (named : option (jstring * jstring)) (fuel : nat)
           (v : validator) (x : pyval) : option bool * bool :=
  (match named with
   | None =>
       match to_schema text None v with
       | Ok j => Some (sat re (fun _ _ => false) j x)
       | Exn _ => None
       end
   | Some (name, ref) =>
       match to_schema text (Some (ref ++ name)) v with
       | Ok j => Some (sat_fuel re fuel j j x)
       | Exn _ => None
       end
   end,
   match run E Sync fuel v x with OValid _ => true | _ => false end).
