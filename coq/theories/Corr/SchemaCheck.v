(* SchemaCheck: finite text tables for the correspondence files of C10 / C11. *)
From Coq Require Import ZArith List Bool.
From KV Require Import Base.PyVal Base.Prims Model.Validator Model.Schema.
Import ListNotations.

Definition tk_eqb (a b : textkind) : bool :=
  match a, b with
  | TkStr, TkStr | TkIso, TkIso | TkDecodeUtf8, TkDecodeUtf8 | TkPrefixBytes, TkPrefixBytes
  | TkSuffixBytes, TkSuffixBytes | TkPattern, TkPattern | TkNtuple, TkNtuple => true
  | _, _ => false
  end.

Fixpoint text_lookup (t : list (textkind * (pyval * option jstring))) (k : textkind) (v : pyval)
  : option jstring :=
  match t with
  | [] => None
  | (k', (v', r)) :: rest => if tk_eqb k k' && pyval_eqb v v' then r else text_lookup rest k v
  end.
