(* C07, completeness in signature mode: the derived validator accepts every value of the annotated
   type unchanged, and answers every other well-formed value with an Invalid - never an exception.
   Fuel: the height of the annotation suffices whatever the value. *)
From Coq Require Import ZArith List Bool Lia.
From KV Require Import Base.PyVal Base.Prims Model.Validator Model.Sem Model.Derive
     Proofs.Scalar Proofs.Calls Proofs.Collections Proofs.Records Proofs.Wrappers Proofs.EqP Proofs.EqbSound
     Proofs.DeriveP Proofs.DeriveR Proofs.FixRec.
Import ListNotations.
Open Scope nat_scope.

Definition lmax (f : ann -> nat) (l : list ann) : nat := fold_right (fun x acc => Nat.max (f x) acc) 0 l.

Fixpoint aheight (a : ann) : nat :=
  match a with
  | AList x | ASet x | ATupleU x | AMaybe x => S (aheight x)
  | AQual x | AAnnotated x _ => aheight x
  | ADict k v => S (Nat.max (aheight k) (aheight v))
  | ATupleN l | AUnion l => S (fold_right (fun x acc => Nat.max (aheight x) acc) 0 l)
  | ALiteral _ | ANakedList | ANakedSet | ANakedTuple | ANakedDict => 1
  | ARecord _ _ fields => S (fold_right (fun f acc => Nat.max (aheight (fst (snd f))) acc) 0 fields)
  | _ => 0
  end.

Lemma lmax_in (l : list ann) a : In a l -> aheight a <= fold_right (fun x acc => Nat.max (aheight x) acc) 0 l.
Proof. induction l as [|b l IH]; intros Hin; [destruct Hin|]. cbn [fold_right]. destruct Hin as [->|Hin]; [lia|]. specialize (IH Hin). lia. Qed.

(* values as Python can build them: set members and dict keys are hashable and pairwise distinct,
   an instance has exactly its class's fields, in order *)
Fixpoint hproper (E : env) (x : pyval) : bool :=
  match x with
  | VList xs | VTuple xs => forallb (hproper E) xs
  | VSet xs => forallb (hproper E) xs && forallb (hashable (chashable E)) xs && distinct_from [] xs
  | VDict kvs => forallb (fun kv => hproper E (fst kv) && hproper E (snd kv)) kvs
                 && forallb (fun kv => hashable (chashable E) (fst kv)) kvs && keys_distinct_from [] kvs
  | VJust y => hproper E y
  | VObj c fs => list_eqb pyval_eqb (map fst fs) (map fst (cfields E c)) && forallb (fun kv => hproper E (snd kv)) fs
  | _ => true
  end.

Lemma hproper_proper E : forall x, hproper E x = true -> proper x = true.
Proof.
  fix IH 1. intros x; destruct x; cbn [hproper proper]; intros H; try reflexivity.
  - revert H. induction xs as [|y ys IHl]; cbn [forallb]; [reflexivity|]. intros H. apply andb_prop in H. destruct H as [H1 H2].
    rewrite (IH y H1), (IHl H2). reflexivity.
  - revert H. induction xs as [|y ys IHl]; cbn [forallb]; [reflexivity|]. intros H. apply andb_prop in H. destruct H as [H1 H2].
    rewrite (IH y H1), (IHl H2). reflexivity.
  - apply andb_prop in H. destruct H as [H Hd]. apply andb_prop in H. destruct H as [H _]. rewrite Hd, andb_true_r. clear Hd.
    revert H. induction xs as [|y ys IHl]; cbn [forallb]; [reflexivity|]. intros H. apply andb_prop in H. destruct H as [H1 H2].
    rewrite (IH y H1), (IHl H2). reflexivity.
  - apply andb_prop in H. destruct H as [H Hd]. apply andb_prop in H. destruct H as [H _]. rewrite Hd, andb_true_r. clear Hd.
    revert H. induction kvs as [|[k v] ys IHl]; cbn [forallb fst snd]; [reflexivity|]. intros H. apply andb_prop in H. destruct H as [H1 H2].
    apply andb_prop in H1. destruct H1 as [Hk Hv]. rewrite (IH k Hk), (IH v Hv), (IHl H2). reflexivity.
  - apply IH; exact H.
  - apply andb_prop in H. destruct H as [_ H].
    revert H. induction fields as [|[k v] ys IHl]; cbn [forallb fst snd]; [reflexivity|]. intros H. apply andb_prop in H. destruct H as [H1 H2].
    rewrite (IH v H1), (IHl H2). reflexivity.
Qed.

Lemma hproper_inst E : forall x, hproper E x = true -> inst_ok E x = true.
Proof.
  fix IH 1. intros x; destruct x; cbn [hproper inst_ok]; intros H; try reflexivity.
  - revert H. induction xs as [|y ys IHl]; cbn [forallb]; [reflexivity|]. intros H. apply andb_prop in H. destruct H as [H1 H2].
    rewrite (IH y H1), (IHl H2). reflexivity.
  - revert H. induction xs as [|y ys IHl]; cbn [forallb]; [reflexivity|]. intros H. apply andb_prop in H. destruct H as [H1 H2].
    rewrite (IH y H1), (IHl H2). reflexivity.
  - apply andb_prop in H. destruct H as [H _]. apply andb_prop in H. destruct H as [H _].
    revert H. induction xs as [|y ys IHl]; cbn [forallb]; [reflexivity|]. intros H. apply andb_prop in H. destruct H as [H1 H2].
    rewrite (IH y H1), (IHl H2). reflexivity.
  - apply andb_prop in H. destruct H as [H _]. apply andb_prop in H. destruct H as [H _].
    revert H. induction kvs as [|[k v] ys IHl]; cbn [forallb fst snd]; [reflexivity|]. intros H. apply andb_prop in H. destruct H as [H1 H2].
    apply andb_prop in H1. destruct H1 as [Hk Hv]. rewrite (IH k Hk), (IH v Hv), (IHl H2). reflexivity.
  - apply IH; exact H.
  - apply andb_prop in H. destruct H as [Hn H]. rewrite Hn. cbn [andb].
    revert H. clear Hn. induction fields as [|[k v] ys IHl]; cbn [forallb fst snd]; [reflexivity|]. intros H. apply andb_prop in H. destruct H as [H1 H2].
    rewrite (IH v H1), (IHl H2). reflexivity.
Qed.

Definition lit_member (v : pyval) : bool :=
  match v with VStr _ | VInt _ | VBool _ | VBytes _ | VNone => true | _ => false end.

(* the fragment: no user validators; Literal members are str / int / bool / bytes / None; record
   classes are dataclasses or NamedTuples with a consistent class table (node_ok) *)
Fixpoint cplain (E : env) (a : ann) : bool :=
  match a with
  | AList x | ASet x | ATupleU x | AMaybe x | AQual x => cplain E x
  | ADict k v => cplain E k && cplain E v
  | ATupleN l | AUnion l => forallb (cplain E) l
  | AAnnotated x None => cplain E x
  | AAnnotated _ (Some _) => false
  | ARecord rk c fields =>
      match rk with RkTyped => false | _ => true end &&
      node_ok E rk c fields && forallb (fun f => cplain E (fst (snd f))) fields
  | ALiteral vs => forallb lit_member vs
  | _ => true
  end.

Lemma cplain_okstrict E : forall a, cplain E a = true -> okstrict E a = true.
Proof.
  induction a using ann_ind'; cbn [cplain okstrict]; intros Hc; try reflexivity; try discriminate; auto.
  - apply andb_prop in Hc. destruct Hc as [H1 H2]. rewrite IHa1, IHa2; auto.
  - apply forallb_forall. intros a Hin. rewrite forallb_forall in Hc. rewrite Forall_forall in H. apply H; auto.
  - apply forallb_forall. intros a Hin. rewrite forallb_forall in Hc. rewrite Forall_forall in H. apply H; auto.
  - destruct v; [discriminate|]. auto.
  - apply andb_prop in Hc. destruct Hc as [Hc Hf]. rewrite Hc. cbn [andb].
    apply forallb_forall. intros f Hin. rewrite forallb_forall in Hf. rewrite Forall_forall in H. apply H; auto.
Qed.

Section Complete.
  Variable E : env.
  Let hb := chashable E.

  Definition complete_at (a : ann) : Prop :=
    cplain E a = true -> forall v, derive true a = Ok v ->
    forall n x, aheight a < n -> hproper E x = true ->
      normal (run E Sync n v x) = true /\
      (has_type a x = true -> run E Sync n v x = OValid x).

  (* every valid payload is the input itself (derive_strict), hence as hashable as the input *)
  Lemma valid_is_input a v n x w :
    cplain E a = true -> derive true a = Ok v -> hproper E x = true -> run E Sync n v x = OValid w -> w = x.
  Proof.
    intros Hc Hd Hp Hr.
    destruct (derive_strict_all E a (cplain_okstrict E a Hc) v Hd n x w Hr (hproper_inst E x Hp)) as [_ H].
    apply H. eapply hproper_proper; exact Hp.
  Qed.

  Lemma seq_complete exact dest wrap rec self item x xs :
    exact_type x exact = true -> py_iter x = Ok xs ->
    Forall (fun xi => normal (rec item xi) = true) xs ->
    normal (seq_body E exact dest wrap rec self item [] [] None Sync x) = true /\
    (Forall (fun xi => rec item xi = OValid xi) xs ->
     seq_body E exact dest wrap rec self item [] [] None Sync x = OValid (wrap xs)).
  Proof.
    intros Ex Hit Hn. unfold seq_body, gate. rewrite Ex. cbn [mode_eqb nonempty andb].
    assert (Hps : pred_stage E self Sync [] [] x = None) by reflexivity. rewrite Hps, Hit.
    assert (Hn' : Forall (fun c => normal (callr rec c) = true) (map (fun xi => (item, xi)) xs)).
    { apply (Forall_callr_item (fun o => normal o = true)). exact Hn. }
    rewrite (run_calls_normal _ _ Hn'), map_callr_item.
    rewrite collect_items_normal by (rewrite Forall_map; exact Hn).
    split.
    - destruct (index_errs 0 (map (rec item) xs)); reflexivity.
    - intros Hv. assert (Hm : map (rec item) xs = map OValid xs).
      { clear - Hv. induction Hv as [|xi xs Hx _ IH]; [reflexivity|]. cbn [map]. rewrite Hx, IH. reflexivity. }
      rewrite Hm, valid_payloads_map, index_errs_map_valid. reflexivity.
  Qed.

  Definition out_ok (o : outcome) : Prop :=
    match o with OValid w => hashable hb w = true | OInvalid _ => True | _ => False end.

  Lemma collect_set_total outs : Forall out_ok outs ->
    forall acc errs, exists acc' errs', collect_set E outs acc errs = inr (acc', errs').
  Proof.
    induction 1 as [|o outs Ho _ IH]; intros acc errs; cbn [collect_set]; [eauto|].
    destruct o; cbn [out_ok] in Ho; try contradiction.
    - destruct errs; [|apply IH]. unfold hb in Ho. rewrite Ho. apply IH.
    - apply IH.
  Qed.

  Lemma set_complete rec self item xs :
    Forall (fun xi => normal (rec item xi) = true) xs ->
    Forall (fun xi => forall w, rec item xi = OValid w -> hashable hb w = true) xs ->
    normal (set_body E rec self item [] [] None Sync (VSet xs)) = true /\
    (Forall (fun xi => rec item xi = OValid xi) xs -> Forall (fun xi => hashable hb xi = true) xs ->
     distinct_from [] xs = true ->
     set_body E rec self item [] [] None Sync (VSet xs) = OValid (VSet xs)).
  Proof.
    intros Hn Hh. unfold set_body, gate. cbn [mode_eqb nonempty andb exact_type type_of pytype_eqb].
    assert (Hps : pred_stage E self Sync [] [] (VSet xs) = None) by reflexivity. rewrite Hps.
    cbn [py_iter unsub].
    assert (Hn' : Forall (fun c => normal (callr rec c) = true) (map (fun xi => (item, xi)) xs)).
    { apply (Forall_callr_item (fun o => normal o = true)). exact Hn. }
    rewrite (run_calls_normal _ _ Hn'), map_callr_item.
    split.
    - assert (Hok : Forall out_ok (map (rec item) xs)).
      { rewrite Forall_map. rewrite Forall_forall in Hn, Hh |- *. intros xi Hin. specialize (Hn xi Hin). specialize (Hh xi Hin).
        unfold out_ok. destruct (rec item xi) eqn:Er; try discriminate; [apply Hh; reflexivity | exact I]. }
      destruct (collect_set_total _ Hok [] []) as [acc' [errs' Hc]]. rewrite Hc. destruct errs'; reflexivity.
    - intros Hv Hhx Hd. assert (Hm : map (rec item) xs = map OValid xs).
      { clear - Hv. induction Hv as [|xi xs Hx _ IH]; [reflexivity|]. cbn [map]. rewrite Hx, IH. reflexivity. }
      rewrite Hm, (collect_set_valid E xs [] Hhx). unfold set_payload. rewrite (set_payload_distinct xs [] Hd). reflexivity.
  Qed.

  Lemma map_ref_total rec kv vv kvs :
    Forall (fun p => normal (rec kv (fst p)) = true /\ normal (rec vv (snd p)) = true /\
                     (forall w, rec kv (fst p) = OValid w -> hashable hb w = true)) kvs ->
    forall acc errs, exists acc' errs', map_ref E rec kv vv kvs acc errs = inr (acc', errs').
  Proof.
    induction 1 as [|[k v] kvs [Hk [Hv Hh]] _ IH]; intros acc errs; cbn [map_ref]; [eauto|]. cbv zeta. cbn [fst snd] in *.
    rewrite Hk, Hv. cbn [negb].
    destruct (rec kv k) eqn:Ek; try discriminate; destruct (rec vv v) eqn:Ev; try discriminate; try apply IH.
    unfold hb in Hh. rewrite (Hh _ eq_refl). apply IH.
  Qed.

  Lemma map_complete rec self kv vv kvs :
    Forall (fun p => normal (rec kv (fst p)) = true /\ normal (rec vv (snd p)) = true /\
                     (forall w, rec kv (fst p) = OValid w -> hashable hb w = true)) kvs ->
    normal (map_body E rec self kv vv [] [] None Sync (VDict kvs)) = true /\
    (Forall (fun p => rec kv (fst p) = OValid (fst p) /\ rec vv (snd p) = OValid (snd p)) kvs ->
     Forall (fun p => hashable hb (fst p) = true) kvs -> keys_distinct_from [] kvs = true ->
     map_body E rec self kv vv [] [] None Sync (VDict kvs) = OValid (VDict kvs)).
  Proof.
    intros Hn. split.
    - unfold map_body, gate. cbn [mode_eqb nonempty andb exact_type type_of pytype_eqb].
      assert (Hps : pred_stage E self Sync [] [] (VDict kvs) = None) by reflexivity. rewrite Hps.
      cbn [as_dict unsub]. rewrite collect_map_ref.
      destruct (map_ref_total rec kv vv kvs Hn [] []) as [acc' [errs' Hc]]. rewrite Hc. destruct errs'; reflexivity.
    - intros Hv Hh Hd. apply map_accept. split; [reflexivity|]. exists (VDict kvs), kvs, kvs. repeat split.
      + clear - Hv. induction Hv as [|p kvs Hp _ IH]; constructor; [exact Hp | exact IH].
      + exact Hh.
      + unfold map_payload. rewrite (map_payload_distinct kvs [] Hd). reflexivity.
  Qed.

  Lemma union_complete rec self vs x :
    Forall (fun v => normal (rec v x) = true) vs ->
    normal (union_body rec self vs x) = true /\
    (forall v, In v vs -> forall w, rec v x = OValid w ->
       exists v' w', In v' vs /\ rec v' x = OValid w' /\ union_body rec self vs x = OValid w').
  Proof.
    intros Hn. unfold union_body.
    induction Hn as [|v vs Hv _ IH]; [split; [reflexivity | intros v []]|].
    cbn [map run_calls]. destruct (rec v x) as [w0|i0| | |] eqn:Ev; try discriminate.
    - split; [reflexivity|]. intros v1 _ w _. exists v, w0. split; [left; reflexivity|]. split; [exact Ev | reflexivity].
    - cbn [collect_union]. destruct IH as [IHn IHc].
      destruct (collect_union (run_calls true rec (map (fun v0 => (v0, x)) vs))) as [o|errs] eqn:Ec.
      + split; [exact IHn|]. intros v1 [<-|Hin] w Hw; [congruence|].
        destruct (IHc v1 Hin w Hw) as [v' [w' [Hin' [Hr Hu]]]]. exists v', w'. split; [right; exact Hin'|]. split; [exact Hr | exact Hu].
      + split; [reflexivity|]. intros v1 [<-|Hin] w Hw; [congruence|].
        destruct (IHc v1 Hin w Hw) as [v' [w' [_ [_ Hu]]]]. discriminate.
  Qed.

  Lemma ntuple_complete rec self fields xs :
    Forall (fun c => normal (callr rec c) = true) (combine fields xs) ->
    normal (ntuple_body E rec self fields None None Sync (VTuple xs)) = true /\
    (length xs = length fields -> Forall (fun c => callr rec c = OValid (snd c)) (combine fields xs) ->
     ntuple_body E rec self fields None None Sync (VTuple xs) = OValid (VTuple xs)).
  Proof.
    intros Hn. split.
    - unfold ntuple_body, gate. cbn [exact_type type_of pytype_eqb]. cbv zeta.
      cbn [pred_eval py_len unsub pbind]. destruct (zlen xs =? zlen fields)%Z; [|reflexivity].
      cbn [py_iter unsub]. rewrite (run_calls_normal _ _ Hn).
      rewrite collect_items_normal by (rewrite Forall_map; exact Hn).
      destruct (index_errs 0 (map (callr rec) (combine fields xs))); reflexivity.
    - intros Hl Hv. apply ntuple_accept. exists (VTuple xs), xs, xs. repeat split.
      + cbn [pred_eval py_len unsub pbind]. f_equal. apply Z.eqb_eq. unfold zlen. rewrite Hl. reflexivity.
      + clear Hn. revert xs Hl Hv. induction fields as [|f fields IH]; intros [|x xs] Hl Hv; try discriminate; cbn [combine]; constructor.
        * inversion Hv; subst. assumption.
        * apply IH; [cbn in Hl; lia | inversion Hv; subst; assumption].
  Qed.

  Lemma not_exact_seq exact dest wrap rec self item x :
    exact_type x exact = false ->
    seq_body E exact dest wrap rec self item [] [] None Sync x = OInvalid (Invalid (TypeErr exact) x self).
  Proof. intros Ex. unfold seq_body, gate. rewrite Ex. reflexivity. Qed.

  Lemma not_exact_set rec self item x :
    exact_type x TSet = false ->
    set_body E rec self item [] [] None Sync x = OInvalid (Invalid (TypeErr TSet) x self).
  Proof. intros Ex. unfold set_body, gate. rewrite Ex. reflexivity. Qed.

  Lemma not_exact_map rec self kv vv x :
    exact_type x TDict = false ->
    map_body E rec self kv vv [] [] None Sync x = OInvalid (Invalid (TypeErr TDict) x self).
  Proof. intros Ex. unfold map_body, gate. rewrite Ex. reflexivity. Qed.

  Lemma not_exact_ntuple rec self fields x :
    exact_type x TTuple = false ->
    ntuple_body E rec self fields None None Sync x = OInvalid (Invalid (TypeErr TTuple) x self).
  Proof. intros Ex. unfold ntuple_body, gate. rewrite Ex. reflexivity. Qed.

  Lemma always_normal n x : 0 < n -> run E Sync n AlwaysValid x = OValid x.
  Proof. destruct n; [lia|]. reflexivity. Qed.

  Lemma forallb_Forall {A} (p : A -> bool) l : forallb p l = true -> Forall (fun x => p x = true) l.
  Proof. intros H. rewrite Forall_forall. apply forallb_forall. exact H. Qed.

  (* children of one annotation: normal, identical when typed, hashable when valid *)
  Lemma children_complete a v n xs :
    complete_at a -> cplain E a = true -> derive true a = Ok v -> aheight a < n ->
    forallb (hproper E) xs = true ->
    Forall (fun xi => normal (run E Sync n v xi) = true) xs /\
    (forallb (has_type a) xs = true -> Forall (fun xi => run E Sync n v xi = OValid xi) xs) /\
    (forallb (hashable hb) xs = true ->
     Forall (fun xi => forall w, run E Sync n v xi = OValid w -> hashable hb w = true) xs).
  Proof.
    intros IH Hc Hd Hn Hp. repeat split.
    - rewrite Forall_forall. intros xi Hin. rewrite forallb_forall in Hp. apply (IH Hc v Hd n xi Hn (Hp xi Hin)).
    - intros Ht. rewrite Forall_forall. intros xi Hin. rewrite forallb_forall in Hp, Ht.
      apply (IH Hc v Hd n xi Hn (Hp xi Hin)). apply Ht; exact Hin.
    - intros Hh. rewrite Forall_forall. intros xi Hin w Hr. rewrite forallb_forall in Hp, Hh.
      rewrite (valid_is_input a v n xi w Hc Hd (Hp xi Hin) Hr). apply Hh; exact Hin.
  Qed.

  Lemma lit_eq_ok v x : lit_member v = true -> exact_type x (type_of v) = true -> py_eq_p x v = Ok (py_eq x v).
  Proof. destruct v; try discriminate; intros _; destruct x; cbn; try discriminate; reflexivity. Qed.

  Lemma run_S m n v x : run E m (S n) v x = step E m (run E m n) v x.
  Proof. reflexivity. Qed.

  Lemma literal_complete vs vd n x :
    forallb lit_member vs = true -> derive true (ALiteral vs) = Ok vd -> 1 < n ->
    normal (run E Sync n vd x) = true /\ (has_type (ALiteral vs) x = true -> run E Sync n vd x = OValid x).
  Proof.
    intros Hl Hd Hn. destruct n as [|[|n]]; try lia. cbn [derive] in Hd.
    destruct vs as [|l0 ls]; [discriminate|].
    destruct (literal_kind (l0 :: ls)) as [k|] eqn:Ek.
    - injection Hd as <-. cbn [run step]. unfold scalar_body, gate. cbn [mode_eqb nonempty andb].
      unfold literal_kind in Ek.
      destruct (forallb (fun w0 => pytype_eqb (type_of w0) (type_of l0)) ls) eqn:Eall; [|discriminate].
      assert (Hty : forall l1, In l1 (l0 :: ls) -> type_of l1 = type_of l0).
      { intros l1 [<-|Hin]; [reflexivity|]. rewrite forallb_forall in Eall. apply pytype_eqb_eq. apply Eall; exact Hin. }
      assert (Hk : ktype k = type_of l0) by (destruct (type_of l0); try discriminate; injection Ek as <-; reflexivity).
      destruct (exact_type x (ktype k)) eqn:Ex.
      + cbn [procs_apply].
        assert (Hpe : pred_eval E (PChoices (l0 :: ls)) x = Ok (py_in x (l0 :: ls))).
        { rewrite Hk in Ex. clear - Ex Ek. unfold exact_type in Ex. apply pytype_eqb_eq in Ex.
          destruct x; cbn [type_of] in Ex; rewrite <- Ex in Ek; try discriminate; reflexivity. }
        unfold all_failing. cbn [failing_preds]. rewrite Hpe. cbn [pbind].
        destruct (py_in x (l0 :: ls)) eqn:Ein; cbn [pbind]; (split; [reflexivity|]); [reflexivity|].
        cbn [has_type]. intros Ht. apply existsb_exists in Ht. destruct Ht as [l1 [Hl1 Ht]]. unfold typed_lit in Ht.
        apply andb_prop in Ht. destruct Ht as [_ Heq]. exfalso.
        assert (Hin : py_in x (l0 :: ls) = true) by (unfold py_in; apply existsb_exists; exists l1; split; assumption). congruence.
      + split; [reflexivity|]. cbn [has_type]. intros Ht. apply existsb_exists in Ht. destruct Ht as [l1 [Hl1 Ht]]. unfold typed_lit in Ht.
        apply andb_prop in Ht. destruct Ht as [Hty1 _]. apply pytype_eqb_eq in Hty1. exfalso.
        unfold exact_type in Ex. rewrite Hk, <- (Hty l1 Hl1), Hty1 in Ex.
        assert (Hr : pytype_eqb (type_of x) (type_of x) = true) by (apply pytype_eqb_eq; reflexivity). congruence.
    - destruct (all_none (l0 :: ls)) eqn:En.
      + injection Hd as <-. cbn [run step]. unfold none_body.
        destruct x; (split; [reflexivity|]); try reflexivity; cbn [has_type]; intros Ht; exfalso;
          apply existsb_exists in Ht; destruct Ht as [l1 [Hl1 Ht]]; unfold typed_lit in Ht;
          apply andb_prop in Ht; destruct Ht as [Hty1 _];
          unfold all_none in En; rewrite forallb_forall in En; specialize (En l1 Hl1); destruct l1; try discriminate.
      + injection Hd as <-. rewrite run_S. cbn [step].
        assert (Hnorm : Forall (fun v => normal (run E Sync (S n) v x) = true) (map (fun v => EqualsV v []) (l0 :: ls))).
        { rewrite Forall_map. rewrite Forall_forall. intros l1 Hl1. rewrite run_S. cbn [step]. unfold equals_body.
          destruct (exact_type x (type_of l1)) eqn:Ex; [|reflexivity]. cbn [procs_apply].
          rewrite forallb_forall in Hl. rewrite (lit_eq_ok l1 x (Hl l1 Hl1) Ex). destruct (py_eq x l1); reflexivity. }
        destruct (union_complete (run E Sync (S n)) (UnionV (map (fun v => EqualsV v []) (l0 :: ls))) _ x Hnorm) as [H1 H2].
        change (EqualsV l0 [] :: map (fun v : pyval => EqualsV v []) ls) with (map (fun v : pyval => EqualsV v []) (l0 :: ls)).
        split; [exact H1|]. cbn [has_type]. intros Ht. apply existsb_exists in Ht. destruct Ht as [l1 [Hl1 Ht]]. unfold typed_lit in Ht.
        apply andb_prop in Ht. destruct Ht as [Hty1 Heq]. apply pytype_eqb_eq in Hty1.
        assert (Hacc : run E Sync (S n) (EqualsV l1 []) x = OValid x).
        { rewrite run_S. cbn [step]. apply equals_accept. split; [unfold exact_type; rewrite Hty1; apply pytype_eqb_eq; reflexivity|].
          split; [reflexivity|]. rewrite forallb_forall in Hl. rewrite (lit_eq_ok l1 x (Hl l1 Hl1)); [rewrite Heq; reflexivity|].
          unfold exact_type. rewrite Hty1. apply pytype_eqb_eq. reflexivity. }
        destruct (H2 (EqualsV l1 []) (in_map _ _ _ Hl1) x Hacc) as [v' [w' [Hin' [Hr' Hu]]]]. rewrite Hu. f_equal.
        apply in_map_iff in Hin'. destruct Hin' as [l2 [<- _]]. rewrite run_S in Hr'. cbn [step] in Hr'. apply equals_accept in Hr'.
        destruct Hr' as [_ [Hpr _]]. cbn [procs_apply] in Hpr. injection Hpr as <-. reflexivity.
  Qed.

  (* ---------- dataclasses / NamedTuples in signature mode: only instances get through ---------- *)

  Lemma construct_same c (fs : list (pyval * pyval)) :
    map fst fs = map fst (cfields E c) ->
    (forall k v, In (k, v) fs -> dict_get fs k = Some v) ->
    construct E c fs = VObj c fs.
  Proof.
    intros Hnames Hget. unfold construct. f_equal.
    revert Hnames. generalize (cfields E c). intros cf. revert Hget.
    assert (G : forall fs0 cf0, map fst fs0 = map fst cf0 -> (forall k v, In (k, v) fs0 -> dict_get fs k = Some v) ->
                map (fun fd : pyval * option pyval =>
                       (fst fd, match dict_get fs (fst fd) with Some v => v | None => match snd fd with Some d => d | None => VNone end end)) cf0 = fs0).
    { induction fs0 as [|[k v] fs0 IH]; intros [|fd cf0] Hn Hg; try discriminate; [reflexivity|].
      cbn [map fst] in Hn. injection Hn as Hk Hr. cbn [map]. rewrite <- Hk, (Hg k v (or_introl eq_refl)).
      f_equal. apply IH; [exact Hr | intros k0 v0 Hin; apply Hg; right; exact Hin]. }
    intros Hget Hn. apply G; assumption.
  Qed.

  Lemma record_complete rk c fields :
    Forall (fun f => complete_at (fst (snd f))) fields -> complete_at (ARecord rk c fields).
  Proof.
    intros HI. unfold complete_at. intros Hc vd Hd fuel x Hfuel Hp.
    destruct fuel as [|n]; [exfalso; exact (Nat.nlt_0_r _ Hfuel)|]. rewrite run_S.
    cbn [cplain] in Hc. apply andb_prop in Hc. destruct Hc as [Hc Hcf]. apply andb_prop in Hc. destruct Hc as [Hrk Hok].
    destruct (derive_record true rk c fields vd Hd) as [schema [-> [Hnames [Hreqs HF]]]]. cbn [step].
    assert (Hrk' : rk <> RkTyped) by (destruct rk; try discriminate; congruence).
    unfold node_ok in Hok. apply andb_prop in Hok. destruct Hok as [Hok Hcls]. apply andb_prop in Hok. destruct Hok as [Hstr Hnd].
    assert (Hcn : map fst (cfields E c) = map fst fields).
    { destruct rk; try congruence; apply andb_prop in Hcls; destruct Hcls as [Hn _];
        apply (list_eqb_sound pyval_eqb) in Hn; auto; intros; apply pyval_eqb_sound; assumption. }
    clear Hcls.
    assert (Hh : forall f, In f fields -> aheight (fst (snd f)) < n).
    { intros f Hin. cbn [aheight] in Hfuel.
      assert (aheight (fst (snd f)) <= fold_right (fun f0 acc => Nat.max (aheight (fst (snd f0))) acc) 0 fields).
      { clear - Hin. induction fields as [|g fields IH]; [destruct Hin|]. cbn [fold_right]. destruct Hin as [->|Hin]; [lia|]. specialize (IH Hin). lia. }
      lia. }
    unfold class_body. cbn [mode_eqb has_some andb].
    (* the gate: only an instance of exactly this class gets through *)
    assert (Hgate : forall y, class_gate E rk c (record_co true rk c) x = inr y -> exists fs, x = VObj c fs /\ y = VDict fs).
    { intros y. unfold class_gate. destruct rk; try congruence; cbn [record_co coerce_apply];
        (destruct x; try discriminate; destruct (Nat.eqb c c0) eqn:Ec; try discriminate; apply Nat.eqb_eq in Ec; subst c0;
         intros Hy; injection Hy as <-; eexists; split; reflexivity). }
    destruct (class_gate E rk c (record_co true rk c) x) as [e|y] eqn:Eg.
    { split; [reflexivity|]. cbn [has_type]. intros Ht. exfalso.
      destruct rk; try congruence; (destruct x; try discriminate; apply andb_prop in Ht; destruct Ht as [Hcc _]; apply Nat.eqb_eq in Hcc; subst c0;
        unfold class_gate in Eg; cbn [record_co coerce_apply] in Eg; rewrite Nat.eqb_refl in Eg; discriminate). }
    destruct (Hgate y eq_refl) as [fs [-> ->]]. cbn [as_dict unsub andb]. rewrite keys_loop_ref.
    cbn [hproper] in Hp. apply andb_prop in Hp. destruct Hp as [Hfn Hpv].
    apply (list_eqb_sound pyval_eqb) in Hfn; [|intros; apply pyval_eqb_sound; assumption].
    (* every declared key: its value, when present, gets a normal answer *)
    assert (Hpn : present_normal (run E Sync n) schema fs).
    { unfold present_normal. clear - HF HI Hcf Hh Hpv.
      induction HF as [|e s fields schema Hes HF IH]; [constructor|].
      inversion HI as [|? ? HIe HIr]; subst. cbn [forallb] in Hcf. apply andb_prop in Hcf. destruct Hcf as [Hce Hcr].
      constructor; [|apply IH; auto; intros f Hin; apply Hh; right; exact Hin].
      destruct (dict_get fs (fst s)) as [xv|] eqn:Egx; [|exact I].
      destruct (dict_get_in _ _ _ Egx) as [k' [Hin _]].
      assert (Hpx : hproper E xv = true) by (rewrite forallb_forall in Hpv; apply (Hpv (k', xv) Hin)).
      apply (HIe Hce (fst (snd s)) Hes n xv (Hh e (or_introl eq_refl)) Hpx). }
    rewrite (keys_ref_complete _ _ _ _ _ _ Hpn).
    split.
    { destruct (key_errs_of _ _ _ _ _); [|reflexivity]. unfold obj_stage. destruct rk; reflexivity. }
    (* typed instance: every declared key is present with a typed value and comes back unchanged *)
    cbn [has_type]. intros Ht.
    assert (Ht' : (fix go (fields : list (pyval * (ann * bool))) (fs : list (pyval * pyval)) : bool :=
                     match fields, fs with
                     | [], [] => true
                     | (k, (a1, _)) :: fr, (k', v) :: kr => pyval_eqb k k' && has_type a1 v && go fr kr
                     | _, _ => false
                     end) fields fs = true).
    { destruct rk; try congruence; apply andb_prop in Ht; destruct Ht as [_ Ht]; exact Ht. }
    clear Ht.
    assert (Hfs_str : forallb (fun kv : pyval * pyval => is_vstr (fst kv)) fs = true).
    { rewrite <- (forallb_map' fst is_vstr fs). rewrite Hfn, Hcn, forallb_map'. exact Hstr. }
    assert (Hfs_nd : names_nodup (map fst fs) = true) by (rewrite Hfn, Hcn; exact Hnd).
    assert (Hget : forall k v, In (k, v) fs -> dict_get fs k = Some v).
    { intros k v Hin. apply dict_get_unique; assumption. }
    assert (Hall : forall fl sl gl,
               Forall2 (fun e s => derive true (fst (snd e)) = Ok (fst (snd s))) fl sl ->
               map fst sl = map fst fl ->
               (forall f, In f fl -> In f fields) -> (forall g, In g gl -> In g fs) ->
               (fix go (fields : list (pyval * (ann * bool))) (fs : list (pyval * pyval)) : bool :=
                  match fields, fs with
                  | [], [] => true
                  | (k, (a1, _)) :: fr, (k', v) :: kr => pyval_eqb k k' && has_type a1 v && go fr kr
                  | _, _ => false
                  end) fl gl = true ->
               key_payload_of (run E Sync n) AbsOmit sl fs = gl /\
               key_errs_of (run E Sync n) (ClassV rk c schema None None false (record_co true rk c)) sl fs (VDict fs) = []).
    { intros fl sl gl HF2. revert gl. induction HF2 as [|e s fl sl Hes HF2 IH]; intros gl Hn Hsub Hgs Hgo.
      - destruct gl; [split; reflexivity | discriminate].
      - destruct e as [k [a r]]. destruct gl as [|[k' v] gl]; [discriminate|].
        apply andb_prop in Hgo. destruct Hgo as [Hgo Hgr]. apply andb_prop in Hgo. destruct Hgo as [Hk Hta].
        apply pyval_eqb_sound in Hk. subst k'. destruct s as [ks [vs rs]]. cbn [map fst] in Hn. injection Hn as Hks Hnr. subst ks.
        cbn [fst snd] in Hes.
        destruct (IH gl Hnr (fun f Hin => Hsub f (or_intror Hin)) (fun g Hin => Hgs g (or_intror Hin)) Hgr) as [I1 I2].
        cbn [key_payload_of key_errs_of]. cbv zeta. rewrite (Hget k v (Hgs _ (or_introl eq_refl))).
        assert (Hin_f : In (k, (a, r)) fields) by (apply Hsub; left; reflexivity).
        assert (Hpx : hproper E v = true) by (rewrite forallb_forall in Hpv; apply (Hpv (k, v) (Hgs _ (or_introl eq_refl)))).
        rewrite Forall_forall in HI. rewrite forallb_forall in Hcf.
        destruct (HI _ Hin_f (Hcf _ Hin_f) vs Hes n v (Hh _ Hin_f) Hpx) as [_ Cv]. cbn [fst snd] in Cv.
        rewrite (Cv Hta), I1, I2. split; reflexivity. }
    destruct (Hall fields schema fs HF Hnames (fun f H => H) (fun g H => H) Ht') as [Hpay Herr].
    rewrite Herr, Hpay. unfold obj_stage.
    rewrite (construct_same c fs); [destruct rk; try congruence; reflexivity | rewrite Hfn; reflexivity | exact Hget].
  Qed.

  Theorem derive_complete : forall a, complete_at a.
  Proof.
    induction a using ann_ind'; unfold complete_at; intros Hc vd Hd fuel x Hfuel Hp;
      (destruct fuel as [|n]; [exfalso; exact (Nat.nlt_0_r _ Hfuel)|]); cbn [run]; cbn [derive] in Hd.
    - (* AScalar *)
      destruct k; try discriminate; injection Hd as <-; cbn [step]; unfold scalar_body, gate, default_co;
        cbn [mode_eqb nonempty andb ktype];
        destruct x; cbn [exact_type type_of pytype_eqb has_type]; (split; [reflexivity | intros Ht; try discriminate; reflexivity]).
    - (* ANone *) injection Hd as <-. cbn [step]. unfold none_body. destruct x; cbn [has_type]; (split; [reflexivity | intros Ht; try discriminate; reflexivity]).
    - (* AAny *) injection Hd as <-. cbn [step]. split; reflexivity.
    - (* ANakedList *) injection Hd as <-. cbn [step]. unfold list_body. cbn [aheight] in Hfuel.
      destruct x; try (rewrite not_exact_seq by reflexivity; split; [reflexivity | intros Ht; discriminate]).
      assert (Hn : Forall (fun xi => normal (run E Sync n AlwaysValid xi) = true) xs).
      { rewrite Forall_forall. intros xi _. rewrite always_normal by lia. reflexivity. }
      destruct (seq_complete TList TList VList (run E Sync n) (ListV AlwaysValid [] [] None) AlwaysValid (VList xs) xs eq_refl eq_refl Hn) as [H1 H2].
      split; [exact H1|]. intros _. apply H2. rewrite Forall_forall. intros xi _. apply always_normal; lia.
    - (* ANakedSet *) injection Hd as <-. cbn [step]. cbn [aheight] in Hfuel.
      destruct x; try (rewrite not_exact_set by reflexivity; split; [reflexivity | intros Ht; discriminate]).
      cbn [hproper] in Hp. apply andb_prop in Hp. destruct Hp as [Hp Hdist]. apply andb_prop in Hp. destruct Hp as [Hp Hh].
      assert (Hn : Forall (fun xi => normal (run E Sync n AlwaysValid xi) = true) xs).
      { rewrite Forall_forall. intros xi _. rewrite always_normal by lia. reflexivity. }
      assert (Hhw : Forall (fun xi => forall w, run E Sync n AlwaysValid xi = OValid w -> hashable hb w = true) xs).
      { rewrite Forall_forall. intros xi Hin w Hr. rewrite always_normal in Hr by lia. injection Hr as <-.
        rewrite forallb_forall in Hh. apply Hh; exact Hin. }
      destruct (set_complete (run E Sync n) (SetV AlwaysValid [] [] None) AlwaysValid xs Hn Hhw) as [H1 H2].
      split; [exact H1|]. intros _. apply H2; [|apply forallb_Forall; exact Hh | exact Hdist].
      rewrite Forall_forall. intros xi _. apply always_normal; lia.
    - (* ANakedTuple *) injection Hd as <-. cbn [step tuple_co]. unfold utuple_body. cbn [aheight] in Hfuel.
      destruct x; try (rewrite not_exact_seq by reflexivity; split; [reflexivity | intros Ht; discriminate]).
      assert (Hn : Forall (fun xi => normal (run E Sync n AlwaysValid xi) = true) xs).
      { rewrite Forall_forall. intros xi _. rewrite always_normal by lia. reflexivity. }
      destruct (seq_complete TTuple TList VTuple (run E Sync n) (UTupleV AlwaysValid [] [] None) AlwaysValid (VTuple xs) xs eq_refl eq_refl Hn) as [H1 H2].
      split; [exact H1|]. intros _. apply H2. rewrite Forall_forall. intros xi _. apply always_normal; lia.
    - (* ANakedDict *) injection Hd as <-. cbn [step]. cbn [aheight] in Hfuel.
      destruct x; try (rewrite not_exact_map by reflexivity; split; [reflexivity | intros Ht; discriminate]).
      cbn [hproper] in Hp. apply andb_prop in Hp. destruct Hp as [Hp Hdist]. apply andb_prop in Hp. destruct Hp as [Hp Hh].
      assert (Hn : Forall (fun p => normal (run E Sync n AlwaysValid (fst p)) = true /\ normal (run E Sync n AlwaysValid (snd p)) = true /\
                                     (forall w, run E Sync n AlwaysValid (fst p) = OValid w -> hashable hb w = true)) kvs).
      { rewrite Forall_forall. intros p Hin. rewrite !always_normal by lia. repeat split.
        intros w Hr. injection Hr as <-. rewrite forallb_forall in Hh. apply (Hh p Hin). }
      destruct (map_complete (run E Sync n) (MapV AlwaysValid AlwaysValid [] [] None) AlwaysValid AlwaysValid kvs Hn) as [H1 H2].
      split; [exact H1|]. intros _. apply H2; [|apply forallb_Forall; exact Hh | exact Hdist].
      rewrite Forall_forall. intros p _. rewrite !always_normal by lia. split; reflexivity.
    - (* AList *) cbn [cplain] in Hc. cbn [aheight] in Hfuel.
      destruct (derive true a) as [v'|e] eqn:Ea; cbn [pbind] in Hd; [|discriminate]. injection Hd as <-. cbn [step]. unfold list_body.
      destruct x; try (rewrite not_exact_seq by reflexivity; split; [reflexivity | intros Ht; discriminate]).
      cbn [hproper] in Hp.
      destruct (children_complete a v' n xs IHa Hc Ea ltac:(lia) Hp) as [Hn [Hv _]].
      destruct (seq_complete TList TList VList (run E Sync n) (ListV v' [] [] None) v' (VList xs) xs eq_refl eq_refl Hn) as [H1 H2].
      split; [exact H1|]. cbn [has_type]. intros Ht. apply H2. apply Hv. exact Ht.
    - (* ASet *) cbn [cplain] in Hc. cbn [aheight] in Hfuel.
      destruct (derive true a) as [v'|e] eqn:Ea; cbn [pbind] in Hd; [|discriminate]. injection Hd as <-. cbn [step].
      destruct x; try (rewrite not_exact_set by reflexivity; split; [reflexivity | intros Ht; discriminate]).
      cbn [hproper] in Hp. apply andb_prop in Hp. destruct Hp as [Hp Hdist]. apply andb_prop in Hp. destruct Hp as [Hp Hh].
      destruct (children_complete a v' n xs IHa Hc Ea ltac:(lia) Hp) as [Hn [Hv Hhw]].
      destruct (set_complete (run E Sync n) (SetV v' [] [] None) v' xs Hn (Hhw Hh)) as [H1 H2].
      split; [exact H1|]. cbn [has_type]. intros Ht. apply H2; [apply Hv; exact Ht | apply forallb_Forall; exact Hh | exact Hdist].
    - (* ADict *) cbn [cplain] in Hc. apply andb_prop in Hc. destruct Hc as [Hck Hcv]. cbn [aheight] in Hfuel.
      destruct (derive true a1) as [kv|e] eqn:Ek; cbn [pbind] in Hd; [|discriminate].
      destruct (derive true a2) as [vv|e] eqn:Ev; cbn [pbind] in Hd; [|discriminate]. injection Hd as <-. cbn [step].
      destruct x; try (rewrite not_exact_map by reflexivity; split; [reflexivity | intros Ht; discriminate]).
      cbn [hproper] in Hp. apply andb_prop in Hp. destruct Hp as [Hp Hdist]. apply andb_prop in Hp. destruct Hp as [Hp Hh].
      assert (Hn : Forall (fun p => normal (run E Sync n kv (fst p)) = true /\ normal (run E Sync n vv (snd p)) = true /\
                                     (forall w, run E Sync n kv (fst p) = OValid w -> hashable hb w = true)) kvs).
      { rewrite Forall_forall. intros p Hin. rewrite forallb_forall in Hp, Hh. specialize (Hp p Hin). apply andb_prop in Hp. destruct Hp as [Hpk Hpv].
        split; [apply (IHa1 Hck kv Ek n (fst p) ltac:(lia) Hpk)|]. split; [apply (IHa2 Hcv vv Ev n (snd p) ltac:(lia) Hpv)|].
        intros w Hr. rewrite (valid_is_input a1 kv n (fst p) w Hck Ek Hpk Hr). apply (Hh p Hin). }
      destruct (map_complete (run E Sync n) (MapV kv vv [] [] None) kv vv kvs Hn) as [H1 H2].
      split; [exact H1|]. cbn [has_type]. intros Ht. apply H2; [|apply forallb_Forall; exact Hh | exact Hdist].
      rewrite Forall_forall. intros p Hin. rewrite forallb_forall in Hp, Ht. specialize (Hp p Hin). specialize (Ht p Hin).
      apply andb_prop in Hp. destruct Hp as [Hpk Hpv]. apply andb_prop in Ht. destruct Ht as [Htk Htv].
      split; [apply (IHa1 Hck kv Ek n (fst p) ltac:(lia) Hpk); exact Htk | apply (IHa2 Hcv vv Ev n (snd p) ltac:(lia) Hpv); exact Htv].
    - (* ATupleU *) cbn [cplain] in Hc. cbn [aheight] in Hfuel.
      destruct (derive true a) as [v'|e] eqn:Ea; cbn [pbind] in Hd; [|discriminate]. injection Hd as <-. cbn [step tuple_co]. unfold utuple_body.
      destruct x; try (rewrite not_exact_seq by reflexivity; split; [reflexivity | intros Ht; discriminate]).
      cbn [hproper] in Hp.
      destruct (children_complete a v' n xs IHa Hc Ea ltac:(lia) Hp) as [Hn [Hv _]].
      destruct (seq_complete TTuple TList VTuple (run E Sync n) (UTupleV v' [] [] None) v' (VTuple xs) xs eq_refl eq_refl Hn) as [H1 H2].
      split; [exact H1|]. cbn [has_type]. intros Ht. apply H2. apply Hv. exact Ht.
    - (* ATupleN *)
      change (pbind (many_of (derive true) l) (fun vs => Ok (NTupleV vs None (tuple_co true))) = Ok vd) in Hd.
      destruct (many_of (derive true) l) as [vs|e] eqn:El; cbn [pbind] in Hd; [|discriminate].
      injection Hd as <-. cbn [step tuple_co]. apply many_of_Forall2 in El. cbn [cplain aheight] in Hc, Hfuel.
      destruct x; try (rewrite not_exact_ntuple by reflexivity; split; [reflexivity | intros Ht; discriminate]).
      cbn [hproper] in Hp.
      assert (Hall : Forall (fun c => normal (callr (run E Sync n) c) = true) (combine vs xs) /\
                     ((fix go (l : list ann) (xs : list pyval) : bool :=
                         match l, xs with
                         | [], [] => true
                         | a1 :: lr, x1 :: xr => has_type a1 x1 && go lr xr
                         | _, _ => false
                         end) l xs = true ->
                      length xs = length vs /\ Forall (fun c => callr (run E Sync n) c = OValid (snd c)) (combine vs xs))).
      { assert (Hh : forall a, In a l -> aheight a < n) by (intros a0 Hin; pose proof (lmax_in l a0 Hin); lia).
        clear Hfuel. revert xs Hp. induction El as [|a v0 l vs0 Ha El' IHl]; intros xs Hp.
        - split; [constructor|]. destruct xs; [|discriminate]. intros _. split; [reflexivity | constructor].
        - destruct xs as [|x0 xs]; [split; [constructor | discriminate]|].
          cbn [forallb] in Hp, Hc. apply andb_prop in Hp. destruct Hp as [Hp0 Hps]. apply andb_prop in Hc. destruct Hc as [Hc0 Hcs].
          inversion H as [|? ? HIa HIl]; subst.
          destruct (IHl HIl Hcs (fun a0 Hin => Hh a0 (or_intror Hin)) xs Hps) as [I1 I2].
          destruct (HIa Hc0 v0 Ha n x0 (Hh a (or_introl eq_refl)) Hp0) as [N0 C0].
          cbn [combine]. split; [constructor; [exact N0 | exact I1]|].
          intros Hgo. apply andb_prop in Hgo. destruct Hgo as [T0 Tr]. destruct (I2 Tr) as [L1 L2].
          split; [cbn [length]; rewrite L1; reflexivity|]. constructor; [unfold callr; cbn [fst snd]; apply C0; exact T0 | exact L2]. }
      destruct Hall as [Hn Hv].
      destruct (ntuple_complete (run E Sync n) (NTupleV vs None None) vs xs Hn) as [H1 H2].
      split; [exact H1|]. cbn [has_type]. intros Ht. destruct (Hv Ht) as [L1 L2]. apply H2; assumption.
    - (* AUnion *)
      destruct l as [|a0 l0]; [discriminate|].
      change (pbind (many_of (derive true) (a0 :: l0)) (fun vs => Ok (UnionV vs)) = Ok vd) in Hd.
      destruct (many_of (derive true) (a0 :: l0)) as [vs|e] eqn:El; cbn [pbind] in Hd; [|discriminate].
      injection Hd as <-. cbn [step]. apply many_of_Forall2 in El. cbn [cplain] in Hc.
      assert (Hh : forall a, In a (a0 :: l0) -> aheight a < n).
      { intros a1 Hin. pose proof (lmax_in (a0 :: l0) a1 Hin). cbn [aheight] in Hfuel. lia. }
      clear Hfuel. revert Hh Hc H El. generalize (a0 :: l0). intros l Hh Hc HI El.
      assert (Hn : Forall (fun v => normal (run E Sync n v x) = true) vs).
      { clear - El HI Hh Hc Hp. induction El as [|a v0 l vs0 Ha El' IHl]; [constructor|].
        cbn [forallb] in Hc. apply andb_prop in Hc. destruct Hc as [Hc0 Hcs]. inversion HI as [|? ? HIa HIl]; subst.
        constructor; [apply (HIa Hc0 v0 Ha n x (Hh a (or_introl eq_refl)) Hp) | apply IHl; auto; intros a1 Hin; apply Hh; right; exact Hin]. }
      destruct (union_complete (run E Sync n) (UnionV vs) vs x Hn) as [H1 H2].
      split; [exact H1|]. cbn [has_type]. intros Ht. apply existsb_exists in Ht. destruct Ht as [a1 [Hin1 Ht1]].
      (* the variant derived from a1 accepts x; the first accepting variant returns x too *)
      assert (Hv1 : exists v1, In v1 vs /\ run E Sync n v1 x = OValid x).
      { clear - El HI Hh Hc Hp Hin1 Ht1. induction El as [|a v0 l vs0 Ha El' IHl]; [destruct Hin1|].
        cbn [forallb] in Hc. apply andb_prop in Hc. destruct Hc as [Hc0 Hcs]. inversion HI as [|? ? HIa HIl]; subst.
        destruct Hin1 as [->|Hin1].
        - exists v0. split; [left; reflexivity|]. apply (HIa Hc0 v0 Ha n x (Hh a1 (or_introl eq_refl)) Hp). exact Ht1.
        - destruct (IHl (fun a2 Hin => Hh a2 (or_intror Hin)) Hcs HIl Hin1) as [v1 [Hv1 Hr1]]. exists v1. split; [right; exact Hv1 | exact Hr1]. }
      destruct Hv1 as [v1 [Hv1 Hr1]].
      destruct (H2 v1 Hv1 x Hr1) as [v' [w' [Hin' [Hr' Hu]]]]. rewrite Hu. f_equal.
      (* v' is derived from some annotation of the union: its valid payload is its input *)
      clear - El Hc Hp Hin' Hr'. induction El as [|a v0 l vs0 Ha El' IHl]; [destruct Hin'|].
      cbn [forallb] in Hc. apply andb_prop in Hc. destruct Hc as [Hc0 Hcs].
      destruct Hin' as [<-|Hin']; [apply (valid_is_input a v0 n x w' Hc0 Ha Hp Hr') | apply IHl; assumption].
    - (* AMaybe *) cbn [cplain] in Hc. cbn [aheight] in Hfuel.
      destruct (derive true a) as [v'|e] eqn:Ea; cbn [pbind] in Hd; [|discriminate]. injection Hd as <-. cbn [step]. rewrite maybe_spec.
      destruct x; cbn [has_type]; try (split; [reflexivity | intros Ht; try discriminate; reflexivity]).
      cbn [hproper] in Hp. destruct (IHa Hc v' Ea n x ltac:(lia) Hp) as [N C].
      split.
      + destruct (run E Sync n v' x); try discriminate; reflexivity.
      + intros Ht. rewrite (C Ht). reflexivity.
    - (* ALiteral *) cbn [cplain aheight] in Hc, Hfuel. apply (literal_complete vs vd (S n) x Hc Hd); lia.
    - (* AAnnotated *) destruct v as [v0|]; discriminate.
    - (* AQual *) cbn [cplain aheight has_type] in *. apply (IHa Hc vd Hd (S n) x Hfuel Hp).
    - (* ARecord *) apply (record_complete rk c fields H Hc vd Hd (S n) x Hfuel Hp).
    - (* AClass *) injection Hd as <-. cbn [step]. unfold scalar_body, gate. cbn [mode_eqb nonempty andb ktype has_type].
      unfold exact_type. destruct (pytype_eqb (type_of x) (TClass c)); (split; [reflexivity | intros Ht; try discriminate; reflexivity]).
  Qed.
End Complete.
