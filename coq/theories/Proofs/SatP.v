(* C11: on the JSON-native fragment the generated schema accepts exactly what the validator
   accepts. [sat] (Model/SchemaSat.v) evaluates the model schema; [run] is the validator. *)
From Coq Require Import ZArith List Bool String Lia QArith Btauto.
From KV Require Import Base.PyVal Base.Prims Model.Validator Model.Sem Model.Schema Model.SchemaWf
     Model.SchemaSat Proofs.EqbSound Proofs.VInd Proofs.SchemaP Proofs.Scalar Proofs.Collections Proofs.Records Proofs.Wrappers.
Import ListNotations.
Open Scope Z_scope.

Arguments lit : simpl never.

Definition accepts (o : outcome) : bool := match o with OValid _ => true | _ => false end.

(* the outcome is a verdict (never an exception) and the verdict is [b] *)
Definition agree (b : bool) (o : outcome) : Prop :=
  if b then exists w, o = OValid w else exists i, o = OInvalid i.

Ltac kwd :=
  repeat match goal with
         | |- context [kwd_of ?k] =>
             let c := eval vm_compute in (kwd_of k) in change (kwd_of k) with c
         end.

Lemma forallb_ext' {A} (f g : A -> bool) l : (forall a, f a = g a) -> forallb f l = forallb g l.
Proof. intros H. induction l as [|x l IH]; cbn; [reflexivity|]. rewrite H, IH. reflexivity. Qed.

Lemma forallb_ext_in {A} (f g : A -> bool) l : (forall a, In a l -> f a = g a) -> forallb f l = forallb g l.
Proof.
  induction l as [|x l IH]; intros H; cbn; [reflexivity|].
  rewrite (H x (or_introl eq_refl)), IH; [reflexivity|]. intros a Ha. apply H. right; exact Ha.
Qed.

(* ---------- objects built by update ---------- *)

Lemma existsb_app_false {A} (f : A -> bool) l1 l2 :
  existsb f (l1 ++ l2) = false -> existsb f l1 = false /\ existsb f l2 = false.
Proof. rewrite existsb_app. apply orb_false_elim. Qed.

Lemma obj_set_fresh a k v :
  existsb (jstr_eqb k) (map fst a) = false -> obj_set a k v = a ++ [(k, v)].
Proof.
  induction a as [|[k' v'] a IH]; cbn [obj_set map fst existsb app]; intros H; [reflexivity|].
  apply orb_false_elim in H. destruct H as [H1 H2]. rewrite jstr_eqb_sym, H1. rewrite IH by exact H2. reflexivity.
Qed.

Lemma strs_unique_app_l a b : strs_unique (a ++ b) = true -> strs_unique a = true.
Proof.
  induction a as [|x a IH]; cbn [app strs_unique]; intros H; [reflexivity|].
  apply andb_prop in H. destruct H as [H1 H2]. rewrite IH by exact H2. rewrite andb_true_r.
  apply negb_true_iff. apply negb_true_iff in H1. apply existsb_app_false in H1. apply H1.
Qed.

Lemma strs_unique_mid a k b :
  strs_unique (a ++ k :: b) = true -> existsb (jstr_eqb k) a = false /\ strs_unique (a ++ b) = true
                                      /\ existsb (jstr_eqb k) b = false.
Proof.
  induction a as [|x a IH]; cbn [app strs_unique existsb]; intros H.
  - apply andb_prop in H. destruct H as [H1 H2]. apply negb_true_iff in H1. auto.
  - apply andb_prop in H. destruct H as [H1 H2]. apply negb_true_iff in H1. rewrite existsb_app in H1.
    cbn [existsb] in H1. apply orb_false_elim in H1. destruct H1 as [Ha Hb]. apply orb_false_elim in Hb. destruct Hb as [Hxk Hb].
    destruct (IH H2) as [I1 [I2 I3]]. repeat split.
    + rewrite jstr_eqb_sym, Hxk. exact I1.
    + rewrite I2, existsb_app, Ha, Hb. try reflexivity.
    + exact I3.
Qed.

Lemma obj_update_fresh b : forall a,
    strs_unique (map fst a ++ map fst b) = true -> obj_update a b = a ++ b.
Proof.
  unfold obj_update. induction b as [|[k v] b IH]; intros a H; cbn [fold_left fst snd map].
  - rewrite app_nil_r. reflexivity.
  - cbn [map fst] in H. destruct (strs_unique_mid _ _ _ H) as [H1 [H2 H3]].
    rewrite obj_set_fresh by exact H1. rewrite IH.
    + rewrite <- app_assoc. reflexivity.
    + rewrite map_app. cbn [map fst]. rewrite <- app_assoc. exact H.
Qed.

(* ---------- sorted choices ---------- *)

Lemma insert_sorted_mem (f : pyval -> bool) x : forall xs r,
    insert_sorted x xs = Ok r -> existsb f r = f x || existsb f xs.
Proof.
  induction xs as [|y ys IH]; cbn [insert_sorted]; intros r H.
  - injection H as <-. reflexivity.
  - destruct (py_lt x y) as [[|]|e]; try discriminate.
    + injection H as <-. reflexivity.
    + destruct (insert_sorted x ys) as [r'|e] eqn:E; cbn [pbind] in H; [|discriminate].
      injection H as <-. cbn [existsb]. rewrite (IH r' eq_refl).
      rewrite !orb_assoc. rewrite (orb_comm (f y)). reflexivity.
Qed.

Lemma py_sorted_mem (f : pyval -> bool) : forall xs r,
    py_sorted xs = Ok r -> existsb f r = existsb f xs.
Proof.
  induction xs as [|x xs IH]; cbn [py_sorted]; intros r H.
  - injection H as <-. reflexivity.
  - destruct (py_sorted xs) as [r'|e]; cbn [pbind] in H; [|discriminate].
    rewrite (insert_sorted_mem f x r' r H). cbn [existsb]. rewrite (IH r' eq_refl). reflexivity.
Qed.

Lemma insert_sorted_all (Q : pyval -> bool) x : forall xs r,
    insert_sorted x xs = Ok r -> Q x = true -> forallb Q xs = true -> forallb Q r = true.
Proof.
  induction xs as [|y ys IH]; cbn [insert_sorted]; intros r H Hx Hxs.
  - injection H as <-. cbn. rewrite Hx. reflexivity.
  - cbn [forallb] in Hxs. apply andb_prop in Hxs. destruct Hxs as [Hy Hys].
    destruct (py_lt x y) as [[|]|e]; try discriminate.
    + injection H as <-. cbn. rewrite Hx, Hy, Hys. reflexivity.
    + destruct (insert_sorted x ys) as [r'|e] eqn:E; cbn [pbind] in H; [|discriminate].
      injection H as <-. cbn. rewrite Hy. apply (IH r' eq_refl Hx Hys).
Qed.

Lemma py_sorted_all (Q : pyval -> bool) : forall xs r,
    py_sorted xs = Ok r -> forallb Q xs = true -> forallb Q r = true.
Proof.
  induction xs as [|x xs IH]; cbn [py_sorted]; intros r H Hq.
  - injection H as <-. reflexivity.
  - cbn [forallb] in Hq. apply andb_prop in Hq. destruct Hq as [Hx Hxs].
    destruct (py_sorted xs) as [r'|e]; cbn [pbind] in H; [|discriminate].
    apply (insert_sorted_all Q x r' r H Hx). apply IH; [reflexivity | exact Hxs].
Qed.

(* sorting succeeds when every two members can be ordered *)
Definition orderable (Q : pyval -> bool) : Prop :=
  forall a b, Q a = true -> Q b = true -> exists r, py_lt a b = Ok r.

Lemma insert_sorted_ok Q x : orderable Q -> forall xs,
    Q x = true -> forallb Q xs = true -> exists r, insert_sorted x xs = Ok r.
Proof.
  intros HO. induction xs as [|y ys IH]; cbn [insert_sorted forallb]; intros Hx Hxs; [eauto|].
  apply andb_prop in Hxs. destruct Hxs as [Hy Hys].
  destruct (HO x y Hx Hy) as [b ->]. destruct b; [eauto|].
  destruct (IH Hx Hys) as [r ->]. cbn. eauto.
Qed.

Lemma py_sorted_ok Q : orderable Q -> forall xs, forallb Q xs = true -> exists r, py_sorted xs = Ok r.
Proof.
  intros HO. induction xs as [|x xs IH]; cbn [py_sorted forallb]; intros H; [eauto|].
  apply andb_prop in H. destruct H as [Hx Hxs]. destruct (IH Hxs) as [r' E]. rewrite E. cbn [pbind].
  apply (insert_sorted_ok Q x HO r' Hx). apply (py_sorted_all Q xs r' E Hxs).
Qed.

(* ---------- the scalar fragment ---------- *)

Definition is_str (v : pyval) : bool := match v with VStr _ => true | _ => false end.

Definition jkind (k : scalar_kind) : bool :=
  match k with KStr | KInt | KFloat | KBool => true | _ => false end.

(* a JSON scalar of the kind's type *)
Definition of_kind (k : scalar_kind) (v : pyval) : bool :=
  match k, v with
  | KStr, VStr _ | KInt, VInt _ | KBool, VBool _ => true
  | KFloat, VFloat f => float_finite f
  | _, _ => false
  end.

Definition num_bound (v : pyval) : bool :=
  match v with VInt _ => true | VFloat f => float_finite f | _ => false end.

Definition pred_frag (k : scalar_kind) (p : predicate) : bool :=
  match p with
  | PMinLength _ | PMaxLength _ | PExactLength _ => match k with KStr => true | _ => false end
  | PStartsWith s | PEndsWith s => match k with KStr => is_str s | _ => false end
  | PMin b _ | PMax b _ => match k with KInt | KFloat => num_bound b | _ => false end
  | PEqualTo m => of_kind k m
  | PChoices cs => forallb (of_kind k) cs
  | _ => false
  end.

Lemma of_kind_orderable k : jkind k = true -> orderable (of_kind k).
Proof.
  intros Hk a b Ha Hb. destruct k; try discriminate; destruct a; try discriminate; destruct b; try discriminate;
    cbn in *; try (eexists; reflexivity);
    try (destruct f, f0; try discriminate; eexists; reflexivity).
Qed.

Lemma jv_eq_py_eq k x c : jkind k = true -> of_kind k x = true -> of_kind k c = true -> jv_eq x c = py_eq x c.
Proof.
  intros Hk Hx Hc. destruct k; try discriminate; destruct x; try discriminate; destruct c; try discriminate; cbn; try reflexivity.
  destruct b, b0; reflexivity.
Qed.

Section Frag.
  Variable E : env.
  Variable text_of : textkind -> pyval -> option jstring.
  Variable re_search : jstring -> list Z -> bool.
  Variable refsat : jstring -> pyval -> bool.
  (* the regex engine on the two literal pattern shapes the generator emits *)
  Hypothesis search_prefix : forall t s, re_search (94 :: re_escape t) s = is_prefix t s.
  Hypothesis search_suffix : forall t s, re_search (re_escape t ++ [36]) s = is_suffix t s.

  Notation sat := (sat re_search refsat).
  Notation esat := (entry_sat re_search refsat sat).

  Lemma choice_json_kind k c :
    jkind k = true -> of_kind k c = true ->
    exists j, choice_json text_of c = Ok j /\ json_val j = Some c.
  Proof.
    intros Hk Hc. destruct k; try discriminate; destruct c; try discriminate; cbn in *;
      try (eexists; split; reflexivity).
    rewrite Hc. eexists; split; reflexivity.
  Qed.

  Lemma pmap_choice_kind k x : jkind k = true -> forall s,
      forallb (of_kind k) s = true ->
      exists js, pmap (choice_json text_of) s = Ok js /\
                 existsb (fun j => jeq j x) js = existsb (jv_eq x) s.
  Proof.
    intros Hk. induction s as [|c s IH]; cbn [forallb pmap]; intros H; [eexists; split; reflexivity|].
    apply andb_prop in H. destruct H as [Hc Hs]. destruct (choice_json_kind k c Hk Hc) as [j [Ej Vj]].
    destruct (IH Hs) as [js [Ejs Hjs]]. rewrite Ej, Ejs. cbn [pbind]. eexists; split; [reflexivity|].
    cbn [existsb]. rewrite Hjs. unfold jeq at 1. rewrite Vj. reflexivity.
  Qed.

  Definition pred_entries (p : predicate) : list (jstring * json) :=
    match pred_schema text_of p with Ok d => d | Exn _ => [] end.

  Lemma num_cmp_ok ex a b : num_bound a = true -> num_bound b = true -> exists r, py_le_gen ex a b = Ok r.
  Proof.
    destruct a; try discriminate; destruct b; try discriminate; cbn; intros Ha Hb; try (eexists; reflexivity).
  Qed.

  Lemma of_kind_num k x : match k with KInt | KFloat => True | _ => False end -> of_kind k x = true ->
                          num_bound x = true /\ is_number x = true.
  Proof. destruct k; try contradiction; destruct x; try discriminate; cbn; auto. Qed.

  (* one predicate: the keywords it emits hold of x exactly when the predicate does *)
  Lemma pred_agree k p x d :
    jkind k = true -> pred_frag k p = true -> of_kind k x = true ->
    exists es b, pred_schema text_of p = Ok es /\ pred_eval E p x = Ok b /\ forallb (esat d x) es = b.
  Proof.
    intros Hk Hp Hx. destruct p; cbn [pred_frag] in Hp; try discriminate.
    - (* PMin *)
      assert (Hkn : match k with KInt | KFloat => True | _ => False end) by (destruct k; try discriminate; exact I).
      assert (Hb : num_bound m = true) by (destruct k; try discriminate; exact Hp).
      destruct (of_kind_num k x Hkn Hx) as [Hxb Hxn].
      destruct (num_cmp_ok excl m x Hb Hxb) as [r Er].
      destruct m; try discriminate; cbn [pred_schema bound_schema pred_eval].
      + eexists; exists r; split; [reflexivity|]. split; [exact Er|].
        cbn [forallb]. unfold entry_sat. destruct excl; kwd; unfold bound_sat; cbn [json_val is_number andb];
          rewrite Hxn; unfold num_le; rewrite Er; apply andb_true_r.
      + cbn in Hb. rewrite Hb. eexists; exists r; split; [reflexivity|]. split; [exact Er|].
        cbn [forallb]. unfold entry_sat. destruct excl; kwd; unfold bound_sat; cbn [json_val is_number andb];
          rewrite Hxn; unfold num_le; rewrite Er; apply andb_true_r.
    - (* PMax *)
      assert (Hkn : match k with KInt | KFloat => True | _ => False end) by (destruct k; try discriminate; exact I).
      assert (Hb : num_bound m = true) by (destruct k; try discriminate; exact Hp).
      destruct (of_kind_num k x Hkn Hx) as [Hxb Hxn].
      destruct (num_cmp_ok excl x m Hxb Hb) as [r Er].
      destruct m; try discriminate; cbn [pred_schema bound_schema pred_eval].
      + eexists; exists r; split; [reflexivity|]. split; [exact Er|].
        cbn [forallb]. unfold entry_sat. destruct excl; kwd; unfold bound_sat; cbn [json_val is_number andb];
          rewrite Hxn; unfold num_le; rewrite Er; apply andb_true_r.
      + cbn in Hb. rewrite Hb. eexists; exists r; split; [reflexivity|]. split; [exact Er|].
        cbn [forallb]. unfold entry_sat. destruct excl; kwd; unfold bound_sat; cbn [json_val is_number andb];
          rewrite Hxn; unfold num_le; rewrite Er; apply andb_true_r.
    - (* PChoices *)
      destruct (py_sorted_ok (of_kind k) (of_kind_orderable k Hk) cs Hp) as [s Es].
      pose proof (py_sorted_all (of_kind k) cs s Es Hp) as Hs.
      destruct (pmap_choice_kind k x Hk s Hs) as [js [Ejs Hjs]].
      cbn [pred_schema pred_eval]. rewrite Es. cbn [pbind]. rewrite Ejs. cbn [pbind].
      eexists; exists (py_in x cs); split; [reflexivity|]. split.
      + destruct k; try discriminate; destruct x; try discriminate; reflexivity.
      + cbn [forallb]. unfold entry_sat. kwd. rewrite Hjs, (py_sorted_mem (jv_eq x) cs s Es), andb_true_r.
        unfold py_in. clear - Hk Hx Hp. induction cs as [|c cs IH]; [reflexivity|].
        cbn [forallb existsb] in *. apply andb_prop in Hp. destruct Hp as [Hc Hcs].
        rewrite (jv_eq_py_eq k x c Hk Hx Hc), (IH Hcs). reflexivity.
    - (* PEqualTo *)
      destruct (choice_json_kind k m Hk Hp) as [j [Ej Vj]].
      cbn [pred_schema pred_eval]. rewrite Ej. cbn [pbind].
      eexists; exists (py_eq x m); split; [reflexivity|]. split.
      + destruct k; try discriminate; destruct x; try discriminate; destruct m; try discriminate; reflexivity.
      + cbn [forallb]. unfold entry_sat. kwd. cbn [existsb]. unfold jeq. rewrite Vj.
        rewrite (jv_eq_py_eq k x m Hk Hx Hp). rewrite orb_false_r, andb_true_r. reflexivity.
    - (* PMinLength *) destruct k; try discriminate. destruct x; try discriminate.
      eexists; eexists; split; [reflexivity|]. split; [reflexivity|].
      cbn [forallb]. unfold entry_sat. kwd. apply andb_true_r.
    - (* PMaxLength *) destruct k; try discriminate. destruct x; try discriminate.
      eexists; eexists; split; [reflexivity|]. split; [reflexivity|].
      cbn [forallb]. unfold entry_sat. kwd. apply andb_true_r.
    - (* PExactLength *) destruct k; try discriminate. destruct x; try discriminate.
      eexists; eexists; split; [reflexivity|]. split; [reflexivity|].
      cbn [forallb]. unfold entry_sat. kwd. rewrite andb_true_r.
      destruct (Z.leb_spec n (zlen s)), (Z.leb_spec (zlen s) n), (Z.eqb_spec (zlen s) n); cbn; try reflexivity; lia.
    - (* PStartsWith *) destruct k; try discriminate. destruct s; try discriminate. destruct x; try discriminate.
      eexists; eexists; split; [reflexivity|]. split; [reflexivity|].
      cbn [forallb]. unfold entry_sat. kwd. rewrite search_prefix. apply andb_true_r.
    - (* PEndsWith *) destruct k; try discriminate. destruct s; try discriminate. destruct x; try discriminate.
      eexists; eexists; split; [reflexivity|]. split; [reflexivity|].
      cbn [forallb]. unfold entry_sat. kwd. rewrite search_suffix. apply andb_true_r.
  Qed.

  (* ---------- a scalar validator ---------- *)

  Definition flat_entries (ps : list predicate) : list (jstring * json) := flat_map pred_entries ps.

  Definition kind_default (k : scalar_kind) : pyval :=
    match k with KStr => VStr [] | KInt => VInt 0 | KFloat => VFloat (FFin false 0 0) | _ => VBool true end.

  (* a class of predicates PF that agree with their keywords on the values XF *)
  Definition pred_class (PF : predicate -> bool) (XF : pyval -> bool) : Prop :=
    (exists x0, XF x0 = true) /\
    forall p x d, PF p = true -> XF x = true ->
                  exists es b, pred_schema text_of p = Ok es /\ pred_eval E p x = Ok b /\ forallb (esat d x) es = b.

  Lemma scalar_class k : jkind k = true -> pred_class (pred_frag k) (of_kind k).
  Proof.
    intros Hk. split.
    - exists (kind_default k). destruct k; try discriminate; reflexivity.
    - intros p x d Hp Hx. apply (pred_agree k p x d Hk Hp Hx).
  Qed.

  Section Class.
    Variable PF : predicate -> bool.
    Variable XF : pyval -> bool.
    Hypothesis HC : pred_class PF XF.

    Lemma pred_schema_frag p : PF p = true -> pred_schema text_of p = Ok (pred_entries p).
    Proof.
      intros Hp. destruct HC as [[x0 H0] HA].
      destruct (HA p x0 [] Hp H0) as [es [b [E1 _]]].
      unfold pred_entries. rewrite E1. reflexivity.
    Qed.

    Lemma preds_update_flat ps : forall base,
        forallb PF ps = true ->
        strs_unique (map fst base ++ map fst (flat_entries ps)) = true ->
        preds_update text_of base ps = Ok (base ++ flat_entries ps).
    Proof.
      induction ps as [|p ps IH]; intros base Hps Hu; cbn [preds_update flat_entries flat_map].
      - rewrite app_nil_r. reflexivity.
      - cbn [forallb] in Hps. apply andb_prop in Hps. destruct Hps as [Hp Hps].
        rewrite (pred_schema_frag p Hp). cbn [pbind].
        unfold flat_entries in Hu. cbn [flat_map] in Hu. rewrite map_app, app_assoc in Hu.
        rewrite obj_update_fresh by (apply strs_unique_app_l in Hu; exact Hu).
        rewrite IH; [rewrite <- app_assoc; reflexivity | exact Hps |].
        rewrite map_app. exact Hu.
    Qed.

    Lemma preds_sat ps x d :
      forallb PF ps = true -> XF x = true ->
      exists fs, failing_preds E ps x = Ok fs /\
                 forallb (esat d x) (flat_entries ps) = match fs with [] => true | _ => false end.
    Proof.
      induction ps as [|p ps IH]; intros Hps Hx; cbn [forallb failing_preds flat_entries flat_map] in *.
      - eexists; split; reflexivity.
      - apply andb_prop in Hps. destruct Hps as [Hp Hps].
        destruct HC as [_ HA]. destruct (HA p x d Hp Hx) as [es [b [E1 [E2 E3]]]].
        destruct (IH Hps Hx) as [fs [F1 F2]].
        rewrite E2, F1. cbn [pbind]. eexists; split; [reflexivity|].
        unfold pred_entries at 1. rewrite E1. rewrite forallb_app, E3. fold (flat_entries ps). rewrite F2.
        destruct b, fs; reflexivity.
    Qed.
  End Class.

  Lemma obj_get_none d k :
    forallb (fun e => negb (jstr_eqb (fst e) k)) d = true -> obj_get d k = None.
  Proof.
    induction d as [|[k' v] d IH]; cbn [forallb obj_get fst]; intros H; [reflexivity|].
    apply andb_prop in H. destruct H as [H1 H2]. apply negb_true_iff in H1. rewrite H1. apply IH; exact H2.
  Qed.

  Definition not_key (k : jstring) (e : jstring * json) : bool := negb (jstr_eqb (fst e) k).

  Notation knull := (lit "nullable").

  Lemma pred_entries_not p : forallb (not_key knull) (pred_entries p) = true.
  Proof.
    assert (H1 : forall k' v, jstr_eqb k' knull = false -> forallb (not_key knull) [(k', v)] = true).
    { intros k' v Hn. cbn. unfold not_key. cbn [fst]. rewrite Hn. reflexivity. }
    unfold pred_entries. destruct p; cbn [pred_schema]; try reflexivity; try (apply H1; reflexivity).
    - unfold bound_schema. destruct m; try reflexivity; try (destruct excl; apply H1; reflexivity).
      destruct (float_finite f); [|reflexivity]. destruct excl; apply H1; reflexivity.
    - unfold bound_schema. destruct m; try reflexivity; try (destruct excl; apply H1; reflexivity).
      destruct (float_finite f); [|reflexivity]. destruct excl; apply H1; reflexivity.
    - destruct (py_sorted cs); cbn [pbind]; [|reflexivity]. destruct (pmap _ _); cbn [pbind]; [|reflexivity].
      apply H1; reflexivity.
    - destruct (choice_json text_of m); cbn [pbind]; [|reflexivity]. apply H1; reflexivity.
    - destruct (unsub s); try reflexivity; apply H1; reflexivity.
    - destruct (unsub s); try reflexivity; apply H1; reflexivity.
  Qed.

  Lemma flat_entries_not ps : forallb (not_key knull) (flat_entries ps) = true.
  Proof.
    induction ps as [|p ps IH]; [reflexivity|].
    unfold flat_entries. cbn [flat_map]. rewrite forallb_app, (pred_entries_not p). exact IH.
  Qed.

  Notation kprops := (lit "properties").

  Lemma pred_entries_not_props p : forallb (not_key kprops) (pred_entries p) = true.
  Proof.
    assert (H1 : forall k' v, jstr_eqb k' kprops = false -> forallb (not_key kprops) [(k', v)] = true).
    { intros k' v Hn. cbn. unfold not_key. cbn [fst]. rewrite Hn. reflexivity. }
    unfold pred_entries. destruct p; cbn [pred_schema]; try reflexivity; try (apply H1; reflexivity).
    - unfold bound_schema. destruct m; try reflexivity; try (destruct excl; apply H1; reflexivity).
      destruct (float_finite f); [|reflexivity]. destruct excl; apply H1; reflexivity.
    - unfold bound_schema. destruct m; try reflexivity; try (destruct excl; apply H1; reflexivity).
      destruct (float_finite f); [|reflexivity]. destruct excl; apply H1; reflexivity.
    - destruct (py_sorted cs); cbn [pbind]; [|reflexivity]. destruct (pmap _ _); cbn [pbind]; [|reflexivity].
      apply H1; reflexivity.
    - destruct (choice_json text_of m); cbn [pbind]; [|reflexivity]. apply H1; reflexivity.
    - destruct (unsub s); try reflexivity; apply H1; reflexivity.
    - destruct (unsub s); try reflexivity; apply H1; reflexivity.
  Qed.

  Lemma flat_entries_not_props ps : forallb (not_key kprops) (flat_entries ps) = true.
  Proof.
    induction ps as [|p ps IH]; [reflexivity|].
    unfold flat_entries. cbn [flat_map]. rewrite forallb_app, (pred_entries_not_props p). exact IH.
  Qed.

  Definition tname (k : scalar_kind) : jstring :=
    match k with KStr => lit "string" | KInt => lit "integer" | KFloat => lit "number" | _ => lit "boolean" end.

  Lemma type_sat_kind k x :
    jkind k = true -> is_json x = true -> type_sat (tname k) x = exact_type x (ktype k).
  Proof. intros Hk Hx. destruct k; try discriminate; destruct x; try discriminate; reflexivity. Qed.

  Lemma exact_of_kind k x :
    jkind k = true -> is_json x = true -> exact_type x (ktype k) = true -> of_kind k x = true.
  Proof. intros Hk Hx. destruct k; try discriminate; destruct x; try discriminate; cbn; auto; discriminate. Qed.

  Variable named : option jstring.

  Definition scalar_ok (k : scalar_kind) (ps : list predicate) : bool :=
    jkind k && forallb (pred_frag k) ps
    && strs_unique (lit "type" :: map fst (flat_entries ps)).

  Lemma nullable_scalar k ps :
    nullable ((lit "type", JStr (tname k)) :: flat_entries ps) = false.
  Proof.
    unfold nullable. rewrite obj_get_none; [reflexivity|].
    cbn [forallb]. fold (not_key knull). rewrite (flat_entries_not ps). reflexivity.
  Qed.

  Theorem scalar_agree self k ps x :
    scalar_ok k ps = true -> is_json x = true ->
    exists j, to_schema text_of named (Scalar k None [] ps []) = Ok j /\
              agree (sat j x) (scalar_body E self k None [] ps [] Sync x).
  Proof.
    unfold scalar_ok. intros H Hx. apply andb_prop in H. destruct H as [H Hu]. apply andb_prop in H. destruct H as [Hk Hps].
    assert (Hbase : exists t, kind_type k = Some t /\ base_of_type t = Ok [(lit "type", JStr (tname k))])
      by (destruct k; try discriminate; eexists; split; reflexivity).
    destruct Hbase as [t [Ht Hb]].
    cbn [to_schema]. rewrite Ht, Hb. cbn [pbind].
    rewrite (preds_update_flat _ _ (scalar_class k Hk) ps _ Hps) by exact Hu. cbn [pbind apreds_schema app].
    eexists; split; [reflexivity|].
    cbn [SchemaSat.sat]. rewrite nullable_scalar. cbn [andb orb forallb].
    unfold entry_sat at 1. kwd. rewrite (type_sat_kind k x Hk Hx).
    unfold scalar_body. cbn [mode_eqb nonempty andb gate procs_apply].
    destruct (exact_type x (ktype k)) eqn:Ex.
    - pose proof (exact_of_kind k x Hk Hx Ex) as Hof.
      destruct (preds_sat _ _ (scalar_class k Hk) ps x ((lit "type", JStr (tname k)) :: flat_entries ps) Hps Hof) as [fs [F1 F2]].
      unfold all_failing. rewrite F1. cbn [pbind andb]. rewrite F2.
      destruct fs; cbn [agree]; eexists; reflexivity.
    - cbn [andb agree]. eexists; reflexivity.
  Qed.

  (* ---------- item-count predicates of list validators ---------- *)

  Definition count_frag (p : predicate) : bool :=
    match p with PMinItems _ | PMaxItems _ => true | _ => false end.

  Definition is_vlist (x : pyval) : bool := match x with VList _ => true | _ => false end.

  Lemma count_class : pred_class count_frag is_vlist.
  Proof.
    split; [exists (VList []); reflexivity|].
    intros p x d Hp Hx. destruct x; try discriminate. destruct p; try discriminate;
      (eexists; eexists; split; [reflexivity|]; split; [reflexivity|];
       cbn [forallb]; unfold entry_sat; kwd; apply andb_true_r).
  Qed.

  (* a uniform tuple validator evaluates its predicates on the coerced tuple; the schema's keywords
     are read on the JSON array it came from *)
  Lemma count_preds_tuple ps xs d :
    forallb count_frag ps = true ->
    exists fs, failing_preds E ps (VTuple xs) = Ok fs /\
               forallb (esat d (VList xs)) (flat_entries ps) = match fs with [] => true | _ => false end.
  Proof.
    induction ps as [|p ps IH]; cbn [forallb failing_preds flat_entries flat_map]; intros Hps.
    - eexists; split; reflexivity.
    - apply andb_prop in Hps. destruct Hps as [Hp Hps]. destruct (IH Hps) as [fs [F1 F2]].
      destruct p; try discriminate; cbn [pred_eval py_len unsub pbind]; rewrite F1; cbn [pbind];
        (eexists; split; [reflexivity|]); unfold pred_entries at 1; cbn [pred_schema];
          rewrite forallb_app; fold (flat_entries ps); rewrite F2; cbn [forallb]; unfold entry_sat; kwd;
            rewrite andb_true_r.
      + destruct (n <=? zlen xs), fs; reflexivity.
      + destruct (zlen xs <=? n), fs; reflexivity.
  Qed.

  (* ---------- children of a list ---------- *)

  Lemma collect_items_agree (rec : runner) item (b : pyval -> bool) : forall xs i,
      (forall xi, In xi xs -> agree (b xi) (rec item xi)) ->
      exists ws errs,
        collect_items i (run_calls false rec (map (fun xi => (item, xi)) xs)) = inr (ws, errs) /\
        (match errs with [] => true | _ => false end) = forallb b xs.
  Proof.
    induction xs as [|x xs IH]; intros i H; cbn [map run_calls collect_items forallb].
    - eexists; eexists; split; reflexivity.
    - pose proof (H x (or_introl eq_refl)) as Hx.
      destruct (IH (S i) (fun xi Hin => H xi (or_intror Hin))) as [ws [errs [E1 E2]]].
      destruct (b x); cbn [agree] in Hx; destruct Hx as [w ->]; cbn [collect_items]; rewrite E1.
      + eexists; eexists; split; [reflexivity|]. exact E2.
      + eexists; eexists; split; [reflexivity|]. reflexivity.
  Qed.

  (* ---------- size predicates and members of a map ---------- *)

  Definition keys_frag (p : predicate) : bool :=
    match p with PMinKeys _ | PMaxKeys _ => true | _ => false end.

  Definition is_vdict (x : pyval) : bool := match x with VDict _ => true | _ => false end.

  Lemma keys_class : pred_class keys_frag is_vdict.
  Proof.
    split; [exists (VDict []); reflexivity|].
    intros p x d Hp Hx. destruct x; try discriminate. destruct p; try discriminate;
      (eexists; eexists; split; [reflexivity|]; split; [reflexivity|];
       cbn [forallb]; unfold entry_sat; kwd; apply andb_true_r).
  Qed.

  Definition kstr : validator := Scalar KStr None [] [] [].

  Lemma map_ref_agree n vv (b : pyval -> bool) : forall kvs acc errs,
      forallb (fun kv => is_str (fst kv)) kvs = true ->
      (forall kv, In kv kvs -> agree (b (snd kv)) (run E Sync (S n) vv (snd kv))) ->
      exists acc' errs',
        map_ref E (run E Sync (S n)) kstr vv kvs acc errs = inr (acc', errs') /\
        ((match errs' with [] => true | _ => false end)
         = (match errs with [] => true | _ => false end) && forallb (fun kv => b (snd kv)) kvs).
  Proof.
    induction kvs as [|[k v] kvs IH]; intros acc errs Hk Hv; cbn [map_ref forallb fst snd] in *.
    - eexists; eexists; split; [reflexivity|]. rewrite andb_true_r. reflexivity.
    - apply andb_prop in Hk. destruct Hk as [Hk0 Hks]. destruct k; try discriminate.
      cbv zeta. change (run E Sync (S n) kstr (VStr s)) with (OValid (VStr s)). cbn [normal negb].
      pose proof (Hv (VStr s, v) (or_introl eq_refl)) as Ha. cbn [snd] in Ha.
      destruct (b v); cbn [agree] in Ha; destruct Ha as [w ->]; cbn [normal negb hashable].
      + destruct (IH (dict_set acc (VStr s) w) errs Hks (fun kv Hin => Hv kv (or_intror Hin))) as [acc' [errs' [E1 E2]]].
        exists acc', errs'. split; [exact E1|]. rewrite E2. cbn [andb]. reflexivity.
      + destruct (IH acc (errs ++ [(VStr s, (inv_of (OValid (VStr s)), inv_of (OInvalid w)))]) Hks (fun kv Hin => Hv kv (or_intror Hin)))
          as [acc' [errs' [E1 E2]]].
        exists acc', errs'. split; [exact E1|]. rewrite E2. destruct errs; cbn; reflexivity.
  Qed.

  Lemma in_props_none d k : obj_get d (lit "properties") = None -> in_props d k = false.
  Proof. unfold in_props. intros ->. reflexivity. Qed.

  (* ---------- record-shaped validators ---------- *)

  (* what both sides expect of one declared key *)
  Definition key_ok (data : list (pyval * pyval)) (k : pyval) (req : bool) (j : json) : bool :=
    match dict_get data k with Some xv => sat j xv | None => negb req end.

  Fixpoint keys_ok (data : list (pyval * pyval)) (keys : list (pyval * (validator * bool))) (js : list json) : bool :=
    match keys, js with
    | (k, (_, req)) :: kr, j :: jr => key_ok data k req j && keys_ok data kr jr
    | _, _ => true
    end.

  Lemma dict_get_json data k xv :
    forallb (fun kv => match fst kv with VStr _ => is_json (snd kv) | _ => false end) data = true ->
    dict_get data k = Some xv -> is_json xv = true.
  Proof.
    induction data as [|[k0 v0] data IH]; cbn [forallb dict_get fst snd]; intros H Hg; [discriminate|].
    apply andb_prop in H. destruct H as [H0 H1]. destruct (py_eq k0 k).
    - injection Hg as <-. destruct k0; try discriminate. exact H0.
    - apply IH; assumption.
  Qed.

  Lemma keys_ref_agree (rec : runner) self pol data orig :
    forallb (fun kv => match fst kv with VStr _ => is_json (snd kv) | _ => false end) data = true ->
    forall keys js,
      Forall2 (fun key j => forall xv, is_json xv = true -> agree (sat j xv) (rec (fst (snd key)) xv)) keys js ->
      exists ws errs, keys_ref rec self pol keys data orig = inr (ws, errs) /\
                      (match errs with [] => true | _ => false end) = keys_ok data keys js.
  Proof.
    intros Hd keys js HF. induction HF as [|[k [v req]] j keys js Hkj HF IH]; cbn [keys_ref keys_ok].
    - eexists; eexists; split; reflexivity.
    - destruct IH as [ws [errs [E1 E2]]]. unfold key_ok. cbn [fst snd] in Hkj.
      destruct (dict_get data k) as [xv|] eqn:Eg.
      + pose proof (Hkj xv (dict_get_json data k xv Hd Eg)) as Ha.
        destruct (sat j xv); cbn [agree] in Ha; destruct Ha as [w ->]; rewrite E1.
        * eexists; eexists; split; [reflexivity|]. cbn [andb]. exact E2.
        * eexists; eexists; split; [reflexivity|]. reflexivity.
      + rewrite E1. destruct req.
        * eexists; eexists; split; [reflexivity|]. reflexivity.
        * destruct pol; eexists; eexists; (split; [reflexivity|]); cbn [negb andb]; exact E2.
  Qed.

  (* properties built from distinct labels is just the pairing *)
  Lemma props_of_combine : forall ls js acc,
      strs_unique (map fst acc ++ ls) = true ->
      fold_left (fun a kv => obj_set a (fst kv) (snd kv)) (combine ls js) acc = acc ++ combine ls js.
  Proof.
    induction ls as [|l ls IH]; intros js acc Hu; cbn [combine fold_left]; [rewrite app_nil_r; reflexivity|].
    destruct js as [|j js]; cbn [combine fold_left fst snd]; [rewrite app_nil_r; reflexivity|].
    destruct (strs_unique_mid _ _ _ Hu) as [H1 _].
    rewrite obj_set_fresh by exact H1. rewrite IH.
    - rewrite <- app_assoc. reflexivity.
    - rewrite map_app. cbn [map fst]. rewrite <- app_assoc. exact Hu.
  Qed.

  Definition skey (k : pyval) : jstring := match k with VStr s => s | _ => [] end.

  Lemma key_label_str k : is_str k = true -> key_label text_of k = skey k.
  Proof. destruct k; try discriminate. reflexivity. Qed.

  (* the four keywords of an object schema against a JSON object *)
  Lemma sat_object strict req labels js data :
    List.length labels = List.length js ->
    sat (object_schema strict req (combine labels js)) (VDict data)
    = forallb (fun e => match fst e with
                        | VStr k' => existsb (fun l => jstr_eqb l k') labels || negb strict
                        | _ => false
                        end) data
      && (forallb (fun r => dict_has data (VStr r)) req
          && forallb (fun e => match dict_get data (VStr (fst e)) with
                               | Some xv => sat (snd e) xv
                               | None => true
                               end) (combine labels js)).
  Proof.
    intros Hl. unfold object_schema. cbn [SchemaSat.sat]. unfold nullable. rewrite obj_get_none by reflexivity.
    cbn [andb orb forallb]. unfold entry_sat. kwd.
    change (type_sat (lit "object") (VDict data)) with true. cbn [andb]. rewrite andb_true_r.
    f_equal; [|f_equal].
    - apply forallb_ext'. intros [k v]. cbn [fst snd]. destruct k; try reflexivity.
      unfold in_props. change (obj_get _ (lit "properties")) with (Some (JObj (combine labels js))).
      cbn [SchemaSat.sat]. f_equal.
      clear - Hl. revert js Hl. induction labels as [|l labels IH]; intros js Hl; destruct js as [|j js]; try discriminate; [reflexivity|].
      cbn [combine existsb fst]. rewrite (IH js) by (cbn in Hl; lia). reflexivity.
    - induction req as [|r req IH]; [reflexivity|]. cbn [map forallb]. rewrite IH. reflexivity.
  Qed.

  Lemma keys_ok_split data : forall keys js,
      List.length keys = List.length js ->
      forallb (fun key => is_str (fst key)) keys = true ->
      keys_ok data keys js
      = forallb (fun r => dict_has data (VStr r)) (map (fun key => skey (fst key)) (filter (fun key => snd (snd key)) keys))
        && forallb (fun e => match dict_get data (VStr (fst e)) with
                             | Some xv => sat (snd e) xv
                             | None => true
                             end) (combine (map (fun key => skey (fst key)) keys) js).
  Proof.
    induction keys as [|[k [v req]] keys IH]; intros js Hl Hs; destruct js as [|j js]; try discriminate; [reflexivity|].
    cbn [forallb fst] in Hs. apply andb_prop in Hs. destruct Hs as [Hk Hs]. destruct k; try discriminate.
    assert (Hl' : List.length keys = List.length js) by (cbn in Hl; lia).
    cbn [keys_ok]. rewrite (IH js Hl' Hs). clear IH.
    unfold key_ok, dict_has. cbn [filter snd fst].
    destruct req; cbn [map combine forallb skey fst snd];
      destruct (dict_get data (VStr s)) as [xv|]; cbn [negb andb];
        repeat match goal with |- context [forallb ?f ?l] => generalize (forallb f l); intros ? end;
        try match goal with |- context [sat ?a ?b] => generalize (sat a b); intros ? end; btauto.
  Qed.

  Lemma unknown_keys_sat strict keys data :
    forallb (fun key => is_str (fst key)) keys = true ->
    forallb (fun kv => match fst kv with VStr _ => true | _ => false end) data = true ->
    forallb (fun e => match fst e with
                      | VStr k' => existsb (fun l => jstr_eqb l k') (map (fun key : pyval * (validator * bool) => skey (fst key)) keys) || negb strict
                      | _ => false
                      end) data
    = negb (strict && has_unknown_key (map fst keys) data).
  Proof.
    intros Hs Hd. unfold has_unknown_key. induction data as [|[k v] data IH]; [destruct strict; reflexivity|].
    cbn [forallb existsb fst] in *. apply andb_prop in Hd. destruct Hd as [Hk Hd]. destruct k; try discriminate.
    rewrite (IH Hd).
    assert (Hin : existsb (fun l => jstr_eqb l s) (map (fun key : pyval * (validator * bool) => skey (fst key)) keys)
                  = py_in (VStr s) (map fst keys)).
    { clear - Hs. unfold py_in. induction keys as [|[k0 [v0 r0]] keys IH]; [reflexivity|].
      cbn [forallb fst] in Hs. apply andb_prop in Hs. destruct Hs as [H0 Hs]. destruct k0; try discriminate.
      cbn [map existsb fst skey]. rewrite (IH Hs). f_equal. cbn [py_eq]. apply jstr_eqb_sym. }
    rewrite Hin. destruct strict, (py_in (VStr s) (map fst keys)); cbn; try reflexivity;
      destruct (existsb _ data); reflexivity.
  Qed.

  Lemma sat_record strict (keys : list (pyval * (validator * bool))) js data :
    List.length keys = List.length js ->
    forallb (fun key => is_str (fst key)) keys = true ->
    forallb (fun kv : pyval * pyval => match fst kv with VStr _ => true | _ => false end) data = true ->
    sat (object_schema strict (map (fun key => skey (fst key)) (filter (fun key => snd (snd key)) keys))
                       (combine (map (fun key => skey (fst key)) keys) js)) (VDict data)
    = negb (strict && has_unknown_key (map fst keys) data) && keys_ok data keys js.
  Proof.
    intros Hl Hs Hd. rewrite sat_object by (rewrite map_length; exact Hl).
    rewrite (unknown_keys_sat strict keys data Hs Hd), <- (keys_ok_split data keys js Hl Hs). reflexivity.
  Qed.

  Lemma forallb_insert_str (f : jstring -> bool) x xs : forallb f (insert_str x xs) = f x && forallb f xs.
  Proof.
    induction xs as [|y ys IH]; cbn [insert_str forallb]; [reflexivity|].
    destruct (lex_leb false x y); cbn [forallb]; [reflexivity|]. rewrite IH. btauto.
  Qed.

  Lemma forallb_sort_strings (f : jstring -> bool) xs : forallb f (sort_strings xs) = forallb f xs.
  Proof.
    unfold sort_strings. induction xs as [|x xs IH]; cbn [fold_right forallb]; [reflexivity|].
    rewrite forallb_insert_str, IH. reflexivity.
  Qed.

  (* ---------- the fragment ---------- *)

  Definition val_kind (m : pyval) : option scalar_kind :=
    match m with
    | VStr _ => Some KStr | VInt _ => Some KInt | VBool _ => Some KBool
    | VFloat f => if float_finite f then Some KFloat else None
    | _ => None
    end.

  (* JSON kinds: 0 null, 1 boolean, 2 integer, 3 float, 4 string, 5 array, 6 object *)
  Definition kind_of (x : pyval) : nat :=
    match x with
    | VNone => 0 | VBool _ => 1 | VInt _ => 2 | VFloat _ => 3 | VStr _ => 4 | VList _ => 5 | VDict _ => 6
    | _ => 7
    end%nat.

  (* the kinds a validator of the fragment can accept (an over-approximation read off its shape) *)
  Fixpoint jk (v : validator) : list nat :=
    match v with
    | Scalar KStr _ _ _ _ => [4%nat] | Scalar KInt _ _ _ _ => [2%nat] | Scalar KFloat _ _ _ _ => [3%nat] | Scalar KBool _ _ _ _ => [1%nat]
    | EqualsV m _ => [kind_of m]
    | IsDictV | MapV _ _ _ _ _ | DictAnyV _ _ _ _ | RecordV _ _ _ _ _ | ClassV _ _ _ _ _ _ _ => [6%nat]
    | ListV _ _ _ _ | UTupleV _ _ _ _ | NTupleV _ _ _ => [5%nat]
    | KeyNotRequired inner | CacheV inner => jk inner
    | OptionalV _ inner => 0%nat :: jk inner
    | UnionV vs => flat_map jk vs
    | _ => []
    end.

  Fixpoint nodup_nat (l : list nat) : bool :=
    match l with
    | [] => true
    | a :: r => negb (existsb (Nat.eqb a) r) && nodup_nat r
    end.

  Fixpoint frag (v : validator) : bool :=
    match v with
    | Scalar k None [] ps [] => scalar_ok k ps
    | EqualsV m [] => match val_kind m with Some _ => true | None => false end
    | IsDictV => true
    | ListV item ps [] None =>
        frag item && forallb count_frag ps
        && strs_unique (lit "type" :: lit "items" :: map fst (flat_entries ps))
    | UTupleV item ps [] (Some CoTupleOrList) =>
        frag item && forallb count_frag ps
        && strs_unique (lit "type" :: lit "items" :: map fst (flat_entries ps))
    | NTupleV fields None (Some CoTupleOrList) => forallb frag fields
    | MapV (Scalar KStr None [] [] []) vv ps [] None =>
        frag vv && forallb keys_frag ps
        && strs_unique (lit "type" :: lit "additionalProperties" :: map fst (flat_entries ps))
    | DictAnyV schema None None _ =>
        forallb (fun kv => is_str (fst kv) && frag (snd kv)) schema
        && strs_unique (map (fun kv => skey (fst kv)) schema)
    | RecordV keys _ None None _ =>
        forallb (fun kv => is_str (fst kv) && frag (snd kv)) keys
        && strs_unique (map (fun kv => skey (fst kv)) keys)
    | ClassV _ _ schema None None _ None =>
        forallb (fun kv => is_str (fst kv) && frag (fst (snd kv))) schema
        && strs_unique (map (fun kv => skey (fst kv)) schema)
    | KeyNotRequired inner => frag inner
    | OptionalV (NoneV None) inner => frag inner
    | CacheV inner => frag inner
    (* a union whose variants accept pairwise different JSON kinds: exactly-one (oneOf) and first-match coincide *)
    | UnionV vs => forallb frag vs && nodup_nat (flat_map jk vs)
    | _ => false
    end.

  Fixpoint vheight (v : validator) : nat :=
    match v with
    | ListV item _ _ _ => S (vheight item)
    | UTupleV item _ _ _ => S (vheight item)
    | NTupleV fields _ _ => S (list_max (map vheight fields))
    | MapV _ vv _ _ _ => S (vheight vv)
    | DictAnyV schema _ _ _ => S (list_max (map (fun kv => vheight (snd kv)) schema))
    | RecordV keys _ _ _ _ => S (list_max (map (fun kv => vheight (snd kv)) keys))
    | ClassV _ _ schema _ _ _ _ => S (list_max (map (fun kv => vheight (fst (snd kv))) schema))
    | KeyNotRequired inner => S (vheight inner)
    | OptionalV _ inner => S (vheight inner)
    | CacheV inner => S (vheight inner)
    | UnionV vs => S (list_max (map vheight vs))
    | _ => O
    end.

  Lemma val_kind_of m k : val_kind m = Some k -> jkind k = true /\ of_kind k m = true /\ type_of m = ktype k.
  Proof.
    destruct m; cbn; try discriminate; try (intros H; injection H as <-; auto).
    destruct (float_finite f) eqn:Ef; [|discriminate]. intros H; injection H as <-. cbn. auto.
  Qed.

  (* adding "nullable": true to an object schema *)
  Lemma in_props_set d v k : in_props (obj_set d knull v) k = in_props d k.
  Proof.
    unfold in_props. replace (obj_get (obj_set d knull v) (lit "properties")) with (obj_get d (lit "properties")); [reflexivity|].
    induction d as [|[k' v'] d IH]; cbn [obj_set obj_get]; [reflexivity|].
    destruct (jstr_eqb k' knull) eqn:Ek; cbn [obj_get].
    - apply jstr_eqb_eq in Ek. subst k'. reflexivity.
    - rewrite IH. reflexivity.
  Qed.

  Lemma entry_sat_kvs d d' x e :
    (forall k, in_props d k = in_props d' k) -> esat d x e = esat d' x e.
  Proof.
    intros H. unfold entry_sat. destruct e as [k v]. destruct (kwd_of k); try reflexivity.
    destruct x; try reflexivity. apply forallb_ext'. intros [a b]. cbn [fst snd]. destruct a; try reflexivity. rewrite H. reflexivity.
  Qed.

  Lemma obj_get_set_same d k v : obj_get (obj_set d k v) k = Some v.
  Proof.
    induction d as [|[k' v'] d IH]; cbn [obj_set obj_get].
    - rewrite jstr_eqb_refl. reflexivity.
    - destruct (jstr_eqb k' k) eqn:Ek; cbn [obj_get]; rewrite Ek; [reflexivity | exact IH].
  Qed.

  Lemma forallb_obj_set (f : jstring * json -> bool) d k v :
    (forall v', f (k, v') = true) -> forallb f (obj_set d k v) = forallb f d.
  Proof.
    intros Hf. induction d as [|[k' v'] d IH]; cbn [obj_set forallb].
    - rewrite Hf. reflexivity.
    - destruct (jstr_eqb k' k) eqn:Ek; cbn [forallb].
      + apply jstr_eqb_eq in Ek. subst k'. rewrite !Hf. reflexivity.
      + rewrite IH. reflexivity.
  Qed.

  Lemma sat_nullable d x :
    sat (JObj (obj_set d knull (JBool true))) x = is_none x || sat (JObj d) x.
  Proof.
    cbn [SchemaSat.sat]. unfold nullable at 1. rewrite obj_get_set_same. cbn [andb].
    assert (Hf : forallb (esat (obj_set d knull (JBool true)) x) (obj_set d knull (JBool true)) = forallb (esat d x) d).
    { rewrite forallb_obj_set by (intros v'; reflexivity).
      apply forallb_ext'. intros e. apply entry_sat_kvs. intros k. apply in_props_set. }
    rewrite Hf. destruct (is_none x); [reflexivity|]. rewrite andb_false_r. reflexivity.
  Qed.

  (* ---------- children of an n-tuple ---------- *)

  Definition child_agree (n : nat) (f : validator) (j : json) : Prop :=
    forall x, is_json x = true -> agree (sat j x) (run E Sync n f x).

  Lemma collect_items_agree2 n : forall fields js xs i,
      Forall2 (child_agree n) fields js -> List.length xs = List.length fields -> forallb is_json xs = true ->
      exists ws errs,
        collect_items i (run_calls false (run E Sync n) (combine fields xs)) = inr (ws, errs) /\
        (match errs with [] => true | _ => false end) = prefix_sat sat js xs.
  Proof.
    intros fields js xs i HF. revert xs i. induction HF as [|f j fields js Hfj HF IH]; intros xs i Hl Hj.
    - destruct xs; [|discriminate]. cbn. eexists; eexists; split; reflexivity.
    - destruct xs as [|x xs]; [discriminate|]. cbn [forallb] in Hj. apply andb_prop in Hj. destruct Hj as [Hx Hxs].
      cbn [combine run_calls prefix_sat]. pose proof (Hfj x Hx) as Ha.
      destruct (IH xs (S i) ltac:(cbn in Hl; lia) Hxs) as [ws [errs [E1 E2]]].
      destruct (sat j x); cbn [agree] in Ha; destruct Ha as [w ->]; cbn [collect_items]; rewrite E1.
      + eexists; eexists; split; [reflexivity|]. cbn [andb]. exact E2.
      + eexists; eexists; split; [reflexivity|]. reflexivity.
  Qed.

  Lemma list_max_lt (l : list nat) n x : (list_max l < n)%nat -> In x l -> (x < n)%nat.
  Proof.
    induction l as [|y l IH]; cbn [list_max fold_right In]; intros H Hin; [destruct Hin|].
    unfold list_max in *. cbn [fold_right] in H.
    destruct Hin as [->|Hin]; [lia | apply IH; [lia | exact Hin]].
  Qed.

  Definition agrees (f : validator) : Prop :=
    forall n, (vheight f < n)%nat -> forall x, is_json x = true ->
      exists d, to_schema text_of named f = Ok (JObj d) /\ agree (sat (JObj d) x) (run E Sync n f x).

  Lemma many_of_agree n : forall vs,
      Forall agrees vs -> (forall f, In f vs -> (vheight f < n)%nat) ->
      exists js, many_of (to_schema text_of named) vs = Ok js /\
                 List.length js = List.length vs /\ Forall2 (child_agree n) vs js.
  Proof.
    induction vs as [|f fs IH]; intros HA Hh.
    - exists []. repeat split; constructor.
    - inversion HA as [|? ? Hf HAs]; subst.
      destruct (Hf (S (vheight f)) (Nat.lt_succ_diag_r _) VNone eq_refl) as [d0 [Ed0 _]].
      destruct (IH HAs (fun g Hg => Hh g (or_intror Hg))) as [js [Ejs [Hlen HF2]]].
      exists (JObj d0 :: js). cbn [many_of]. rewrite Ed0. cbn [pbind]. fold (many_of (to_schema text_of named)).
      rewrite Ejs. cbn [pbind]. split; [reflexivity|]. split; [cbn; rewrite Hlen; reflexivity|].
      constructor; [|exact HF2]. intros x Hx. destruct (Hf n (Hh f (or_introl eq_refl)) x Hx) as [d1 [Ed1 Ha]].
      rewrite Ed0 in Ed1. injection Ed1 as <-. exact Ha.
  Qed.

  Lemma knr_agree b n inner x :
    agree b (run E Sync (S n) (KeyNotRequired inner) x) -> agree b (run E Sync n inner x).
  Proof.
    cbn [run step]. unfold knr_body. destruct (run E Sync n inner x); destruct b; cbn [agree];
      intros [w0 H0]; try discriminate; eexists; reflexivity.
  Qed.

  Lemma sat_object_nondict strict req props x :
    match x with VDict _ => False | _ => True end -> is_json x = true ->
    sat (object_schema strict req props) x = false.
  Proof.
    intros Hx Hj. unfold object_schema. cbn [SchemaSat.sat]. unfold nullable. rewrite obj_get_none by reflexivity.
    cbn [andb orb forallb]. unfold entry_sat at 1. kwd. destruct x; try contradiction; try discriminate; reflexivity.
  Qed.

  Lemma required_labels (g : validator -> validator) (schema : list (pyval * validator)) :
    forallb (fun kv => is_str (fst kv)) schema = true ->
    map (fun kv => key_label text_of (fst kv)) (filter (fun kv => negb (is_knr (snd kv))) schema)
    = map (fun key => skey (fst key))
          (filter (fun key : pyval * (validator * bool) => snd (snd key))
                  (map (fun kv => (fst kv, (g (snd kv), is_required_marker (snd kv)))) schema)).
  Proof.
    induction schema as [|[k v] schema IH]; intros Hs; [reflexivity|].
    cbn [forallb fst] in Hs. apply andb_prop in Hs. destruct Hs as [Hk Hs].
    cbn [map filter fst snd]. assert (Hm : is_required_marker v = negb (is_knr v)) by (destruct v; reflexivity).
    rewrite Hm. destruct (negb (is_knr v)); cbn [map fst]; rewrite (IH Hs); [rewrite (key_label_str k Hk)|]; reflexivity.
  Qed.

  Lemma labels_eq (schema : list (pyval * validator)) :
    forallb (fun kv => is_str (fst kv)) schema = true ->
    map (fun kv => key_label text_of (fst kv)) schema = map (fun kv => skey (fst kv)) schema.
  Proof.
    induction schema as [|[k v] schema IH]; intros Hs; [reflexivity|].
    cbn [forallb fst] in Hs. apply andb_prop in Hs. destruct Hs as [Hk Hs].
    cbn [map fst]. rewrite (key_label_str k Hk), (IH Hs). reflexivity.
  Qed.

  Ltac fold_obj :=
    match goal with
    | |- context [JObj [(lit "type", JStr (lit "object")); (lit "additionalProperties", JBool (negb ?st));
                        (lit "required", JArr (map JStr ?r)); (lit "properties", JObj ?pp)]] =>
        change (JObj [(lit "type", JStr (lit "object")); (lit "additionalProperties", JBool (negb st));
                      (lit "required", JArr (map JStr r)); (lit "properties", JObj pp)])
          with (object_schema st r pp)
    end.

  (* ---------- unions of variants that accept pairwise different JSON kinds ---------- *)

  Lemma nodup_nat_disjoint l1 l2 a : nodup_nat (l1 ++ l2) = true -> In a l1 -> In a l2 -> False.
  Proof.
    induction l1 as [|b l1 IH]; intros H H1 H2; [destruct H1|].
    cbn [app nodup_nat] in H. apply andb_prop in H. destruct H as [Hb Hr].
    destruct H1 as [->|H1]; [|exact (IH Hr H1 H2)].
    apply negb_true_iff in Hb. assert (Ht : existsb (Nat.eqb a) (l1 ++ l2) = true).
    { apply existsb_exists. exists a. split; [apply in_or_app; right; exact H2 | apply Nat.eqb_refl]. }
    congruence.
  Qed.

  Lemma nodup_nat_tail l1 l2 : nodup_nat (l1 ++ l2) = true -> nodup_nat l2 = true.
  Proof.
    induction l1 as [|b l1 IH]; intros H; [exact H|]. cbn [app nodup_nat] in H. apply andb_prop in H. apply IH. apply H.
  Qed.

  (* a validator of the fragment accepts JSON values of its own kinds only *)
  Lemma valid_kind : forall v, frag v = true ->
      forall n x w, is_json x = true -> run E Sync n v x = OValid w -> In (kind_of x) (jk v).
  Proof.
    induction v using validator_ind'; intros Hf n x w Hx Hr; cbn [frag] in Hf; try discriminate;
      (destruct n as [|n]; [discriminate|]); cbn [run step] in Hr; cbn [jk].
    - (* Scalar *)
      destruct co; try discriminate. destruct pre; try discriminate. destruct aps; try discriminate.
      apply scalar_accept in Hr. destruct Hr as [_ [y [Hg _]]]. unfold gate in Hg.
      destruct (exact_type x (ktype k)) eqn:Ex; [|discriminate].
      unfold scalar_ok in Hf. apply andb_prop in Hf. destruct Hf as [Hf _]. apply andb_prop in Hf. destruct Hf as [Hk _].
      destruct k; try discriminate Hk; destruct x; cbn in Ex; try discriminate Ex; left; reflexivity.
    - (* EqualsV *)
      destruct pre; try discriminate. apply equals_accept in Hr. destruct Hr as [Ex _].
      destruct (val_kind m) as [k|] eqn:Ek; [|discriminate].
      destruct m; try discriminate Ek; destruct x; cbn in Ex; try discriminate Ex; left; reflexivity.
    - (* IsDictV *)
      destruct x; try discriminate Hx; try (left; reflexivity); exfalso; cbn in Hr; discriminate Hr.
    - (* ListV *)
      destruct aps; try discriminate. destruct co; try discriminate.
      destruct x; try discriminate Hx; try (left; reflexivity); exfalso; cbn in Hr; discriminate Hr.
    - (* UTupleV *)
      destruct aps; try discriminate. destruct co as [[]|]; try discriminate.
      destruct x; try discriminate Hx; try (left; reflexivity); exfalso; cbn in Hr; discriminate Hr.
    - (* NTupleV *)
      destruct vobj; try discriminate. destruct co as [[]|]; try discriminate.
      destruct x; try discriminate Hx; try (left; reflexivity); exfalso; cbn in Hr; discriminate Hr.
    - (* MapV *)
      destruct x; try discriminate Hx; try (left; reflexivity); exfalso;
        destruct v1; try discriminate Hf; destruct k; try discriminate Hf; destruct co0; try discriminate Hf;
        destruct pre; try discriminate Hf; destruct ps0; try discriminate Hf; destruct aps0; try discriminate Hf;
        destruct aps; try discriminate Hf; destruct co; try discriminate Hf; cbn in Hr; discriminate Hr.
    - (* RecordV *)
      destruct vobj; try discriminate. destruct avobj; try discriminate.
      destruct x; try discriminate Hx; try (left; reflexivity); exfalso; cbn in Hr; discriminate Hr.
    - (* DictAnyV *)
      destruct vobj; try discriminate. destruct avobj; try discriminate.
      destruct x; try discriminate Hx; try (left; reflexivity); exfalso; cbn in Hr; discriminate Hr.
    - (* ClassV *)
      destruct vobj; try discriminate. destruct avobj; try discriminate. destruct co; try discriminate.
      destruct x; try discriminate Hx; try (left; reflexivity); exfalso; destruct rk; cbn in Hr; discriminate Hr.
    - (* UnionV *)
      apply andb_prop in Hf. destruct Hf as [Hfs _].
      apply union_accept in Hr. destruct Hr as [pre [v0 [post [-> [Hv _]]]]].
      apply in_flat_map. exists v0. split; [apply in_or_app; right; left; reflexivity|].
      rewrite Forall_forall in H. rewrite forallb_forall in Hfs.
      assert (Hin : In v0 (pre ++ v0 :: post)) by (apply in_or_app; right; left; reflexivity).
      apply (H v0 Hin (Hfs v0 Hin) n x w Hx Hv).
    - (* OptionalV *)
      destruct v1; try discriminate. destruct co; try discriminate.
      apply union_accept in Hr. destruct Hr as [pre [v0 [post [Hvs [Hv _]]]]].
      destruct pre as [|p0 pre]; cbn [app] in Hvs.
      + injection Hvs as <- _. destruct n; [discriminate|]. cbn [run step] in Hv. unfold none_body in Hv.
        destruct x; try discriminate. left; reflexivity.
      + injection Hvs as _ Hrest. destruct pre; cbn [app] in Hrest; [|destruct pre; discriminate].
        injection Hrest as <- _. right. apply (IHv2 Hf n x w Hx Hv).
    - (* KeyNotRequired *)
      unfold knr_body in Hr. destruct (run E Sync n v x) eqn:Er; try discriminate. apply (IHv Hf n x w0 Hx Er).
    - (* CacheV *) apply (IHv Hf n x w Hx Hr).
  Qed.

  Lemma union_agree_excl n x : is_json x = true -> forall vs js self,
      Forall2 (child_agree n) vs js ->
      (forall l1 a l2, vs = l1 ++ a :: l2 -> (exists w, run E Sync n a x = OValid w) ->
                       forall b, In b l2 -> forall w', run E Sync n b x <> OValid w') ->
      agree (Nat.eqb (List.length (filter (fun s1 => sat s1 x) js)) 1) (union_body (run E Sync n) self vs x).
  Proof.
    intros Hx vs js self HF. induction HF as [|v j vs js Hvj HF IH]; intros Hex.
    - cbn. eexists; reflexivity.
    - pose proof (Hvj x Hx) as Ha. cbn [filter]. destruct (sat j x) eqn:Ej; cbn [agree] in Ha.
      + destruct Ha as [w Hw].
        assert (Hnone : filter (fun s1 => sat s1 x) js = []).
        { assert (Hb : forall b, In b vs -> forall w', run E Sync n b x <> OValid w').
          { intros b Hb. apply (Hex [] v vs eq_refl (ex_intro _ w Hw) b Hb). }
          clear - HF Hb Hx. induction HF as [|v0 j0 vs js Hv0 HF IH]; [reflexivity|].
          cbn [filter]. pose proof (Hv0 x Hx) as Ha0. destruct (sat j0 x); cbn [agree] in Ha0.
          - destruct Ha0 as [w0 Hw0]. exfalso. apply (Hb v0 (or_introl eq_refl) w0 Hw0).
          - apply IH. intros b Hin. apply Hb. right. exact Hin. }
        rewrite Hnone. cbn [List.length Nat.eqb agree]. unfold union_body. cbn [map run_calls]. rewrite Hw. cbn. eexists; reflexivity.
      + destruct Ha as [i Hi].
        assert (IH' := IH (fun l1 a l2 Heq => Hex (v :: l1) a l2 (f_equal (cons v) Heq))).
        unfold union_body in *. cbn [map run_calls]. rewrite Hi. cbn [collect_union].
        destruct (collect_union (run_calls true (run E Sync n) (map (fun v0 => (v0, x)) vs))) as [o|errs];
          destruct (Nat.eqb (List.length (filter (fun s1 => sat s1 x) js)) 1); cbn [agree] in *;
            try exact IH'; destruct IH' as [z Hz]; try discriminate; eexists; reflexivity.
  Qed.

  Theorem frag_agree : forall v,
      frag v = true -> forall n, (vheight v < n)%nat -> forall x, is_json x = true ->
      exists d, to_schema text_of named v = Ok (JObj d) /\ agree (sat (JObj d) x) (run E Sync n v x).
  Proof.
    induction v using validator_ind'; intros Hf n Hn x Hx; cbn [frag] in Hf; try discriminate;
      (destruct n as [|n]; [lia|]); cbn [run step].
    - (* Scalar *)
      destruct co; try discriminate. destruct pre; try discriminate. destruct aps; try discriminate.
      destruct (scalar_agree (Scalar k None [] ps []) k ps x Hf Hx) as [j [Ej Hj]].
      assert (exists d, j = JObj d) as [d ->].
      { unfold scalar_ok in Hf. apply andb_prop in Hf. destruct Hf as [Hf _]. apply andb_prop in Hf. destruct Hf as [Hk _].
        cbn [to_schema] in Ej. destruct k; try discriminate; cbn [kind_type base_of_type pbind] in Ej;
          (destruct (preds_update _ _ ps); cbn [pbind apreds_schema] in Ej; [|discriminate]; injection Ej as <-; eexists; reflexivity). }
      exists d. split; assumption.
    - (* EqualsV *)
      destruct pre; try discriminate. destruct (val_kind m) as [k|] eqn:Ek; [|discriminate].
      destruct (val_kind_of m k Ek) as [Hk [Hm Ht]].
      destruct (choice_json_kind k m Hk Hm) as [j [Ej Vj]].
      assert (Hb : base_of_type (type_of m) = Ok [(lit "type", JStr (tname k))]).
      { rewrite Ht. destruct k; try discriminate; reflexivity. }
      cbn [to_schema pred_schema]. rewrite Hb, Ej. cbn [pbind].
      rewrite obj_update_fresh by reflexivity. cbn [app].
      eexists; split; [reflexivity|].
      cbn [SchemaSat.sat]. unfold nullable. rewrite obj_get_none by reflexivity. cbn [andb orb forallb].
      unfold entry_sat. kwd. rewrite (type_sat_kind k x Hk Hx), <- Ht.
      unfold equals_body. destruct (exact_type x (type_of m)) eqn:Ex; cbn [andb].
      + rewrite Ht in Ex. pose proof (exact_of_kind k x Hk Hx Ex) as Hof.
        cbn [procs_apply existsb]. unfold jeq. rewrite Vj, (jv_eq_py_eq k x m Hk Hof Hm), orb_false_r, andb_true_r.
        assert (Hp : py_eq_p x m = Ok (py_eq x m)).
        { destruct k; try discriminate; destruct x; try discriminate; destruct m; try discriminate; reflexivity. }
        rewrite Hp. destruct (py_eq x m); cbn [agree]; eexists; reflexivity.
      + cbn [agree]. eexists; reflexivity.
    - (* IsDictV *)
      eexists; split; [reflexivity|].
      destruct x; try discriminate; cbn; eexists; reflexivity.
    - (* ListV *)
      destruct aps; try discriminate. destruct co; try discriminate.
      apply andb_prop in Hf. destruct Hf as [Hf Hu]. apply andb_prop in Hf. destruct Hf as [Hfi Hps].
      cbn [vheight] in Hn.
      destruct (IHv Hfi (S (vheight v)) (Nat.lt_succ_diag_r _) VNone eq_refl) as [dj [Ej _]].
      cbn [to_schema]. rewrite Ej. cbn [pbind].
      rewrite (preds_update_flat _ _ count_class ps _ Hps) by exact Hu. cbn [pbind apreds_schema app].
      eexists; split; [reflexivity|].
      set (d := (lit "type", JStr (lit "array")) :: (lit "items", JObj dj) :: flat_entries ps).
      assert (Hnull : nullable d = false).
      { unfold nullable. rewrite obj_get_none; [reflexivity|]. subst d. cbn [forallb].
        fold (not_key knull). rewrite (flat_entries_not ps). reflexivity. }
      cbn [SchemaSat.sat]. rewrite Hnull. cbn [andb orb]. subst d. cbn [forallb].
      unfold entry_sat at 1 2. kwd.
      unfold list_body, seq_body. cbn [mode_eqb nonempty andb gate].
      destruct x; try discriminate; try (cbn; eexists; reflexivity).
      change (exact_type (VList xs) TList) with true. cbn iota.
      destruct (preds_sat _ _ count_class ps (VList xs)
                          ((lit "type", JStr (lit "array")) :: (lit "items", JObj dj) :: flat_entries ps) Hps eq_refl)
        as [fs [F1 F2]].
      unfold pred_stage, all_failing. rewrite F1. cbn [pbind]. rewrite F2.
      change (type_sat (lit "array") (VList xs)) with true. cbn [andb].
      destruct fs as [|f0 fs]; [|rewrite andb_false_r; cbn [agree]; eexists; reflexivity].
      rewrite andb_true_r. cbn [py_iter unsub].
      assert (Hitems : forall xi, In xi xs -> agree (sat (JObj dj) xi) (run E Sync n v xi)).
      { intros xi Hin. cbn [is_json] in Hx. rewrite forallb_forall in Hx.
        destruct (IHv Hfi n ltac:(lia) xi (Hx xi Hin)) as [dj' [Ej' Hj']].
        rewrite Ej in Ej'. injection Ej' as <-. exact Hj'. }
      destruct (collect_items_agree (run E Sync n) v (sat (JObj dj)) xs 0%nat Hitems) as [ws [errs [C1 C2]]].
      rewrite C1, <- C2. destruct errs; cbn [agree]; eexists; reflexivity.
    - (* UTupleV *)
      destruct aps; try discriminate. destruct co as [[]|]; try discriminate.
      apply andb_prop in Hf. destruct Hf as [Hf Hu]. apply andb_prop in Hf. destruct Hf as [Hfi Hps].
      cbn [vheight] in Hn.
      destruct (IHv Hfi (S (vheight v)) (Nat.lt_succ_diag_r _) VNone eq_refl) as [dj [Ej _]].
      cbn [to_schema]. rewrite Ej. cbn [pbind].
      rewrite (preds_update_flat _ _ count_class ps _ Hps) by exact Hu. cbn [pbind apreds_schema app].
      eexists; split; [reflexivity|].
      set (d := (lit "type", JStr (lit "array")) :: (lit "items", JObj dj) :: flat_entries ps).
      assert (Hnull : nullable d = false).
      { unfold nullable. rewrite obj_get_none; [reflexivity|]. subst d. cbn [forallb].
        fold (not_key knull). rewrite (flat_entries_not ps). reflexivity. }
      cbn [SchemaSat.sat]. rewrite Hnull. cbn [andb orb]. subst d. cbn [forallb].
      unfold entry_sat at 1 2. kwd.
      unfold utuple_body, seq_body. cbn [mode_eqb nonempty andb gate coerce_apply].
      destruct x; try discriminate; try (cbn; eexists; reflexivity).
      destruct (count_preds_tuple ps xs ((lit "type", JStr (lit "array")) :: (lit "items", JObj dj) :: flat_entries ps) Hps)
        as [fs [F1 F2]].
      unfold pred_stage, all_failing. rewrite F1. cbn [pbind]. rewrite F2.
      change (type_sat (lit "array") (VList xs)) with true. cbn [andb].
      destruct fs as [|f0 fs]; [|rewrite andb_false_r; cbn [agree]; eexists; reflexivity].
      rewrite andb_true_r. cbn [py_iter unsub].
      assert (Hitems : forall xi, In xi xs -> agree (sat (JObj dj) xi) (run E Sync n v xi)).
      { intros xi Hin. cbn [is_json] in Hx. rewrite forallb_forall in Hx.
        destruct (IHv Hfi n ltac:(lia) xi (Hx xi Hin)) as [dj' [Ej' Hj']].
        rewrite Ej in Ej'. injection Ej' as <-. exact Hj'. }
      destruct (collect_items_agree (run E Sync n) v (sat (JObj dj)) xs 0%nat Hitems) as [ws [errs [C1 C2]]].
      rewrite C1, <- C2. destruct errs; cbn [agree]; eexists; reflexivity.
    - (* NTupleV *)
      destruct vobj; try discriminate. destruct co as [[]|]; try discriminate.
      cbn [vheight] in Hn.
      assert (Hjs : exists js, many_of (Schema.to_schema text_of named) fields = Ok js /\
                               List.length js = List.length fields /\
                               Forall2 (child_agree n) fields js).
      { assert (Hall : forall f, In f fields -> (vheight f < n)%nat).
        { intros f Hin. apply (list_max_lt (map vheight fields) n (vheight f)); [lia | apply in_map; exact Hin]. }
        clear x Hx Hn. revert Hf Hall. induction H as [|f fs Hf0 HFs IHfs]; intros Hf Hall.
        - exists []. repeat split; constructor.
        - cbn [forallb] in Hf. apply andb_prop in Hf. destruct Hf as [Hff Hffs].
          destruct (Hf0 Hff (S (vheight f)) (Nat.lt_succ_diag_r _) VNone eq_refl) as [d0 [Ed0 _]].
          destruct (IHfs Hffs (fun g Hg => Hall g (or_intror Hg))) as [js [Ejs [Hlen HF2]]].
          exists (JObj d0 :: js). cbn [many_of]. rewrite Ed0. cbn [pbind]. fold (many_of (Schema.to_schema text_of named)).
          rewrite Ejs. cbn [pbind]. split; [reflexivity|]. split; [cbn; rewrite Hlen; reflexivity|].
          constructor; [|exact HF2]. intros x Hx. destruct (Hf0 Hff n (Hall f (or_introl eq_refl)) x Hx) as [d1 [Ed1 Ha]].
          rewrite Ed0 in Ed1. injection Ed1 as <-. exact Ha. }
      destruct Hjs as [js [Ejs [Hlen HF2]]].
      change (Schema.to_schema text_of named (NTupleV fields None (Some CoTupleOrList)))
        with (pbind (many_of (Schema.to_schema text_of named) fields) (fun js =>
              let k := Z.of_nat (List.length fields) in
              Ok (JObj [(lit "description", JStr (text text_of TkNtuple (VInt k)));
                        (lit "type", JStr (lit "array")); (lit "additionalItems", JBool false);
                        (lit "maxItems", JInt k); (lit "minItems", JInt k);
                        (lit "prefixItems", JArr js)]))).
      rewrite Ejs. cbn [pbind]. eexists; split; [reflexivity|].
      cbn [SchemaSat.sat]. unfold nullable. rewrite obj_get_none by reflexivity. cbn [andb orb forallb].
      unfold entry_sat. kwd.
      unfold ntuple_body. cbn [gate coerce_apply].
      destruct x; try discriminate; try (cbn; eexists; reflexivity).
      cbn [pred_eval py_len unsub pbind py_iter]. change (type_sat (lit "array") (VList xs)) with true. cbn [andb].
      unfold zlen. rewrite andb_true_r.
      destruct (Z.eqb_spec (Z.of_nat (List.length xs)) (Z.of_nat (List.length fields))) as [Heq|Hne].
      + assert (Hl : List.length xs = List.length fields) by lia.
        cbn [is_json] in Hx.
        destruct (collect_items_agree2 n fields js xs 0%nat HF2 Hl Hx) as [ws [errs [C1 C2]]].
        rewrite C1, <- C2. rewrite Heq, Z.leb_refl. cbn [andb].
        destruct errs; cbn [agree obj_stage]; eexists; reflexivity.
      + assert (Hb : (Z.of_nat (List.length xs) <=? Z.of_nat (List.length fields))
                     && ((Z.of_nat (List.length fields) <=? Z.of_nat (List.length xs)) && prefix_sat sat js xs) = false).
        { destruct (Z.leb_spec (Z.of_nat (List.length xs)) (Z.of_nat (List.length fields))); [|reflexivity].
          destruct (Z.leb_spec (Z.of_nat (List.length fields)) (Z.of_nat (List.length xs))); [lia | reflexivity]. }
        rewrite Hb. cbn [agree]. eexists; reflexivity.
    - (* MapV *)
      destruct v1; try discriminate. destruct k; try discriminate. destruct co0; try discriminate.
      destruct pre; try discriminate. destruct ps0; try discriminate. destruct aps0; try discriminate.
      destruct aps; try discriminate. destruct co; try discriminate.
      apply andb_prop in Hf. destruct Hf as [Hf Hu]. apply andb_prop in Hf. destruct Hf as [Hfv Hps].
      cbn [vheight] in Hn. destruct n as [|n]; [lia|].
      destruct (IHv2 Hfv (S (vheight v2)) (Nat.lt_succ_diag_r _) VNone eq_refl) as [dj [Ej _]].
      cbn [to_schema]. rewrite Ej. cbn [pbind].
      rewrite (preds_update_flat _ _ keys_class ps _ Hps) by exact Hu. cbn [pbind apreds_schema app].
      eexists; split; [reflexivity|].
      set (d := (lit "type", JStr (lit "object")) :: (lit "additionalProperties", JObj dj) :: flat_entries ps).
      assert (Hnull : nullable d = false).
      { unfold nullable. rewrite obj_get_none; [reflexivity|]. subst d. cbn [forallb].
        fold (not_key knull). rewrite (flat_entries_not ps). reflexivity. }
      assert (Hprops : obj_get d (lit "properties") = None).
      { apply obj_get_none. subst d. cbn [forallb]. fold (not_key kprops). rewrite (flat_entries_not_props ps). reflexivity. }
      cbn [SchemaSat.sat]. rewrite Hnull. cbn [andb orb]. subst d. cbn [forallb].
      unfold entry_sat at 1 2. kwd.
      unfold map_body. cbn [mode_eqb nonempty andb gate].
      destruct x; try discriminate; try (cbn; eexists; reflexivity).
      change (exact_type (VDict kvs) TDict) with true. cbn iota.
      destruct (preds_sat _ _ keys_class ps (VDict kvs)
                          ((lit "type", JStr (lit "object")) :: (lit "additionalProperties", JObj dj) :: flat_entries ps) Hps eq_refl)
        as [fs [F1 F2]].
      unfold pred_stage, all_failing. rewrite F1. cbn [pbind]. rewrite F2.
      change (type_sat (lit "object") (VDict kvs)) with true. cbn [andb].
      destruct fs as [|f0 fs]; [|rewrite andb_false_r; cbn [agree]; eexists; reflexivity].
      rewrite andb_true_r. cbn [as_dict unsub]. rewrite collect_map_ref.
      cbn [is_json] in Hx.
      assert (Hkeys : forallb (fun kv => is_str (fst kv)) kvs = true).
      { apply forallb_forall. intros [k0 v0] Hin. rewrite forallb_forall in Hx. specialize (Hx _ Hin). cbn [fst snd] in *.
        destruct k0; try discriminate. reflexivity. }
      assert (Hvals : forall kv, In kv kvs -> agree (sat (JObj dj) (snd kv)) (run E Sync (S n) v2 (snd kv))).
      { intros [k0 v0] Hin. rewrite forallb_forall in Hx. specialize (Hx _ Hin). cbn [fst snd] in *.
        destruct k0; try discriminate.
        destruct (IHv2 Hfv (S n) ltac:(lia) v0 Hx) as [dj' [Ej' Hj']]. rewrite Ej in Ej'. injection Ej' as <-. exact Hj'. }
      destruct (map_ref_agree n v2 (sat (JObj dj)) kvs [] [] Hkeys Hvals) as [acc' [errs' [M1 M2]]].
      fold kstr. rewrite M1. cbn [andb] in M2.
      assert (Hadd : forallb (fun e => match fst e with
                                       | VStr k' => in_props ((lit "type", JStr (lit "object")) :: (lit "additionalProperties", JObj dj) :: flat_entries ps) k'
                                                    || sat (JObj dj) (snd e)
                                       | _ => false
                                       end) kvs
                     = forallb (fun kv => sat (JObj dj) (snd kv)) kvs).
      { apply forallb_ext_in. intros [k0 v0] Hin. cbn [fst snd].
        rewrite forallb_forall in Hkeys. specialize (Hkeys _ Hin). cbn [fst] in Hkeys. destruct k0; try discriminate.
        rewrite (in_props_none _ _ Hprops). reflexivity. }
      rewrite Hadd, <- M2. destruct errs'; cbn [agree]; eexists; reflexivity.
    - (* RecordV *)
      destruct vobj; try discriminate. destruct avobj; try discriminate.
      apply andb_prop in Hf. destruct Hf as [Hfs Hu]. cbn [vheight] in Hn.
      assert (Hstr : forallb (fun kv : pyval * validator => is_str (fst kv)) keys = true).
      { apply forallb_forall. intros kv Hin. rewrite forallb_forall in Hfs. specialize (Hfs kv Hin). apply andb_prop in Hfs. apply Hfs. }
      assert (HA : Forall agrees (map snd keys)).
      { apply Forall_map. rewrite Forall_forall in H. apply Forall_forall. intros kv Hin.
        rewrite forallb_forall in Hfs. specialize (Hfs kv Hin). apply andb_prop in Hfs. destruct Hfs as [_ Hfk].
        intros m Hm y Hy. apply (H kv Hin Hfk m Hm y Hy). }
      assert (Hh : forall f, In f (map snd keys) -> (vheight f < n)%nat).
      { intros f Hin. apply (list_max_lt (map (fun kv => vheight (snd kv)) keys) n (vheight f)); [lia|].
        apply in_map_iff in Hin. destruct Hin as [kv [<- Hin]]. apply in_map_iff. exists kv. split; [reflexivity | exact Hin]. }
      destruct (many_of_agree n (map snd keys) HA Hh) as [js [Ejs [Hlen HF2]]].
      change (to_schema text_of named (RecordV keys into None None strict))
        with (pbind (many_k_of (to_schema text_of named) keys) (fun js =>
              Ok (object_schema strict
                    (map (fun kv => key_label text_of (fst kv)) (filter (fun kv => negb (is_knr (snd kv))) keys))
                    (props_of (map (fun kv => key_label text_of (fst kv)) keys) js)))).
      rewrite many_k_map, Ejs. cbn [pbind]. eexists; split; [reflexivity|]. fold_obj.
      rewrite (labels_eq keys Hstr).
      unfold props_of. rewrite (props_of_combine _ js []) by (cbn [map app]; exact Hu). cbn [app].
      rewrite (required_labels (fun v => v) keys Hstr).
      unfold record_body. cbn [mode_eqb has_some andb].
      destruct x; try discriminate; try (rewrite sat_object_nondict by (try exact I; exact Hx); cbn; eexists; reflexivity).
      rewrite map_length in Hlen. cbn [is_json] in Hx.
      change (isinstance (ckind E) (VDict kvs) TDict) with true. cbn [negb as_dict unsub].
      fold (record_keys keys).
      set (rkeys := record_keys keys) in *.
      assert (Hkstr : forallb (fun key : pyval * (validator * bool) => is_str (fst key)) rkeys = true).
      { subst rkeys. unfold record_keys. rewrite forallb_map. exact Hstr. }
      assert (Hdk : forallb (fun kv : pyval * pyval => match fst kv with VStr _ => true | _ => false end) kvs = true).
      { apply forallb_forall. intros [k0 v0] Hin. rewrite forallb_forall in Hx. specialize (Hx _ Hin). cbn [fst snd] in *. destruct k0; try discriminate. reflexivity. }
      assert (Hlab : map (fun kv : pyval * validator => skey (fst kv)) keys = map (fun key : pyval * (validator * bool) => skey (fst key)) rkeys).
      { subst rkeys. unfold record_keys. rewrite map_map. reflexivity. }
      assert (Hfst : map fst rkeys = map fst keys) by (subst rkeys; unfold record_keys; rewrite map_map; reflexivity).
      rewrite Hlab, (sat_record strict rkeys js kvs) by (try exact Hkstr; try exact Hdk; subst rkeys; unfold record_keys; rewrite map_length; symmetry; exact Hlen).
      rewrite Hfst.
      destruct (strict && has_unknown_key (map fst keys) kvs); cbn [negb andb]; [cbn [agree]; eexists; reflexivity|].
      rewrite keys_loop_ref.
      assert (HFk : Forall2 (fun key j => forall xv, is_json xv = true -> agree (sat j xv) (run E Sync n (fst (snd key)) xv)) rkeys js).
      { subst rkeys. unfold record_keys. clear - HF2. revert js HF2. induction keys as [|[k v] keys IH]; intros js HF2.
        - inversion HF2; subst. constructor.
        - cbn [map] in *. inversion HF2 as [|? j ? js0 Ha HFa]; subst.
          constructor; [|apply IH; assumption]. cbn [fst snd]. exact Ha. }
      destruct (keys_ref_agree (run E Sync n) (RecordV keys into None None strict) AbsNothing kvs (VDict kvs) Hx rkeys js HFk) as [ws [errs [K1 K2]]].
      rewrite K1, <- K2. destruct errs; cbn [agree obj_stage]; eexists; reflexivity.
    - (* DictAnyV *)
      destruct vobj; try discriminate. destruct avobj; try discriminate.
      apply andb_prop in Hf. destruct Hf as [Hfs Hu]. cbn [vheight] in Hn.
      assert (Hstr : forallb (fun kv : pyval * validator => is_str (fst kv)) schema = true).
      { apply forallb_forall. intros kv Hin. rewrite forallb_forall in Hfs. specialize (Hfs kv Hin). apply andb_prop in Hfs. apply Hfs. }
      assert (HA : Forall agrees (map snd schema)).
      { apply Forall_map. rewrite Forall_forall in H. apply Forall_forall. intros kv Hin.
        rewrite forallb_forall in Hfs. specialize (Hfs kv Hin). apply andb_prop in Hfs. destruct Hfs as [_ Hfk].
        intros m Hm y Hy. apply (H kv Hin Hfk m Hm y Hy). }
      assert (Hh : forall f, In f (map snd schema) -> (vheight f < n)%nat).
      { intros f Hin. apply (list_max_lt (map (fun kv => vheight (snd kv)) schema) n (vheight f)); [lia|].
        apply in_map_iff in Hin. destruct Hin as [kv [<- Hin]]. apply in_map_iff. exists kv. split; [reflexivity | exact Hin]. }
      destruct (many_of_agree n (map snd schema) HA Hh) as [js [Ejs [Hlen HF2]]].
      destruct (many_of_agree (S n) (map snd schema) HA (fun f Hin => Nat.lt_lt_succ_r _ _ (Hh f Hin))) as [js' [Ejs' [_ HF2']]].
      rewrite Ejs in Ejs'. injection Ejs' as <-.
      change (to_schema text_of named (DictAnyV schema None None strict))
        with (pbind (many_k_of (to_schema text_of named) schema) (fun js =>
              Ok (object_schema strict
                    (map (fun kv => key_label text_of (fst kv)) (filter (fun kv => negb (is_knr (snd kv))) schema))
                    (props_of (map (fun kv => key_label text_of (fst kv)) schema) js)))).
      rewrite many_k_map, Ejs. cbn [pbind]. eexists; split; [reflexivity|]. fold_obj.
      rewrite (labels_eq schema Hstr).
      unfold props_of. rewrite (props_of_combine _ js []) by (cbn [map app]; exact Hu). cbn [app].
      rewrite (required_labels unwrap_knr schema Hstr).
      unfold dictany_body. cbn [mode_eqb has_some andb].
      destruct x; try (rewrite sat_object_nondict by (try exact I; exact Hx); cbn [agree]; eexists; reflexivity).
      rewrite map_length in Hlen.
      cbn [is_json] in Hx.
      set (keys := map (fun kv => (fst kv, (unwrap_knr (snd kv), is_required_marker (snd kv)))) schema) in *.
      assert (Hkstr : forallb (fun key : pyval * (validator * bool) => is_str (fst key)) keys = true).
      { subst keys. rewrite forallb_map. exact Hstr. }
      assert (Hdk : forallb (fun kv : pyval * pyval => match fst kv with VStr _ => true | _ => false end) kvs = true).
      { apply forallb_forall. intros [k0 v0] Hin. rewrite forallb_forall in Hx. specialize (Hx _ Hin). cbn [fst snd] in *. destruct k0; try discriminate. reflexivity. }
      assert (Hlab : map (fun kv : pyval * validator => skey (fst kv)) schema = map (fun key : pyval * (validator * bool) => skey (fst key)) keys).
      { subst keys. rewrite map_map. reflexivity. }
      assert (Hfst : map fst keys = map fst schema) by (subst keys; rewrite map_map; reflexivity).
      rewrite Hlab, (sat_record strict keys js kvs) by (try exact Hkstr; try exact Hdk; subst keys; rewrite map_length; symmetry; exact Hlen).
      rewrite Hfst.
      destruct (strict && has_unknown_key (map fst schema) kvs); cbn [negb andb]; [cbn [agree]; eexists; reflexivity|].
      rewrite keys_loop_ref. fold (dictany_keys schema). change (dictany_keys schema) with keys.
      assert (HFk : Forall2 (fun key j => forall xv, is_json xv = true -> agree (sat j xv) (run E Sync n (fst (snd key)) xv)) keys js).
      { subst keys. clear - HF2 HF2'. revert js HF2 HF2'. induction schema as [|[k v] schema IH]; intros js HF2 HF2'.
        - inversion HF2; subst. constructor.
        - cbn [map] in *. inversion HF2 as [|? j ? js0 Ha HFa]; subst. inversion HF2' as [|? ? ? ? Ha' HFa']; subst.
          constructor; [|apply IH; assumption]. cbn [fst snd]. intros xv Hxv.
          destruct v; cbn [unwrap_knr]; try apply (Ha xv Hxv). apply knr_agree. apply (Ha' xv Hxv). }
      destruct (keys_ref_agree (run E Sync n) (DictAnyV schema None None strict) AbsOmit kvs (VDict kvs) Hx keys js HFk) as [ws [errs [K1 K2]]].
      rewrite K1, <- K2. destruct errs; cbn [agree obj_stage]; eexists; reflexivity.
    - (* ClassV *)
      destruct vobj; try discriminate. destruct avobj; try discriminate. destruct co; try discriminate.
      apply andb_prop in Hf. destruct Hf as [Hfs Hu]. cbn [vheight] in Hn.
      assert (Hstr : forallb (fun key : pyval * (validator * bool) => is_str (fst key)) schema = true).
      { apply forallb_forall. intros kv Hin. rewrite forallb_forall in Hfs. specialize (Hfs kv Hin). apply andb_prop in Hfs. apply Hfs. }
      assert (HA : Forall agrees (map (fun kv => fst (snd kv)) schema)).
      { apply Forall_map. rewrite Forall_forall in H. apply Forall_forall. intros kv Hin.
        rewrite forallb_forall in Hfs. specialize (Hfs kv Hin). apply andb_prop in Hfs. destruct Hfs as [_ Hfk].
        intros m Hm y Hy. apply (H kv Hin Hfk m Hm y Hy). }
      assert (Hh : forall f, In f (map (fun kv => fst (snd kv)) schema) -> (vheight f < n)%nat).
      { intros f Hin. apply (list_max_lt (map (fun kv => vheight (fst (snd kv))) schema) n (vheight f)); [lia|].
        apply in_map_iff in Hin. destruct Hin as [kv [<- Hin]]. apply in_map_iff. exists kv. split; [reflexivity | exact Hin]. }
      destruct (many_of_agree n _ HA Hh) as [js [Ejs [Hlen HF2]]].
      change (to_schema text_of named (ClassV rk c schema None None strict None))
        with (pbind (many_c_of (to_schema text_of named) schema) (fun js =>
              let req := map (fun kv => key_label text_of (fst kv)) (filter (fun kv => snd (snd kv)) schema) in
              Ok (object_schema strict
                    (match rk with RkTyped => sort_strings req | _ => req end)
                    (props_of (map (fun kv => key_label text_of (fst kv)) schema) js)))).
      rewrite many_c_map, Ejs. cbn [pbind]. eexists; split; [reflexivity|]. fold_obj.
      assert (Hlabels : map (fun kv : pyval * (validator * bool) => key_label text_of (fst kv)) schema
                        = map (fun key : pyval * (validator * bool) => skey (fst key)) schema).
      { clear - Hstr. induction schema as [|[k0 vr] schema IH]; [reflexivity|].
        cbn [forallb fst] in Hstr. apply andb_prop in Hstr. destruct Hstr as [Hk Hs].
        cbn [map fst]. rewrite (key_label_str k0 Hk), (IH Hs). reflexivity. }
      assert (Hreq : map (fun kv : pyval * (validator * bool) => key_label text_of (fst kv)) (filter (fun kv => snd (snd kv)) schema)
                     = map (fun key : pyval * (validator * bool) => skey (fst key)) (filter (fun key => snd (snd key)) schema)).
      { clear - Hstr. induction schema as [|[k0 [v0 r0]] schema IH]; [reflexivity|].
        cbn [forallb fst] in Hstr. apply andb_prop in Hstr. destruct Hstr as [Hk Hs].
        cbn [filter snd]. destruct r0; cbn [map fst]; rewrite (IH Hs); [rewrite (key_label_str k0 Hk)|]; reflexivity. }
      cbv zeta. rewrite Hlabels, Hreq.
      unfold props_of. rewrite (props_of_combine _ js []) by (cbn [map app]; exact Hu). cbn [app].
      unfold class_body. cbn [mode_eqb has_some andb].
      rewrite map_length in Hlen.
      assert (Hgate_nd : match x with VDict _ => False | _ => True end ->
                         exists e, class_gate E rk c None x = inl e).
      { intros Hnd. unfold class_gate. destruct x; try contradiction; try discriminate; destruct rk; eexists; reflexivity. }
      destruct x; try discriminate; try (destruct (Hgate_nd I) as [e0 ->]; rewrite sat_object_nondict by (try exact I; exact Hx); cbn; eexists; reflexivity).
      cbn [class_gate as_dict unsub]. cbn [is_json] in Hx.
      assert (Hdk : forallb (fun kv : pyval * pyval => match fst kv with VStr _ => true | _ => false end) kvs = true).
      { apply forallb_forall. intros [k0 v0] Hin. rewrite forallb_forall in Hx. specialize (Hx _ Hin). cbn [fst snd] in *. destruct k0; try discriminate. reflexivity. }
      assert (Hsat : sat (object_schema strict
                            match rk with
                            | RkTyped => sort_strings (map (fun key : pyval * (validator * bool) => skey (fst key)) (filter (fun key => snd (snd key)) schema))
                            | _ => map (fun key : pyval * (validator * bool) => skey (fst key)) (filter (fun key => snd (snd key)) schema)
                            end
                            (combine (map (fun key : pyval * (validator * bool) => skey (fst key)) schema) js)) (VDict kvs)
                     = negb (strict && has_unknown_key (map fst schema) kvs) && keys_ok kvs schema js).
      { rewrite <- (sat_record strict schema js kvs (eq_sym Hlen) Hstr Hdk).
        destruct rk; try reflexivity.
        rewrite !sat_object by (rewrite map_length; symmetry; exact Hlen). rewrite forallb_sort_strings. reflexivity. }
      rewrite Hsat.
      destruct (strict && has_unknown_key (map fst schema) kvs); cbn [negb andb]; [cbn [agree]; eexists; reflexivity|].
      rewrite keys_loop_ref.
      assert (HFk : Forall2 (fun key j => forall xv, is_json xv = true -> agree (sat j xv) (run E Sync n (fst (snd key)) xv)) schema js).
      { clear - HF2. revert js HF2. induction schema as [|[k0 [v0 r0]] schema IH]; intros js HF2.
        - inversion HF2; subst. constructor.
        - cbn [map] in *. inversion HF2 as [|? j ? js0 Ha HFa]; subst.
          constructor; [|apply IH; assumption]. cbn [fst snd]. exact Ha. }
      destruct (keys_ref_agree (run E Sync n) (ClassV rk c schema None None strict None) AbsOmit kvs (VDict kvs) Hx schema js HFk) as [ws [errs [K1 K2]]].
      rewrite K1, <- K2. destruct errs; cbn [agree obj_stage]; [|eexists; reflexivity].
      destruct rk; eexists; reflexivity.
    - (* UnionV *)
      apply andb_prop in Hf. destruct Hf as [Hfs Hnd]. cbn [vheight] in Hn.
      assert (HA : Forall agrees vs).
      { rewrite Forall_forall in H |- *. intros f Hin m Hm y Hy. rewrite forallb_forall in Hfs. apply (H f Hin (Hfs f Hin) m Hm y Hy). }
      assert (Hh : forall f, In f vs -> (vheight f < n)%nat).
      { intros f Hin. apply (list_max_lt (map vheight vs) n); [lia | apply in_map; exact Hin]. }
      destruct (many_of_agree n vs HA Hh) as [js [Ejs [Hlen HF2]]].
      change (to_schema text_of named (UnionV vs))
        with (pbind (many_of (to_schema text_of named) vs) (fun js0 => Ok (JObj [(lit "oneOf", JArr js0)]))).
      rewrite Ejs. cbn [pbind]. eexists; split; [reflexivity|].
      cbn [SchemaSat.sat]. unfold nullable. rewrite obj_get_none by reflexivity. cbn [andb orb forallb].
      unfold entry_sat. kwd. rewrite andb_true_r.
      apply (union_agree_excl n x Hx vs js (UnionV vs) HF2).
      intros l1 a l2 Heq [w Hw] b Hb w' Hw'.
      rewrite forallb_forall in Hfs.
      assert (Ha : In a vs) by (rewrite Heq; apply in_or_app; right; left; reflexivity).
      assert (Hbv : In b vs) by (rewrite Heq; apply in_or_app; right; right; exact Hb).
      pose proof (valid_kind a (Hfs a Ha) n x w Hx Hw) as Ka.
      pose proof (valid_kind b (Hfs b Hbv) n x w' Hx Hw') as Kb.
      rewrite Heq in Hnd. rewrite flat_map_app in Hnd. apply nodup_nat_tail in Hnd. cbn [flat_map] in Hnd.
      apply (nodup_nat_disjoint (jk a) (flat_map jk l2) (kind_of x) Hnd Ka).
      apply in_flat_map. exists b. split; assumption.
    - (* OptionalV *)
      destruct v1; try discriminate. destruct co; try discriminate.
      cbn [vheight] in Hn. destruct n as [|n]; [lia|].
      destruct (IHv2 Hf (S n) ltac:(lia) x Hx) as [d [Ed Hd]].
      cbn [to_schema]. rewrite Ed. cbn [pbind]. eexists; split; [reflexivity|].
      rewrite sat_nullable. unfold union_body. cbn [map run_calls].
      change (run E Sync (S n) (NoneV None) x) with (none_body E (NoneV None) None x).
      destruct x; cbn [none_body is_none orb];
        try (destruct (sat (JObj d) _); cbn [agree] in Hd; destruct Hd as [w ->]; cbn; eexists; reflexivity).
      cbn. eexists; reflexivity.
    - (* KeyNotRequired *)
      cbn [vheight] in Hn. destruct (IHv Hf n ltac:(lia) x Hx) as [d [Ed Hd]].
      cbn [to_schema]. exists d. split; [exact Ed|]. unfold knr_body.
      destruct (sat (JObj d) x); cbn [agree] in *; destruct Hd as [w ->]; eexists; reflexivity.
    - (* CacheV *)
      cbn [vheight] in Hn. destruct (IHv Hf n ltac:(lia) x Hx) as [d [Ed Hd]].
      cbn [to_schema]. exists d. split; assumption.
  Qed.
End Frag.
