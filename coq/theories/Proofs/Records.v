(* Proofs about the record-shaped validators (C04). *)
From Coq Require Import ZArith List Bool Lia.
From KV Require Import Base.PyVal Base.Prims Model.Validator Model.Sem Proofs.Scalar Proofs.Calls.
Import ListNotations.
Open Scope nat_scope.

Section Records.
  Variable E : env.

  (* reference form of the per-declared-key loop *)
  Fixpoint keys_ref (rec : runner) (self : validator) (pol : absent_policy)
           (keys : list (pyval * (validator * bool))) (data : list (pyval * pyval)) (orig : pyval)
    : outcome + (list (pyval * pyval) * list (pyval * invalid)) :=
    match keys with
    | [] => inr ([], [])
    | (k, (v, required)) :: keys' =>
        match dict_get data k with
        | None =>
            match keys_ref rec self pol keys' data orig with
            | inl o => inl o
            | inr (ws, errs) =>
                if required then inr (ws, (k, Invalid MissingKeyErr orig self) :: errs)
                else match pol with
                     | AbsNothing => inr ((k, VNothing) :: ws, errs)
                     | AbsOmit => inr (ws, errs)
                     end
            end
        | Some xv =>
            match rec v xv with
            | OValid w =>
                match keys_ref rec self pol keys' data orig with
                | inl o => inl o
                | inr (ws, errs) => inr ((k, w) :: ws, errs)
                end
            | OInvalid inv =>
                match keys_ref rec self pol keys' data orig with
                | inl o => inl o
                | inr (ws, errs) => inr (ws, (k, inv) :: errs)
                end
            | o => inl o
            end
        end
    end.

  Lemma keys_loop_ref rec self pol keys data orig :
    keys_loop rec self pol keys data orig = keys_ref rec self pol keys data orig.
  Proof.
    unfold keys_loop. induction keys as [|[k [v req]] keys IH]; [reflexivity|].
    unfold key_calls. cbn [flat_map fst snd collect_keys keys_ref]. fold (key_calls keys data).
    destruct (dict_get data k) as [xv|] eqn:Hg.
    - cbn [app run_calls]. destruct (rec v xv) eqn:Hr; try reflexivity; rewrite IH; reflexivity.
    - cbn [app]. rewrite IH. reflexivity.
  Qed.

  (* the error list and the payload list, as functions of the children's verdicts *)
  Fixpoint key_errs_of (rec : runner) (self : validator)
           (keys : list (pyval * (validator * bool))) (data : list (pyval * pyval)) (orig : pyval)
    : list (pyval * invalid) :=
    match keys with
    | [] => []
    | (k, (v, required)) :: keys' =>
        let rest := key_errs_of rec self keys' data orig in
        match dict_get data k with
        | None => if required then (k, Invalid MissingKeyErr orig self) :: rest else rest
        | Some xv => match rec v xv with OInvalid inv => (k, inv) :: rest | _ => rest end
        end
    end.

  Fixpoint key_payload_of (rec : runner) (pol : absent_policy)
           (keys : list (pyval * (validator * bool))) (data : list (pyval * pyval))
    : list (pyval * pyval) :=
    match keys with
    | [] => []
    | (k, (v, required)) :: keys' =>
        let rest := key_payload_of rec pol keys' data in
        match dict_get data k with
        | None => if required then rest
                  else match pol with AbsNothing => (k, VNothing) :: rest | AbsOmit => rest end
        | Some xv => match rec v xv with OValid w => (k, w) :: rest | _ => rest end
        end
    end.

  Definition present_normal (rec : runner) (keys : list (pyval * (validator * bool)))
             (data : list (pyval * pyval)) : Prop :=
    Forall (fun k => match dict_get data (fst k) with
                     | Some xv => normal (rec (fst (snd k)) xv) = true
                     | None => True
                     end) keys.

  Lemma keys_ref_spec rec self pol keys data orig ws errs :
    keys_ref rec self pol keys data orig = inr (ws, errs) ->
    present_normal rec keys data /\
    errs = key_errs_of rec self keys data orig /\
    ws = key_payload_of rec pol keys data.
  Proof.
    revert ws errs; induction keys as [|[k [v req]] keys IH]; intros ws errs H; cbn [keys_ref] in H.
    - inversion H; subst. repeat split; constructor.
    - cbn [key_errs_of key_payload_of]. cbv zeta.
      destruct (dict_get data k) as [xv|] eqn:Hg.
      + destruct (rec v xv) eqn:Hr; try discriminate.
        * destruct (keys_ref rec self pol keys data orig) as [o|[ws' errs']] eqn:Hk; [discriminate|].
          inversion H; subst. destruct (IH _ _ eq_refl) as [Hn [-> ->]].
          repeat split; auto. constructor; [cbn [fst snd]; rewrite Hg, Hr; reflexivity | exact Hn].
        * destruct (keys_ref rec self pol keys data orig) as [o|[ws' errs']] eqn:Hk; [discriminate|].
          inversion H; subst. destruct (IH _ _ eq_refl) as [Hn [-> ->]].
          repeat split; auto. constructor; [cbn [fst snd]; rewrite Hg, Hr; reflexivity | exact Hn].
      + destruct (keys_ref rec self pol keys data orig) as [o|[ws' errs']] eqn:Hk; [discriminate|].
        destruct (IH _ _ eq_refl) as [Hn [He Hw]].
        assert (Hn' : present_normal rec ((k, (v, req)) :: keys) data)
          by (constructor; [cbn [fst]; rewrite Hg; exact I | exact Hn]).
        destruct req.
        * inversion H; subst. repeat split; auto.
        * destruct pol; inversion H; subst; repeat split; auto.
  Qed.

  Lemma keys_ref_complete rec self pol keys data orig :
    present_normal rec keys data ->
    keys_ref rec self pol keys data orig
    = inr (key_payload_of rec pol keys data, key_errs_of rec self keys data orig).
  Proof.
    induction keys as [|[k [v req]] keys IH]; intros H; [reflexivity|].
    inversion H as [|? ? Hk Hrest]; subst. cbn [fst snd] in Hk.
    cbn [keys_ref key_errs_of key_payload_of]. cbv zeta. rewrite (IH Hrest).
    destruct (dict_get data k) as [xv|].
    - destruct (rec v xv); try discriminate; reflexivity.
    - destruct req; [reflexivity|]. destruct pol; reflexivity.
  Qed.

  Lemma keys_ref_abnormal rec self pol keys data orig o :
    keys_ref rec self pol keys data orig = inl o -> normal o = false.
  Proof.
    induction keys as [|[k [v req]] keys IH]; cbn [keys_ref]; [discriminate|].
    destruct (dict_get data k) as [xv|].
    - destruct (rec v xv) eqn:Hr.
      + destruct (keys_ref rec self pol keys data orig) as [o'|[? ?]]; [|discriminate].
        intros H; inversion H; subst. apply IH; reflexivity.
      + destruct (keys_ref rec self pol keys data orig) as [o'|[? ?]]; [|discriminate].
        intros H; inversion H; subst. apply IH; reflexivity.
      + intros H; inversion H; reflexivity.
      + intros H; inversion H; reflexivity.
      + intros H; inversion H; reflexivity.
    - destruct (keys_ref rec self pol keys data orig) as [o'|[? ?]].
      + intros H; inversion H; subst. apply IH; reflexivity.
      + destruct req; [discriminate|]. destruct pol; discriminate.
  Qed.

  (* exactly one entry per missing required key and per present-but-invalid key *)
  Lemma key_errs_in rec self keys data orig k inv :
    In (k, inv) (key_errs_of rec self keys data orig) ->
    exists v req, In (k, (v, req)) keys /\
      ((dict_get data k = None /\ req = true /\ inv = Invalid MissingKeyErr orig self) \/
       (exists xv, dict_get data k = Some xv /\ rec v xv = OInvalid inv)).
  Proof.
    induction keys as [|[k' [v req]] keys IH]; cbn [key_errs_of]; [intros []|]. cbv zeta.
    assert (Hrest : In (k, inv) (key_errs_of rec self keys data orig) ->
                    exists v0 req0, In (k, (v0, req0)) ((k', (v, req)) :: keys) /\
      ((dict_get data k = None /\ req0 = true /\ inv = Invalid MissingKeyErr orig self) \/
       (exists xv, dict_get data k = Some xv /\ rec v0 xv = OInvalid inv))).
    { intros H. destruct (IH H) as [v0 [req0 [Hin Hc]]]. exists v0, req0. split; [right; exact Hin | exact Hc]. }
    destruct (dict_get data k') as [xv|] eqn:Hg.
    - destruct (rec v xv) eqn:Hr; try exact Hrest.
      intros [Heq|Hin]; [|exact (Hrest Hin)].
      inversion Heq; subst. exists v, req. split; [left; reflexivity|]. right. exists xv; auto.
    - destruct req; [|exact Hrest].
      intros [Heq|Hin]; [|exact (Hrest Hin)].
      inversion Heq; subst. exists v, true. split; [left; reflexivity|]. left; auto.
  Qed.

  (* no key error <-> every required key is present and every present declared key is accepted *)
  Lemma key_errs_nil rec self keys data orig :
    key_errs_of rec self keys data orig = [] <->
    Forall (fun k => match dict_get data (fst k) with
                     | None => snd (snd k) = false
                     | Some xv => forall inv, rec (fst (snd k)) xv <> OInvalid inv
                     end) keys.
  Proof.
    induction keys as [|[k [v req]] keys IH]; cbn [key_errs_of]; [split; [constructor|reflexivity]|].
    cbv zeta. split.
    - intros H. destruct (dict_get data k) as [xv|] eqn:Hg.
      + destruct (rec v xv) eqn:Hr; try discriminate;
          (constructor; [cbn [fst snd]; rewrite Hg, Hr; intros; discriminate | apply IH; exact H]).
      + destruct req; [discriminate|]. constructor; [cbn [fst snd]; rewrite Hg; reflexivity | apply IH; exact H].
    - intros H. inversion H as [|? ? Hk Hrest]; subst. cbn [fst snd] in Hk.
      apply IH in Hrest. destruct (dict_get data k) as [xv|].
      + destruct (rec v xv) eqn:Hr; try exact Hrest. exfalso. eapply Hk; reflexivity.
      + rewrite Hk. exact Hrest.
  Qed.

  (* undeclared keys never reach the payload *)
  Lemma key_payload_declared rec pol keys data k w :
    In (k, w) (key_payload_of rec pol keys data) -> In k (map fst keys).
  Proof.
    induction keys as [|[k' [v req]] keys IH]; cbn [key_payload_of]; [intros []|]. cbv zeta. cbn [map fst].
    destruct (dict_get data k') as [xv|].
    - destruct (rec v xv); try (intros H; right; exact (IH H)).
      intros [Heq|H]; [inversion Heq; left; reflexivity | right; exact (IH H)].
    - destruct req; [intros H; right; exact (IH H)|].
      destruct pol; [|intros H; right; exact (IH H)].
      intros [Heq|H]; [inversion Heq; left; reflexivity | right; exact (IH H)].
  Qed.

  (* ---------- RecordValidator ---------- *)

  Theorem record_accept rec self keys into vobj avobj strict m x out :
    record_body E rec self keys into vobj avobj strict m x = OValid out <->
    (m = Sync -> avobj = None) /\
    isinstance (ckind E) x TDict = true /\
    exists data,
      as_dict x = Some data /\
      (strict = true -> has_unknown_key (map fst keys) data = false) /\
      present_normal rec (record_keys keys) data /\
      key_errs_of rec self (record_keys keys) data x = [] /\
      obj_stage E self m vobj avobj
                (uinto E into (map snd (key_payload_of rec AbsNothing (record_keys keys) data)))
      = OValid out.
  Proof.
    unfold record_body. split.
    - destruct (mode_eqb m Sync && has_some avobj) eqn:Hg; [discriminate|].
      destruct (isinstance (ckind E) x TDict) eqn:Hi; cbn [negb]; [|discriminate].
      destruct (as_dict x) as [data|] eqn:Hd; [|discriminate].
      rewrite keys_loop_ref.
      destruct (strict && has_unknown_key (map fst keys) data) eqn:Hs; [discriminate|].
      destruct (keys_ref rec self AbsNothing (record_keys keys) data x) as [o|[ws errs]] eqn:Hk.
      { intros ->. apply keys_ref_abnormal in Hk. discriminate. }
      destruct errs; [|discriminate]. intros H.
      destruct (keys_ref_spec _ _ _ _ _ _ _ _ Hk) as [Hn [He Hw]].
      split; [|split; [reflexivity|]].
      { intros ->. cbn in Hg. destruct avobj; [discriminate|reflexivity]. }
      exists data. repeat split; auto.
      + intros ->. exact Hs.
      + rewrite <- Hw. exact H.
    - intros [Hs [Hi [data [Hd [Hstrict [Hn [He Hobj]]]]]]].
      assert (Hg : mode_eqb m Sync && has_some avobj = false).
      { destruct m; cbn; [|reflexivity]. rewrite (Hs eq_refl); reflexivity. }
      rewrite Hg, Hi, Hd. cbn [negb]. rewrite keys_loop_ref.
      assert (Hs' : strict && has_unknown_key (map fst keys) data = false).
      { destruct strict; [exact (Hstrict eq_refl) | reflexivity]. }
      rewrite Hs', (keys_ref_complete _ _ _ _ _ _ Hn), He. exact Hobj.
  Qed.

  (* the key error holds exactly [key_errs_of]; the value is the caller's own mapping *)
  Theorem record_key_errs rec self keys into vobj avobj strict m x errs v who :
    record_body E rec self keys into vobj avobj strict m x = OInvalid (Invalid (KeyErrs errs) v who) ->
    (forall id obj errs', uobj E id obj <> Some (KeyErrs errs')) ->
    (forall id obj errs', uaobj E id obj <> Some (KeyErrs errs')) ->
    exists data,
      as_dict x = Some data /\
      errs = key_errs_of rec self (record_keys keys) data x /\ errs <> [] /\ v = x /\ who = self.
  Proof.
    unfold record_body. intros H Hu Hua.
    destruct (mode_eqb m Sync && has_some avobj); [discriminate|].
    destruct (isinstance (ckind E) x TDict); cbn [negb] in H; [|discriminate].
    destruct (as_dict x) as [data|] eqn:Hd; [|discriminate].
    rewrite keys_loop_ref in H.
    destruct (strict && has_unknown_key (map fst keys) data); [discriminate|].
    destruct (keys_ref rec self AbsNothing (record_keys keys) data x) as [o|[ws errs']] eqn:Hk.
    { subst o. apply keys_ref_abnormal in Hk. discriminate. }
    destruct errs' as [|e1 errs'].
    { exfalso. unfold obj_stage in H.
      destruct (match vobj with Some id => uobj E id _ | None => None end) eqn:Ho.
      - inversion H; subst. destruct vobj; [eapply Hu; eauto | discriminate].
      - destruct m; [discriminate|]. destruct avobj as [id|]; [|discriminate].
        destruct (uaobj E id _) eqn:Ha; [|discriminate]. inversion H; subst. eapply Hua; eauto. }
    inversion H; subst; clear H.
    destruct (keys_ref_spec _ _ _ _ _ _ _ _ Hk) as [_ [He _]].
    exists data. repeat split; auto. discriminate.
  Qed.

  (* unknown keys are decided first: the child runner is not consulted *)
  Theorem record_unknown_first rec1 rec2 self keys into vobj avobj m x data :
    as_dict x = Some data ->
    has_unknown_key (map fst keys) data = true ->
    record_body E rec1 self keys into vobj avobj true m x
    = record_body E rec2 self keys into vobj avobj true m x.
  Proof.
    unfold record_body. intros -> Hu. cbn [andb]. rewrite Hu.
    destruct (mode_eqb m Sync && has_some avobj); [reflexivity|].
    destruct (negb (isinstance (ckind E) x TDict)); reflexivity.
  Qed.

  Theorem record_unknown_error rec self keys into vobj avobj m x data :
    (m = Sync -> avobj = None) ->
    isinstance (ckind E) x TDict = true ->
    as_dict x = Some data ->
    has_unknown_key (map fst keys) data = true ->
    record_body E rec self keys into vobj avobj true m x
    = OInvalid (Invalid (ExtraKeysErr (map fst keys)) x self).
  Proof.
    unfold record_body. intros Hs Hi Hd Hu.
    assert (Hg : mode_eqb m Sync && has_some avobj = false).
    { destruct m; cbn; [|reflexivity]. rewrite (Hs eq_refl); reflexivity. }
    rewrite Hg, Hi, Hd. cbn [negb andb]. rewrite Hu. reflexivity.
  Qed.

  (* ---------- DictValidatorAny ---------- *)

  Theorem dictany_accept rec self schema vobj avobj strict m x out :
    dictany_body E rec self schema vobj avobj strict m x = OValid out <->
    (m = Sync -> avobj = None) /\
    exists data,
      x = VDict data /\
      (strict = true -> has_unknown_key (map fst schema) data = false) /\
      present_normal rec (dictany_keys schema) data /\
      key_errs_of rec self (dictany_keys schema) data x = [] /\
      obj_stage E self m vobj avobj (VDict (key_payload_of rec AbsOmit (dictany_keys schema) data))
      = OValid out.
  Proof.
    unfold dictany_body. split.
    - destruct (mode_eqb m Sync && has_some avobj) eqn:Hg; [discriminate|].
      destruct x; try discriminate.
      rewrite keys_loop_ref.
      destruct (strict && has_unknown_key (map fst schema) kvs) eqn:Hs; [discriminate|].
      destruct (keys_ref rec self AbsOmit (dictany_keys schema) kvs (VDict kvs)) as [o|[ws errs]] eqn:Hk.
      { intros ->. apply keys_ref_abnormal in Hk. discriminate. }
      destruct errs; [|discriminate]. intros H.
      destruct (keys_ref_spec _ _ _ _ _ _ _ _ Hk) as [Hn [He Hw]].
      split.
      { intros ->. cbn in Hg. destruct avobj; [discriminate|reflexivity]. }
      exists kvs. repeat split; auto.
      + intros ->. exact Hs.
      + rewrite <- Hw. exact H.
    - intros [Hs [data [-> [Hstrict [Hn [He Hobj]]]]]].
      assert (Hg : mode_eqb m Sync && has_some avobj = false).
      { destruct m; cbn; [|reflexivity]. rewrite (Hs eq_refl); reflexivity. }
      rewrite Hg. rewrite keys_loop_ref.
      assert (Hs' : strict && has_unknown_key (map fst schema) data = false).
      { destruct strict; [exact (Hstrict eq_refl) | reflexivity]. }
      rewrite Hs', (keys_ref_complete _ _ _ _ _ _ Hn), He. exact Hobj.
  Qed.

  Theorem dictany_plain_dict_only rec self schema vobj avobj strict m x :
    (m = Sync -> avobj = None) ->
    (forall data, x <> VDict data) ->
    dictany_body E rec self schema vobj avobj strict m x = OInvalid (Invalid (TypeErr TDict) x self).
  Proof.
    unfold dictany_body. intros Hs Hx.
    assert (Hg : mode_eqb m Sync && has_some avobj = false).
    { destruct m; cbn; [|reflexivity]. rewrite (Hs eq_refl); reflexivity. }
    rewrite Hg. destruct x; try reflexivity. exfalso. eapply Hx; reflexivity.
  Qed.

  (* ---------- Dataclass / NamedTuple / TypedDict validators ---------- *)

  Theorem class_accept rec self rk c schema vobj avobj strict co m x out :
    class_body E rec self rk c schema vobj avobj strict co m x = OValid out <->
    (m = Sync -> avobj = None) /\
    exists y data,
      class_gate E rk c co x = inr y /\
      as_dict y = Some data /\
      (strict = true -> has_unknown_key (map fst schema) data = false) /\
      present_normal rec schema data /\
      key_errs_of rec self schema data y = [] /\
      obj_stage E self m vobj avobj
                (match rk with
                 | RkTyped => VDict (key_payload_of rec AbsOmit schema data)
                 | _ => construct E c (key_payload_of rec AbsOmit schema data)
                 end) = OValid out.
  Proof.
    unfold class_body. split.
    - destruct (mode_eqb m Sync && has_some avobj) eqn:Hg; [discriminate|].
      destruct (class_gate E rk c co x) as [e|y] eqn:Hgate; [discriminate|].
      destruct (as_dict y) as [data|] eqn:Hd; [|discriminate].
      rewrite keys_loop_ref.
      destruct (strict && has_unknown_key (map fst schema) data) eqn:Hs; [discriminate|].
      destruct (keys_ref rec self AbsOmit schema data y) as [o|[ws errs]] eqn:Hk.
      { intros ->. apply keys_ref_abnormal in Hk. discriminate. }
      destruct errs; [|discriminate]. intros H.
      destruct (keys_ref_spec _ _ _ _ _ _ _ _ Hk) as [Hn [He Hw]].
      split.
      { intros ->. cbn in Hg. destruct avobj; [discriminate|reflexivity]. }
      exists y, data. repeat split; auto.
      + intros ->. exact Hs.
      + rewrite <- Hw. exact H.
    - intros [Hs [y [data [Hgate [Hd [Hstrict [Hn [He Hobj]]]]]]]].
      assert (Hg : mode_eqb m Sync && has_some avobj = false).
      { destruct m; cbn; [|reflexivity]. rewrite (Hs eq_refl); reflexivity. }
      rewrite Hg, Hgate, Hd. rewrite keys_loop_ref.
      assert (Hs' : strict && has_unknown_key (map fst schema) data = false).
      { destruct strict; [exact (Hstrict eq_refl) | reflexivity]. }
      rewrite Hs', (keys_ref_complete _ _ _ _ _ _ Hn), He. exact Hobj.
  Qed.

  (* the input gate without a coercer: a plain dict, or (not for TypedDict) an instance of
     exactly the target class read through its fields *)
  Theorem class_gate_plain rk c x y :
    class_gate E rk c None x = inr y <->
    (exists data, x = VDict data /\ y = x) \/
    (rk <> RkTyped /\ exists fs, x = VObj c fs /\ y = VDict fs).
  Proof.
    unfold class_gate. split.
    - destruct x; try (destruct rk; discriminate).
      + intros H; inversion H; subst. left. eexists; split; reflexivity.
      + destruct rk; try discriminate;
          (destruct (Nat.eqb c c0) eqn:Hc; [|discriminate]; apply Nat.eqb_eq in Hc; subst;
           intros H; inversion H; subst; right; split; [discriminate | eexists; split; reflexivity]).
    - intros [[data [-> ->]] | [Hrk [fs [-> ->]]]]; [reflexivity|].
      destruct rk; try congruence; rewrite Nat.eqb_refl; reflexivity.
  Qed.

  Theorem class_unknown_first rec1 rec2 self rk c schema vobj avobj co m x y data :
    class_gate E rk c co x = inr y -> as_dict y = Some data ->
    has_unknown_key (map fst schema) data = true ->
    class_body E rec1 self rk c schema vobj avobj true co m x
    = class_body E rec2 self rk c schema vobj avobj true co m x.
  Proof.
    unfold class_body. intros -> -> Hu. cbn [andb]. rewrite Hu. reflexivity.
  Qed.

  (* the whole-object check runs only when every key passed *)
  Theorem obj_stage_spec self m vobj avobj obj :
    obj_stage E self m vobj avobj obj =
    match match vobj with Some id => uobj E id obj | None => None end with
    | Some e => OInvalid (Invalid e obj self)
    | None =>
        match m, avobj with
        | Async, Some id =>
            match uaobj E id obj with
            | Some e => OInvalid (Invalid e obj self)
            | None => OValid obj
            end
        | _, _ => OValid obj
        end
    end.
  Proof. reflexivity. Qed.
End Records.
