(* Proofs about unions and wrappers (C05). *)
From Coq Require Import ZArith List Bool Lia.
From KV Require Import Base.PyVal Base.Prims Model.Validator Model.Sem Proofs.Calls.
Import ListNotations.
Open Scope nat_scope.

Section Wrappers.
  Variable E : env.

  (* the union loop in reference form *)
  Fixpoint union_ref (rec : runner) (vs : list validator) (x : pyval) : outcome + list invalid :=
    match vs with
    | [] => inr []
    | v :: vs' =>
        match rec v x with
        | OValid w => inl (OValid w)
        | OInvalid inv =>
            match union_ref rec vs' x with
            | inl o => inl o
            | inr errs => inr (inv :: errs)
            end
        | o => inl o
        end
    end.

  Lemma collect_union_ref rec vs x :
    collect_union (run_calls true rec (map (fun v => (v, x)) vs)) = union_ref rec vs x.
  Proof.
    induction vs as [|v vs IH]; [reflexivity|].
    cbn [map run_calls union_ref]. destruct (rec v x); cbn [collect_union]; try reflexivity.
    rewrite IH. reflexivity.
  Qed.

  (* accepted iff some variant accepts; the payload is that of the first accepting variant *)
  Lemma union_ref_valid rec vs x w :
    union_ref rec vs x = inl (OValid w) <->
    exists pre v post, vs = pre ++ v :: post /\ rec v x = OValid w /\
                       Forall (fun u => exists i, rec u x = OInvalid i) pre.
  Proof.
    induction vs as [|v vs IH]; cbn [union_ref].
    - split; [discriminate|]. intros [pre [v [post [H _]]]]. destruct pre; discriminate.
    - split.
      + destruct (rec v x) eqn:Hr; try discriminate.
        * intros H; inversion H; subst. exists [], v, vs. repeat split; auto.
        * destruct (union_ref rec vs x) as [o|errs] eqn:Hu; [|discriminate].
          intros H; inversion H; subst.
          destruct (proj1 IH eq_refl) as [pre [v' [post [-> [Hv Hpre]]]]].
          exists (v :: pre), v', post. repeat split; auto. constructor; [exists i; exact Hr | exact Hpre].
      + intros [pre [v' [post [Heq [Hv Hpre]]]]].
        destruct pre as [|p pre]; cbn [app] in Heq; inversion Heq; subst.
        * rewrite Hv. reflexivity.
        * inversion Hpre as [|? ? [i Hi] Hrest]; subst. rewrite Hi.
          assert (Hu : union_ref rec (pre ++ v' :: post) x = inl (OValid w)).
          { apply IH. exists pre, v', post. auto. }
          rewrite Hu. reflexivity.
  Qed.

  (* rejected iff every variant rejects; every variant's error is reported, in order *)
  Lemma union_ref_errs rec vs x errs :
    union_ref rec vs x = inr errs <-> Forall2 (fun v e => rec v x = OInvalid e) vs errs.
  Proof.
    revert errs; induction vs as [|v vs IH]; intros errs; cbn [union_ref].
    - split; [intros H; inversion H; constructor | intros H; inversion H; reflexivity].
    - split.
      + destruct (rec v x) eqn:Hr; try discriminate.
        destruct (union_ref rec vs x) as [o|errs'] eqn:Hu; [discriminate|].
        intros H; inversion H; subst. constructor; [exact Hr | apply IH; reflexivity].
      + intros H; inversion H as [|? e ? errs' He Hrest]; subst. rewrite He.
        apply IH in Hrest. rewrite Hrest. reflexivity.
  Qed.

  Theorem union_accept rec self vs x w :
    union_body rec self vs x = OValid w <->
    exists pre v post, vs = pre ++ v :: post /\ rec v x = OValid w /\
                       Forall (fun u => exists i, rec u x = OInvalid i) pre.
  Proof.
    unfold union_body. rewrite collect_union_ref. rewrite <- union_ref_valid.
    destruct (union_ref rec vs x) as [o|errs]; split; intros H; try congruence; discriminate.
  Qed.

  Theorem union_reject rec self vs x i :
    union_body rec self vs x = OInvalid i ->
    exists errs, Forall2 (fun v e => rec v x = OInvalid e) vs errs /\
                 i = Invalid (UnionErrs errs) x self.
  Proof.
    unfold union_body. rewrite collect_union_ref.
    destruct (union_ref rec vs x) as [o|errs] eqn:Hu.
    - intros ->. exfalso. clear - Hu. revert Hu. induction vs as [|v vs IH]; cbn [union_ref]; [discriminate|].
      destruct (rec v x); try discriminate.
      destruct (union_ref rec vs x); [|discriminate]. intros H; inversion H; subst. apply IH; reflexivity.
    - intros H; inversion H; subst. exists errs. split; [apply union_ref_errs; exact Hu | reflexivity].
  Qed.

  Theorem union_all_reject rec self vs x errs :
    Forall2 (fun v e => rec v x = OInvalid e) vs errs ->
    union_body rec self vs x = OInvalid (Invalid (UnionErrs errs) x self).
  Proof.
    intros H. unfold union_body. rewrite collect_union_ref.
    apply union_ref_errs in H. rewrite H. reflexivity.
  Qed.

  (* later variants are not consulted: the result does not depend on what follows the
     first accepting variant (not even on whether it would raise) *)
  Theorem union_first_wins rec self pre v post post' x w :
    rec v x = OValid w ->
    Forall (fun u => exists i, rec u x = OInvalid i) pre ->
    union_body rec self (pre ++ v :: post) x = OValid w /\
    union_body rec self (pre ++ v :: post') x = OValid w.
  Proof.
    intros Hv Hpre. split; apply union_accept; eexists pre, v, _; repeat split; eauto.
  Qed.

  (* Optional: None first; then exactly the inner validator *)
  Theorem optional_none rec self inner :
    rec (NoneV None) VNone = OValid VNone ->
    union_body rec self [NoneV None; inner] VNone = OValid VNone.
  Proof.
    intros H. apply union_accept. exists [], (NoneV None), [inner]. repeat split; auto.
  Qed.

  Theorem optional_inner rec self inner x inone :
    rec (NoneV None) x = OInvalid inone ->
    union_body rec self [NoneV None; inner] x =
    match rec inner x with
    | OValid w => OValid w
    | OInvalid i => OInvalid (Invalid (UnionErrs [inone; i]) x self)
    | o => o
    end.
  Proof.
    intros H. unfold union_body. rewrite collect_union_ref. cbn [union_ref]. rewrite H.
    destruct (rec inner x); reflexivity.
  Qed.

  (* Maybe *)
  Theorem maybe_spec rec self inner x :
    maybe_body rec self inner x =
    match x with
    | VNothing => OValid VNothing
    | VJust y => match rec inner y with
                 | OValid w => OValid (VJust w)
                 | OInvalid i => OInvalid (Invalid (ContainerErr i) x self)
                 | o => o
                 end
    | _ => OInvalid (Invalid (TypeErr TMaybe) x self)
    end.
  Proof. reflexivity. Qed.
End Wrappers.

(* Valid.map / Invalid.map *)
Definition result_map (f : pyval -> pyval) (o : outcome) : outcome :=
  match o with OValid w => OValid (f w) | _ => o end.
