(* C14: every error node names the validator that rejected and the value it examined. *)
From Coq Require Import ZArith List Bool Lia.
From KV Require Import Base.PyVal Base.Prims Model.Validator Model.Sem
     Proofs.Scalar Proofs.Calls Proofs.Collections Proofs.Records Proofs.Wrappers Proofs.Agree Proofs.Returns.
Import ListNotations.
Open Scope nat_scope.

Definition opt_list {A} (o : option A) : list A := match o with Some a => [a] | None => [] end.

(* the Invalids stored directly inside an error *)
Definition direct_children (e : errtype) : list invalid :=
  match e with
  | ContainerErr c => [c]
  | KeyErrs ks => map snd ks
  | MapErr ks => flat_map (fun k => opt_list (fst (snd k)) ++ opt_list (snd (snd k))) ks
  | IndexErrs ix => map snd ix
  | SetErrs xs => xs
  | UnionErrs xs => xs
  | _ => []
  end.

Definition is_gate_err (e : errtype) : bool :=
  match e with TypeErr _ | CoercionErr _ _ => true | _ => false end.

(* immediate child validators: the validators a node hands (parts of) its value to *)
Definition child_of (v v' : validator) : Prop :=
  match v with
  | ListV item _ _ _ | SetV item _ _ _ | UTupleV item _ _ _ => v' = item
  | NTupleV fields _ _ => In v' fields
  | MapV kv vv _ _ _ => v' = kv \/ v' = vv
  | RecordV keys _ _ _ _ => In v' (map snd keys)
  | DictAnyV schema _ _ _ => In v' (map (fun kv => unwrap_knr (snd kv)) schema)
  | ClassV _ _ schema _ _ _ _ => In v' (map (fun kv => fst (snd kv)) schema)
  | UnionV vs => In v' vs
  | OptionalV a b => v' = a \/ v' = b
  | MaybeV a => v' = a
  | _ => False
  end.

(* wrappers that stand for another validator and never appear in an error tree *)
Definition transparent (E : env) (v v' : validator) : Prop :=
  match v with
  | LazyV r _ => v' = lazy_env E r
  | CacheV a | KeyNotRequired a => v' = a
  | _ => False
  end.

Lemma index_errs_in i outs j inv : In (j, inv) (index_errs i outs) -> In (OInvalid inv) outs.
Proof.
  revert i; induction outs as [|o outs IH]; intros i; cbn [index_errs]; [intros []|].
  destruct o; try solve [intros H; right; eapply IH; exact H].
  intros [H|H]; [inversion H; left; reflexivity | right; eapply IH; exact H].
Qed.

Lemma invalids_in outs inv : In inv (invalids outs) -> In (OInvalid inv) outs.
Proof.
  induction outs as [|o outs IH]; cbn [invalids]; [intros []|].
  destruct o; try solve [intros H; right; apply IH; exact H].
  intros [H|H]; [subst; left; reflexivity | right; apply IH; exact H].
Qed.

Section Prov.
  Variable E : env.
  (* whole-object checks return errors without nested Invalids (e.g. custom error objects) *)
  Hypothesis obj_errs_flat :
    (forall id obj e, uobj E id obj = Some e -> direct_children e = [] /\ is_gate_err e = false) /\
    (forall id obj e, uaobj E id obj = Some e -> direct_children e = [] /\ is_gate_err e = false).

  Variable m : mode.
  Variable rec : runner.

  (* what C14 says about one node produced by validator [v] on argument [x] *)
  Definition node_ok (v : validator) (x : pyval) (i : invalid) : Prop :=
    match i with
    | Invalid e val who =>
        who = v /\ (is_gate_err e = true -> val = x) /\
        forall inv, In inv (direct_children e) ->
          (exists v' x', child_of v v' /\ rec v' x' = OInvalid inv) \/
          (exists data, inv = Invalid MissingKeyErr data v)
    end.

  Lemma gate_err_kind co t d x e : gate E co t d x = inl e -> is_gate_err e = true /\ direct_children e = [].
  Proof. intros H. apply gate_rejects in H. destruct co; destruct H as [_ ->]; split; reflexivity. Qed.

  Lemma obj_stage_node self vobj avobj obj i :
    obj_stage E self m vobj avobj obj = OInvalid i ->
    match i with Invalid e val who => who = self /\ is_gate_err e = false /\ direct_children e = [] end.
  Proof.
    unfold obj_stage. destruct obj_errs_flat as [Ho Ha].
    destruct vobj as [id|].
    - destruct (uobj E id obj) eqn:Hu.
      + intros H; inversion H; subst. destruct (Ho _ _ _ Hu). auto.
      + destruct m; [discriminate|]. destruct avobj as [ida|]; [|discriminate].
        destruct (uaobj E ida obj) eqn:Hua; [|discriminate]. intros H; inversion H; subst.
        destruct (Ha _ _ _ Hua). auto.
    - destruct m; [discriminate|]. destruct avobj as [ida|]; [|discriminate].
      destruct (uaobj E ida obj) eqn:Hua; [|discriminate]. intros H; inversion H; subst.
      destruct (Ha _ _ _ Hua). auto.
  Qed.

  Lemma pred_stage_node self ps aps y o :
    pred_stage E self m ps aps y = Some o ->
    forall i, o = OInvalid i ->
    match i with Invalid e val who => who = self /\ is_gate_err e = false /\ direct_children e = [] end.
  Proof.
    unfold pred_stage. destruct (all_failing E m ps aps y) as [[|f fs]|]; intros H; inversion H; subst;
      intros i Hi; inversion Hi; subst. auto.
  Qed.

  Lemma in_item_calls item xs o :
    In o (run_calls false rec (map (fun xi => (item, xi)) xs)) -> exists xi, rec item xi = o.
  Proof.
    intros H. apply run_calls_in in H. destruct H as [[v x] [Hin Hc]].
    apply in_map_iff in Hin. destruct Hin as [xi [Heq _]].
    exists x. rewrite <- Hc. unfold callr; cbn [fst snd]. inversion Heq. reflexivity.
  Qed.

  Lemma seq_node exact dest wrap self item ps aps co x i :
    child_of self item ->
    seq_body E exact dest wrap rec self item ps aps co m x = OInvalid i -> node_ok self x i.
  Proof.
    intros Hch. unfold seq_body.
    destruct (mode_eqb m Sync && nonempty aps); [discriminate|].
    destruct (gate E co exact dest x) as [e|y] eqn:Hg.
    { intros H; inversion H; subst. destruct (gate_err_kind _ _ _ _ _ Hg) as [_ Hc].
      split; [reflexivity|]. split; [reflexivity|]. rewrite Hc. intros ? []. }
    destruct (pred_stage E self m ps aps y) as [o|] eqn:Hp.
    { intros ->. pose proof (pred_stage_node _ _ _ _ _ Hp i eq_refl) as Hn. destruct i as [e val who].
      destruct Hn as [-> [Hge Hc]]. split; [reflexivity|]. split; [rewrite Hge; discriminate|]. rewrite Hc. intros ? []. }
    destruct (py_iter y) as [xs|]; [|discriminate].
    destruct (collect_items 0 _) as [o|[ws [|e1 errs]]] eqn:Hc; try discriminate.
    { intros ->. apply collect_items_abnormal in Hc. destruct Hc as [_ Hc]. discriminate. }
    intros H; inversion H; subst. apply collect_items_ok in Hc. destruct Hc as [_ [_ Herrs]].
    split; [reflexivity|]. split; [discriminate|].
    cbn [direct_children]. intros inv Hin. apply in_map_iff in Hin. destruct Hin as [[j inv'] [Heq Hin]].
    cbn [snd] in Heq. subst inv'. rewrite Herrs in Hin. apply index_errs_in in Hin.
    apply in_item_calls in Hin. destruct Hin as [xi Hxi]. left. exists item, xi. auto.
  Qed.

  Lemma set_node self item ps aps co x i :
    child_of self item ->
    set_body E rec self item ps aps co m x = OInvalid i -> node_ok self x i.
  Proof.
    intros Hch. unfold set_body.
    destruct (mode_eqb m Sync && nonempty aps); [discriminate|].
    destruct (gate E co TSet TSet x) as [e|y] eqn:Hg.
    { intros H; inversion H; subst. destruct (gate_err_kind _ _ _ _ _ Hg) as [_ Hc].
      split; [reflexivity|]. split; [reflexivity|]. rewrite Hc. intros ? []. }
    destruct (pred_stage E self m ps aps y) as [o|] eqn:Hp.
    { intros ->. pose proof (pred_stage_node _ _ _ _ _ Hp i eq_refl) as Hn. destruct i as [e val who].
      destruct Hn as [-> [Hge Hc]]. split; [reflexivity|]. split; [rewrite Hge; discriminate|]. rewrite Hc. intros ? []. }
    destruct (py_iter y) as [xs|]; [|discriminate].
    destruct (collect_set E _ [] []) as [o|[ws [|e1 errs]]] eqn:Hc; try discriminate.
    { intros ->. apply collect_set_inl in Hc. discriminate. }
    intros H; inversion H; subst. apply collect_set_spec in Hc. destruct Hc as [_ Herrs]. cbn [app] in Herrs.
    split; [reflexivity|]. split; [discriminate|].
    cbn [direct_children]. intros inv Hin. rewrite Herrs in Hin. apply invalids_in in Hin.
    apply in_item_calls in Hin. destruct Hin as [xi Hxi]. left. exists item, xi. auto.
  Qed.

  Lemma ntuple_node self fields vobj co x i :
    (forall f, In f fields -> child_of self f) ->
    ntuple_body E rec self fields vobj co m x = OInvalid i -> node_ok self x i.
  Proof.
    intros Hch. unfold ntuple_body.
    destruct (gate E co TTuple TList x) as [e|y] eqn:Hg.
    { intros H; inversion H; subst. destruct (gate_err_kind _ _ _ _ _ Hg) as [_ Hc].
      split; [reflexivity|]. split; [reflexivity|]. rewrite Hc. intros ? []. }
    cbv zeta. destruct (pred_eval E _ y) as [[|]|]; try discriminate.
    2:{ intros H; inversion H; subst. split; [reflexivity|]. split; [discriminate|]. intros ? []. }
    destruct (py_iter y) as [xs|]; [|discriminate].
    destruct (collect_items 0 _) as [o|[ws [|e1 errs]]] eqn:Hc.
    - intros ->. apply collect_items_abnormal in Hc. destruct Hc as [_ Hc]. discriminate.
    - intros H. pose proof (obj_stage_node _ _ _ _ _ H) as Hn. destruct i as [e val who].
      destruct Hn as [-> [Hge Hcd]]. split; [reflexivity|]. split; [rewrite Hge; discriminate|]. rewrite Hcd. intros ? [].
    - intros H; inversion H; subst. apply collect_items_ok in Hc. destruct Hc as [_ [_ Herrs]].
      split; [reflexivity|]. split; [discriminate|].
      cbn [direct_children]. intros inv Hin. apply in_map_iff in Hin. destruct Hin as [[j inv'] [Heq Hin]].
      cbn [snd] in Heq. subst inv'. rewrite Herrs in Hin. apply index_errs_in in Hin.
      apply run_calls_in in Hin. destruct Hin as [[f xj] [Hin Hcall]].
      apply in_combine_l in Hin. left. exists f, xj. split; [apply Hch; exact Hin | exact Hcall].
  Qed.

  Lemma map_errs_children kv vv kvs inv :
    In inv (direct_children (MapErr (map_errs_of rec kv vv kvs))) ->
    (exists k, rec kv k = OInvalid inv) \/ (exists v, rec vv v = OInvalid inv).
  Proof.
    cbn [direct_children]. induction kvs as [|[k v] kvs IH]; cbn [map_errs_of flat_map]; [intros []|].
    destruct (rec kv k) eqn:Hk; destruct (rec vv v) eqn:Hv; cbn [flat_map fst snd inv_of opt_list app];
      try exact IH;
      intros Hin; repeat (destruct Hin as [Hin|Hin]; [subst; try (left; exists k; exact Hk); try (right; exists v; exact Hv)|]);
      try (apply IH; exact Hin); try contradiction.
  Qed.

  Lemma map_node self kv vv ps aps co x i :
    map_body E rec self kv vv ps aps co m x = OInvalid i ->
    match i with
    | Invalid e val who =>
        who = self /\ (is_gate_err e = true -> val = x) /\
        forall inv, In inv (direct_children e) ->
          (exists k, rec kv k = OInvalid inv) \/ (exists v, rec vv v = OInvalid inv)
    end.
  Proof.
    unfold map_body.
    destruct (mode_eqb m Sync && nonempty aps); [discriminate|].
    destruct (gate E co TDict TDict x) as [e|y] eqn:Hg.
    { intros H; inversion H; subst. destruct (gate_err_kind _ _ _ _ _ Hg) as [_ Hc].
      split; [reflexivity|]. split; [reflexivity|]. rewrite Hc. intros ? []. }
    destruct (pred_stage E self m ps aps y) as [o|] eqn:Hp.
    { intros ->. pose proof (pred_stage_node _ _ _ _ _ Hp i eq_refl) as Hn. destruct i as [e val who].
      destruct Hn as [-> [Hge Hc]]. split; [reflexivity|]. split; [rewrite Hge; discriminate|]. rewrite Hc. intros ? []. }
    destruct (as_dict y) as [kvs|]; [|discriminate].
    rewrite collect_map_ref.
    destruct (map_ref E rec kv vv kvs [] []) as [o|[d [|e1 errs]]] eqn:Hc; try discriminate.
    { intros ->. exfalso. eapply map_ref_not_invalid; eauto. }
    intros H; inversion H; subst. apply map_ref_errs in Hc. destruct Hc as [Herrs _]. cbn [app] in Herrs.
    split; [reflexivity|]. split; [discriminate|]. rewrite Herrs. apply map_errs_children.
  Qed.

  Lemma keys_node self pol keys data orig ws e1 errs :
    keys_loop rec self pol keys data orig = inr (ws, e1 :: errs) ->
    forall inv, In inv (direct_children (KeyErrs (e1 :: errs))) ->
      (exists v' x', In v' (map (fun k => fst (snd k)) keys) /\ rec v' x' = OInvalid inv) \/
      (exists d, inv = Invalid MissingKeyErr d self).
  Proof.
    rewrite keys_loop_ref. intros H inv Hin. apply keys_ref_spec in H. destruct H as [_ [He _]].
    cbn [direct_children] in Hin. apply in_map_iff in Hin. destruct Hin as [[k inv'] [Heq Hin]].
    cbn [snd] in Heq. subst inv'. rewrite He in Hin. apply key_errs_in in Hin.
    destruct Hin as [v [req [Hk [[_ [_ ->]]|[xv [_ Hr]]]]]].
    - right. eexists; reflexivity.
    - left. exists v, xv. split; [|exact Hr]. apply in_map_iff. exists (k, (v, req)). auto.
  Qed.

  Lemma keys_loop_inl_abnormal self pol keys data orig o i :
    keys_loop rec self pol keys data orig = inl o -> o <> OInvalid i.
  Proof. rewrite keys_loop_ref. intros H ->. apply keys_ref_abnormal in H. discriminate. Qed.

  Lemma record_node self keys into vobj avobj strict x i :
    self = RecordV keys into vobj avobj strict ->
    record_body E rec self keys into vobj avobj strict m x = OInvalid i -> node_ok self x i.
  Proof.
    intros Hself. unfold record_body.
    destruct (mode_eqb m Sync && has_some avobj); [discriminate|].
    destruct (negb (isinstance (ckind E) x TDict)).
    { intros H; inversion H; subst i. split; [reflexivity|]. split; [reflexivity|]. intros ? []. }
    destruct (as_dict x) as [data|].
    2:{ intros H; inversion H; subst i. split; [reflexivity|]. split; [reflexivity|]. intros ? []. }
    destruct (strict && has_unknown_key (map fst keys) data).
    { intros H; inversion H; subst i. split; [reflexivity|]. split; [discriminate|]. intros ? []. }
    destruct (keys_loop rec self AbsNothing (record_keys keys) data x) as [o|[ws [|e1 errs]]] eqn:Hc.
    - intros ->. exfalso. eapply keys_loop_inl_abnormal; eauto.
    - intros H. pose proof (obj_stage_node _ _ _ _ _ H) as Hn. destruct i as [e val who].
      destruct Hn as [-> [Hge Hcd]]. split; [reflexivity|]. split; [rewrite Hge; discriminate|]. rewrite Hcd. intros ? [].
    - intros H; inversion H; subst i. split; [reflexivity|]. split; [discriminate|].
      intros inv Hin. destruct (keys_node _ _ _ _ _ _ _ _ Hc inv Hin) as [[v' [x' [Hv Hr]]]|Hm]; [left|right; exact Hm].
      exists v', x'. split; [|exact Hr]. subst self. cbn [child_of].
      unfold record_keys in Hv. rewrite map_map in Hv. cbn [fst snd] in Hv. exact Hv.
  Qed.

  Lemma dictany_node self schema vobj avobj strict x i :
    self = DictAnyV schema vobj avobj strict ->
    dictany_body E rec self schema vobj avobj strict m x = OInvalid i -> node_ok self x i.
  Proof.
    intros Hself. unfold dictany_body.
    destruct (mode_eqb m Sync && has_some avobj); [discriminate|].
    destruct x; try (intros H; inversion H; subst i; split; [reflexivity|]; split; [reflexivity|]; intros ? []).
    destruct (strict && has_unknown_key (map fst schema) kvs).
    { intros H; inversion H; subst i. split; [reflexivity|]. split; [discriminate|]. intros ? []. }
    destruct (keys_loop rec self AbsOmit (dictany_keys schema) kvs (VDict kvs)) as [o|[ws [|e1 errs]]] eqn:Hc.
    - intros ->. exfalso. eapply keys_loop_inl_abnormal; eauto.
    - intros H. pose proof (obj_stage_node _ _ _ _ _ H) as Hn. destruct i as [e val who].
      destruct Hn as [-> [Hge Hcd]]. split; [reflexivity|]. split; [rewrite Hge; discriminate|]. rewrite Hcd. intros ? [].
    - intros H; inversion H; subst i. split; [reflexivity|]. split; [discriminate|].
      intros inv Hin. destruct (keys_node _ _ _ _ _ _ _ _ Hc inv Hin) as [[v' [x' [Hv Hr]]]|Hm]; [left|right; exact Hm].
      exists v', x'. split; [|exact Hr]. subst self. cbn [child_of].
      unfold dictany_keys in Hv. rewrite map_map in Hv. cbn [fst snd] in Hv. exact Hv.
  Qed.

  Lemma class_gate_err_kind rk c co x e :
    class_gate E rk c co x = inl e -> is_gate_err e = true /\ direct_children e = [].
  Proof.
    unfold class_gate. destruct co as [cc|].
    - destruct (coerce_apply E cc x); intros H; inversion H; split; reflexivity.
    - destruct x; destruct rk; try (intros H; inversion H; split; reflexivity);
        try (destruct (Nat.eqb c c0); intros H; inversion H; split; reflexivity).
  Qed.

  Lemma class_node self rk c schema vobj avobj strict co x i :
    self = ClassV rk c schema vobj avobj strict co ->
    class_body E rec self rk c schema vobj avobj strict co m x = OInvalid i -> node_ok self x i.
  Proof.
    intros Hself. unfold class_body.
    destruct (mode_eqb m Sync && has_some avobj); [discriminate|].
    destruct (class_gate E rk c co x) as [e|y] eqn:Hg.
    { intros H; inversion H; subst i. destruct (class_gate_err_kind _ _ _ _ _ Hg) as [_ Hc].
      split; [reflexivity|]. split; [reflexivity|]. rewrite Hc. intros ? []. }
    destruct (as_dict y) as [data|]; [|discriminate].
    destruct (strict && has_unknown_key (map fst schema) data).
    { intros H; inversion H; subst i. split; [reflexivity|]. split; [discriminate|]. intros ? []. }
    destruct (keys_loop rec self AbsOmit schema data y) as [o|[ws [|e1 errs]]] eqn:Hc.
    - intros ->. exfalso. eapply keys_loop_inl_abnormal; eauto.
    - intros H. pose proof (obj_stage_node _ _ _ _ _ H) as Hn. destruct i as [e val who].
      destruct Hn as [-> [Hge Hcd]]. split; [reflexivity|]. split; [rewrite Hge; discriminate|]. rewrite Hcd. intros ? [].
    - intros H; inversion H; subst i. split; [reflexivity|]. split; [discriminate|].
      intros inv Hin. destruct (keys_node _ _ _ _ _ _ _ _ Hc inv Hin) as [[v' [x' [Hv Hr]]]|Hm]; [left|right; exact Hm].
      exists v', x'. split; [|exact Hr]. subst self. cbn [child_of]. exact Hv.
  Qed.

  Lemma union_node self vs x i :
    (forall v', In v' vs -> child_of self v') ->
    union_body rec self vs x = OInvalid i -> node_ok self x i.
  Proof.
    intros Hch H. apply union_reject in H. destruct H as [errs [Hf ->]].
    split; [reflexivity|]. split; [discriminate|].
    cbn [direct_children]. intros inv Hin. left.
    clear - Hf Hin Hch. induction Hf as [|v e vs' errs' He _ IH]; [destruct Hin|].
    destruct Hin as [<-|Hin].
    - exists v, x. split; [apply Hch; left; reflexivity | exact He].
    - apply IH; [|exact Hin]. intros v' Hv. apply Hch. right; exact Hv.
  Qed.
End Prov.

(* ---------- the node theorem on [run] ---------- *)

Theorem run_node E :
  ((forall id obj e, uobj E id obj = Some e -> direct_children e = [] /\ is_gate_err e = false) /\
   (forall id obj e, uaobj E id obj = Some e -> direct_children e = [] /\ is_gate_err e = false)) ->
  forall m n v x i,
    run E m (S n) v x = OInvalid i ->
    (exists v', transparent E v v' /\ run E m n v' x = OInvalid i) \/
    (exists id f, v = UserV id f) \/
    node_ok (run E m n) v x i.
Proof.
  intros Hobj m n v x i H. cbn [run] in H.
  destruct v; cbn [step] in H.
  - (* Scalar *)
    right; right. apply scalar_reject in H. destruct H as [[e [Hg ->]]|[y [w [_ [_ [_ [_ ->]]]]]]].
    + apply gate_rejects in Hg. split; [reflexivity|]. split; [reflexivity|].
      destruct co; destruct Hg as [_ ->]; intros ? [].
    + split; [reflexivity|]. split; [discriminate|]. intros ? [].
  - right; right. unfold none_body in H. destruct co as [c|].
    + destruct (coerce_apply E c x); inversion H. split; [reflexivity|]. split; [reflexivity|]. intros ? [].
    + destruct x; inversion H; (split; [reflexivity|]; split; [reflexivity|]; intros ? []).
  - right; right. unfold equals_body in H. destruct (exact_type x (type_of m0)).
    + destruct (procs_apply E pre x); [|discriminate]. destruct (py_eq_p a m0) as [[|]|]; inversion H.
      split; [reflexivity|]. split; [discriminate|]. intros ? [].
    + inversion H. split; [reflexivity|]. split; [reflexivity|]. intros ? [].
  - discriminate.
  - right; right. destruct (isinstance (ckind E) x TDict); inversion H.
    split; [reflexivity|]. split; [reflexivity|]. intros ? [].
  - right; right. eapply seq_node; [reflexivity | exact H].
  - right; right. eapply set_node; [reflexivity | exact H].
  - right; right. eapply seq_node; [reflexivity | exact H].
  - right; right. eapply ntuple_node; [exact Hobj | intros f Hf; exact Hf | exact H].
  - right; right. pose proof (map_node E m (run E m n) _ _ _ _ _ _ _ _ H) as Hn.
    destruct i as [e val who]. destruct Hn as [-> [Hg Hc]]. split; [reflexivity|]. split; [exact Hg|].
    intros inv Hin. left. destruct (Hc inv Hin) as [[k Hk]|[v Hv]]; [exists v1, k | exists v2, v]; cbn [child_of]; auto.
  - right; right. eapply record_node; [exact Hobj | reflexivity | exact H].
  - right; right. eapply dictany_node; [exact Hobj | reflexivity | exact H].
  - right; right. eapply class_node; [exact Hobj | reflexivity | exact H].
  - right; right. eapply union_node; [|exact H]. intros v' Hv; exact Hv.
  - right; right. eapply union_node; [|exact H]. intros v' [<-|[<-|[]]]; cbn [child_of]; auto.
  - (* MaybeV *)
    right; right. unfold maybe_body in H. destruct x; inversion H;
      try (split; [reflexivity|]; split; [reflexivity|]; intros ? []).
    destruct (run E m n v x) eqn:Hr; inversion H.
    split; [reflexivity|]. split; [discriminate|]. cbn [direct_children]. intros inv [<-|[]].
    left. exists v, x. split; [reflexivity | exact Hr].
  - left. exists (lazy_env E ref). split; [reflexivity | exact H].
  - left. exists v. split; [reflexivity|]. unfold knr_body in H. destruct (run E m n v x); inversion H; reflexivity.
  - left. exists v. split; [reflexivity | exact H].
  - right; left. eauto.
Qed.

(* ---------- every node of the whole error tree ---------- *)

Fixpoint nodes_inv (i : invalid) : list invalid :=
  match i with
  | Invalid e _ _ => i :: nodes_err e
  end
with nodes_err (e : errtype) : list invalid :=
  match e with
  | ContainerErr c => nodes_inv c
  | KeyErrs ks => flat_map (fun kv => nodes_inv (snd kv)) ks
  | MapErr ks =>
      flat_map (fun k => match fst (snd k) with Some a => nodes_inv a | None => [] end
                         ++ match snd (snd k) with Some b => nodes_inv b | None => [] end) ks
  | IndexErrs ix => flat_map (fun kv => nodes_inv (snd kv)) ix
  | SetErrs xs => flat_map nodes_inv xs
  | UnionErrs xs => flat_map nodes_inv xs
  | _ => []
  end.

Lemma nodes_err_children e nd :
  In nd (nodes_err e) <-> exists c, In c (direct_children e) /\ In nd (nodes_inv c).
Proof.
  destruct e; cbn [nodes_err direct_children]; try (split; [intros [] | intros [c [[] _]]]).
  - split; [intros H; exists child; split; [left; reflexivity | exact H] | intros [c [[<-|[]] H]]; exact H].
  - rewrite in_flat_map. split.
    + intros [kv [Hin H]]. exists (snd kv). split; [apply in_map; exact Hin | exact H].
    + intros [c [Hin H]]. apply in_map_iff in Hin. destruct Hin as [kv [<- Hin]]. exists kv; auto.
  - rewrite in_flat_map. split.
    + intros [k [Hin H]]. apply in_app_or in H. destruct H as [H|H].
      * destruct (fst (snd k)) as [a|] eqn:Ha; [|destruct H]. exists a. split; [|exact H].
        apply in_flat_map. exists k. split; [exact Hin|]. rewrite Ha. left; reflexivity.
      * destruct (snd (snd k)) as [b|] eqn:Hb; [|destruct H]. exists b. split; [|exact H].
        apply in_flat_map. exists k. split; [exact Hin|]. rewrite Hb. apply in_or_app. right. left; reflexivity.
    + intros [c [Hin H]]. apply in_flat_map in Hin. destruct Hin as [k [Hin Hc]]. exists k. split; [exact Hin|].
      apply in_app_or in Hc. apply in_or_app. destruct Hc as [Hc|Hc].
      * left. destruct (fst (snd k)) as [a|]; [destruct Hc as [<-|[]]; exact H | destruct Hc].
      * right. destruct (snd (snd k)) as [b|]; [destruct Hc as [<-|[]]; exact H | destruct Hc].
  - rewrite in_flat_map. split.
    + intros [kv [Hin H]]. exists (snd kv). split; [apply in_map; exact Hin | exact H].
    + intros [c [Hin H]]. apply in_map_iff in Hin. destruct Hin as [kv [<- Hin]]. exists kv; auto.
  - rewrite in_flat_map. split; intros [c [Hin H]]; exists c; auto.
  - rewrite in_flat_map. split; intros [c [Hin H]]; exists c; auto.
Qed.

(* validators reachable from the root through children, wrappers and lazy references *)
Inductive Reach (E : env) : validator -> validator -> Prop :=
| reach_refl v : Reach E v v
| reach_child v v' w : child_of v v' -> Reach E v' w -> Reach E v w
| reach_transparent v v' w : transparent E v v' -> Reach E v' w -> Reach E v w.

(* the whole error tree mirrors the validator tree: every node names a validator reachable
   from the root at the corresponding position, and a missing-key node names its record *)
Theorem run_tree E :
  ((forall id obj e, uobj E id obj = Some e -> direct_children e = [] /\ is_gate_err e = false) /\
   (forall id obj e, uaobj E id obj = Some e -> direct_children e = [] /\ is_gate_err e = false)) ->
  (forall id f m x e val who, uvalid E id f m x = OInvalid (Invalid e val who) ->
                              who = UserV id f /\ direct_children e = []) ->
  forall m fuel v x i,
    run E m fuel v x = OInvalid i ->
    forall e val who, In (Invalid e val who) (nodes_inv i) -> Reach E v who.
Proof.
  intros Hobj Huser m. induction fuel as [|n IH]; intros v x i H e val who Hin; [discriminate|].
  destruct (run_node E Hobj m n v x i H) as [[v' [Ht Hr]]|[[id [f ->]]|Hn]].
  - eapply reach_transparent; [exact Ht|]. eapply IH; eauto.
  - cbn [run step] in H. destruct i as [e0 val0 who0]. destruct (Huser _ _ _ _ _ _ _ H) as [-> Hc].
    cbn [nodes_inv] in Hin. destruct Hin as [Heq|Hin].
    + inversion Heq; subst. apply reach_refl.
    + apply nodes_err_children in Hin. destruct Hin as [c [Hc' _]]. rewrite Hc in Hc'. destruct Hc'.
  - destruct i as [e0 val0 who0]. destruct Hn as [-> [_ Hch]].
    cbn [nodes_inv] in Hin. destruct Hin as [Heq|Hin].
    + inversion Heq; subst. apply reach_refl.
    + apply nodes_err_children in Hin. destruct Hin as [c [Hc Hnd]].
      destruct (Hch c Hc) as [[v' [x' [Hcv Hrun]]]|[data ->]].
      * eapply reach_child; [exact Hcv|]. eapply IH; eauto.
      * cbn [nodes_inv nodes_err] in Hnd. destruct Hnd as [Heq|[]]. inversion Heq; subst. apply reach_refl.
Qed.
